#!/bin/sh
# Builds the harness offline from files on disk (and the interpreter from /repo with feature verif),
# then validates the reference model against the repository's own expectations.
set -e
export CARGO_NET_OFFLINE=true
mkdir -p /verif/.target /verif/evidence /verif/replays
cd /verif/nlmc
cargo build --release --offline
/verif/.target/release/nlmc selftest
