#!/bin/sh
# Builds the harness offline from files on disk (and the interpreter from /repo with feature verif),
# then validates the reference model against the repository's own expectations.
set -e
export CARGO_NET_OFFLINE=true
mkdir -p /verif/.target /verif/evidence /verif/replays
cd /verif/nlmc
cargo build --release --offline
# second build profile (debug assertions + overflow checks) used by C15 and C16
cargo build --profile devchk --offline
/verif/.target/release/nlmc selftest
