//! The slice grammars of DESIGN 5/C01: each is the full grammar restricted to a small alphabet and
//! to the constructs it is about, enumerated completely up to a node bound.

use crate::gen::*;
use crate::shard::Tier;
use nederlang::verif::{Operator, Stmt};

pub struct Slice {
    pub name: &'static str,
    /// statements put in front of every body (declares the names the body uses)
    pub prelude: Vec<Stmt>,
    /// wrap the body as `functie(a, b) { body }(x, y)` (locals, fused opcodes) instead of top level
    pub wrap: Option<(Vec<&'static str>, Vec<nederlang::verif::Expr>)>,
    pub grammar: Grammar,
    /// largest body size in nodes: (quick, thorough)
    pub bound: (usize, usize),
    pub in_func: bool,
}

fn names(v: &[&str]) -> Vec<String> {
    v.iter().map(|s| s.to_string()).collect()
}

pub fn slices() -> Vec<Slice> {
    let mut v = Vec::new();

    // arith: every operator over every literal type, at top level
    v.push(Slice {
        name: "arith",
        prelude: vec![],
        wrap: None,
        grammar: Grammar {
            atoms: vec![int(0), int(1), int(2), int(7), flt(1.5), string("a"), boolean(true), boolean(false)],
            infix: all_infix_ops(),
            prefix: vec![Operator::Subtract, Operator::Not],
            max_expr: 5,
            max_stmts: 1,
            ..Default::default()
        },
        bound: (5, 5),
        in_func: false,
    });

    // arith-local: integer operators over parameters and literals inside a function (fused opcodes)
    let mut ops = ARITH_OPS.to_vec();
    ops.extend(CMP_OPS.iter().cloned());
    v.push(Slice {
        name: "arith-local",
        prelude: vec![],
        wrap: Some((vec!["a", "b"], vec![int(2), int_lit(-3)])),
        grammar: Grammar {
            atoms: vec![id("a"), id("b"), int(0), int(2), int(10)],
            infix: ops.clone(),
            prefix: vec![Operator::Subtract],
            max_expr: 7,
            max_stmts: 1,
            ..Default::default()
        },
        bound: (5, 7),
        in_func: true,
    });

    // arith-global: the same over global variables (generic opcodes)
    v.push(Slice {
        name: "arith-global",
        prelude: vec![let_("a", int(2)), let_("b", int_lit(-3))],
        wrap: None,
        grammar: Grammar {
            atoms: vec![id("a"), id("b"), int(0), int(2), int(10)],
            infix: ops,
            prefix: vec![Operator::Subtract],
            max_expr: 7,
            max_stmts: 1,
            ..Default::default()
        },
        bound: (5, 5),
        in_func: false,
    });

    // arith-typed: variables of every non-integer type against the small integer literals (identities
    // such as x + 0 or x * 1 included), at top level and inside a function
    let typed_atoms = vec![id("a"), id("b"), id("c"), id("d"), int(0), int(1), int(2)];
    let mut typed_ops = ARITH_OPS.to_vec();
    typed_ops.extend(CMP_OPS.iter().cloned());
    v.push(Slice {
        name: "arith-typed",
        prelude: vec![let_("a", flt(1.5)), let_("b", string("s")), let_("c", boolean(true)), let_("d", array(vec![int(1)]))],
        wrap: None,
        grammar: Grammar { atoms: typed_atoms.clone(), infix: typed_ops.clone(), prefix: vec![Operator::Subtract], max_expr: 5, max_stmts: 1, ..Default::default() },
        bound: (3, 5),
        in_func: false,
    });
    v.push(Slice {
        name: "arith-typed-local",
        prelude: vec![],
        wrap: Some((vec!["a", "b", "c", "d"], vec![flt(1.5), string("s"), boolean(true), array(vec![int(1)])])),
        grammar: Grammar { atoms: typed_atoms, infix: typed_ops, prefix: vec![Operator::Subtract], max_expr: 5, max_stmts: 1, ..Default::default() },
        bound: (3, 5),
        in_func: true,
    });

    // ctrl: declarations, assignment, blocks, if/else, counter loops with stop/volgende, prints
    let ctrl = Grammar {
        atoms: vec![id("a"), id("b"), int(1), boolean(true), boolean(false)],
        infix: vec![Operator::Lt, Operator::Add],
        assign_names: names(&["a"]),
        op_assign_ops: vec![Operator::Add],
        let_names: names(&["a", "c"]),
        if_expr: true,
        if_else: true,
        dead_while: true,
        loop_counts: vec![2],
        block_stmt: true,
        break_continue: true,
        print_stmt: true,
        max_stmts: 3,
        max_expr: 6,
        ..Default::default()
    };
    v.push(Slice {
        name: "ctrl",
        prelude: vec![let_("a", int(1)), let_("b", int(2))],
        wrap: None,
        grammar: ctrl.clone(),
        bound: (5, 6),
        in_func: false,
    });
    // ctrl-local: the same inside a function body, plus antwoord
    let mut ctrl_local = ctrl;
    ctrl_local.ret = true;
    v.push(Slice {
        name: "ctrl-local",
        prelude: vec![],
        wrap: Some((vec!["a", "b"], vec![int(1), int(2)])),
        grammar: ctrl_local,
        bound: (5, 6),
        in_func: true,
    });

    // fun: named functions, calls in operand/argument positions, anonymous functions, antwoord
    v.push(Slice {
        name: "fun",
        prelude: vec![
            es(func("f", &["x"], vec![es(infix(id("x"), Operator::Add, int(1)))])),
            es(func("g", &["x", "y"], vec![print1(id("x")), es(infix(id("x"), Operator::Subtract, id("y")))])),
            let_("a", int(5)),
        ],
        wrap: None,
        grammar: Grammar {
            atoms: vec![id("a"), int(1), id("c"), id("f")],
            func_atoms: vec![id("p0"), id("p1")],
            infix: vec![Operator::Subtract, Operator::Lt],
            callees: vec![("f".into(), 1), ("g".into(), 2)],
            array_max: 2,
            iife: true,
            ret: true,
            if_expr: true,
            let_names: names(&["c"]),
            max_stmts: 2,
            max_expr: 7,
            ..Default::default()
        },
        bound: (5, 6),
        in_func: false,
    });

    // heap: arrays and strings, index read/write, aliasing, lengte
    v.push(Slice {
        name: "heap",
        prelude: vec![
            let_("a", array(vec![int(1), array(vec![int(2)])])),
            let_("s", string("xé")),
            let_("c", id("a")),
        ],
        wrap: None,
        grammar: Grammar {
            atoms: vec![id("a"), id("c"), id("s"), int(0), int(1), string("y")],
            prefix: vec![Operator::Subtract],
            index_bases: vec![id("a"), id("c"), id("s"), string("y")],
            index_set: true,
            builtins: vec![("lengte".into(), 1)],
            array_max: 2,
            let_names: names(&["c"]),
            print_stmt: true,
            max_stmts: 3,
            max_expr: 5,
            ..Default::default()
        },
        bound: (5, 6),
        in_func: false,
    });
    // heap-local: the same inside a function (heap objects alive across a return)
    v.push(Slice {
        name: "heap-local",
        prelude: vec![let_("g", array(vec![flt(1.5)]))],
        wrap: Some((vec!["a", "s"], vec![array(vec![int(1), array(vec![int(2)])]), string("xé")])),
        grammar: Grammar {
            atoms: vec![id("a"), id("s"), id("g"), int(0), int(1), string("y"), flt(2.5)],
            index_bases: vec![id("a"), id("s"), id("g")],
            index_set: true,
            builtins: vec![("lengte".into(), 1)],
            array_max: 2,
            let_names: names(&["c"]),
            ret: true,
            max_stmts: 3,
            max_expr: 5,
            ..Default::default()
        },
        bound: (4, 5),
        in_func: true,
    });

    // gc: functions that create, return, receive, store and drop floats, strings and arrays, called
    // from operand, argument and array-literal positions (a collection runs at every return)
    v.push(Slice {
        name: "gc",
        prelude: vec![
            es(func("mk", &["x"], vec![es(array(vec![id("x"), flt(2.5)]))])),
            es(func("idt", &["x"], vec![es(id("x"))])),
            es(func("cat", &["x", "y"], vec![let_("t", array(vec![id("x"), id("y")])), es(id("t"))])),
            es(func("drp", &["x"], vec![let_("u", string("tmp")), let_("w", id("x"))])),
            let_("g", array(vec![flt(1.5), string("u")])),
        ],
        wrap: None,
        grammar: Grammar {
            atoms: vec![flt(0.5), string("t"), id("g")],
            infix: vec![Operator::Add],
            index_bases: vec![id("g")],
            index_set: true,
            assign_names: names(&["g"]),
            let_names: names(&["c"]),
            callees: vec![("mk".into(), 1), ("idt".into(), 1), ("cat".into(), 2), ("drp".into(), 1)],
            builtins: vec![("string".into(), 1)],
            array_max: 2,
            max_stmts: 2,
            max_expr: 6,
            ..Default::default()
        },
        bound: (5, 6),
        in_func: false,
    });

    // builtin: the seven builtins over values of every type
    v.push(Slice {
        name: "builtin",
        prelude: vec![let_("f", func("", &[], vec![]))],
        wrap: None,
        grammar: Grammar {
            atoms: vec![
                int(0),
                int(1),
                flt(1.5),
                string("a"),
                string("12"),
                string(""),
                boolean(true),
                array(vec![]),
                array(vec![int(1), string("s")]),
                id("f"),
                iff(boolean(false), vec![], None),
            ],
            prefix: vec![Operator::Subtract],
            builtins: vec![
                ("print".into(), 1),
                ("print".into(), 2),
                ("type".into(), 1),
                ("bool".into(), 1),
                ("int".into(), 1),
                ("float".into(), 1),
                ("string".into(), 1),
                ("lengte".into(), 1),
                ("int".into(), 2),
                ("lengte".into(), 0),
            ],
            max_stmts: 1,
            max_expr: 4,
            ..Default::default()
        },
        bound: (4, 4),
        in_func: false,
    });

    // mix: the full grammar with the smallest alphabet
    v.push(Slice {
        name: "mix",
        prelude: vec![let_("a", int(1)), es(func("f", &["x"], vec![es(id("x"))]))],
        wrap: None,
        grammar: Grammar {
            atoms: vec![id("a"), int(1), string("s")],
            func_atoms: vec![id("p0"), id("p1")],
            infix: vec![Operator::Add, Operator::Lt],
            prefix: vec![Operator::Subtract],
            index_bases: vec![id("a"), array(vec![int(1)])],
            index_set: true,
            assign_names: names(&["a"]),
            op_assign_ops: vec![Operator::Subtract],
            let_names: names(&["a"]),
            callees: vec![("f".into(), 1)],
            builtins: vec![("print".into(), 1), ("lengte".into(), 1)],
            array_max: 1,
            if_expr: true,
            if_else: true,
            dead_while: true,
            loop_counts: vec![1],
            iife: true,
            block_stmt: true,
            break_continue: true,
            ret: true,
            print_stmt: false,
            named_funcs: vec![],
            ja_loops: false,
            max_stmts: 2,
            max_expr: 5,
        },
        bound: (4, 5),
        in_func: false,
    });
    v
}

/// Streams this worker's share of the programs of a slice up to its bound for the tier, simplest
/// first. Programs are grouped by their first statement; whole groups are handed to workers
/// round-robin and the groups of other workers are skipped without being generated.
pub fn for_each_program(
    sl: &Slice,
    tier: Tier,
    sh: &mut crate::shard::Shard,
    f: &mut dyn FnMut(&mut crate::shard::Shard, &[Stmt]) -> bool,
) -> bool {
    let bound = if tier == Tier::Quick { sl.bound.0 } else { sl.bound.1 };
    let en = Enumerator::new(sl.grammar.clone());
    let ctx = Ctx { in_loop: false, in_func: sl.in_func, loop_depth: 0, func_depth: 0 };
    let cell = std::cell::RefCell::new(sh);
    cell.borrow_mut().group_mode = true;
    let mut ok = true;
    for n in 1..=bound {
        let prelude = sl.prelude.clone();
        let wrap = sl.wrap.clone();
        ok = en.each_block_grouped(
            n,
            ctx,
            &mut |size| cell.borrow_mut().want_group(size),
            &mut |body| {
                let mut prog = prelude.clone();
                match &wrap {
                    None => prog.extend(body.iter().cloned()),
                    Some((params, args)) => {
                        prog.push(es(call(func("", params, body.to_vec()), args.clone())));
                    }
                }
                let mut guard = cell.borrow_mut();
                f(&mut **guard, &prog)
            },
        );
        if !ok {
            break;
        }
    }
    cell.borrow_mut().group_mode = false;
    ok
}

/// Number of programs of a slice for the tier (computed, not enumerated).
pub fn count_programs(sl: &Slice, tier: Tier) -> u64 {
    let bound = if tier == Tier::Quick { sl.bound.0 } else { sl.bound.1 };
    let en = Enumerator::new(sl.grammar.clone());
    let ctx = Ctx { in_loop: false, in_func: sl.in_func, loop_depth: 0, func_depth: 0 };
    (1..=bound).map(|n| en.count_blocks(n, ctx)).sum()
}

/// The scope slice of C09: declarations, assignments and prints of {a, b}, blocks, `als ja`, a one-shot
/// loop, named functions f(p) nested in blocks and in functions, calls; every declaration's literal is
/// renumbered afterwards so that the value read tells which declaration was resolved.
pub fn scope_slice() -> Slice {
    Slice {
        name: "scope",
        prelude: vec![],
        wrap: None,
        grammar: Grammar {
            atoms: vec![id("a"), id("b"), int(0)],
            func_atoms: vec![id("p")],
            let_names: names(&["a", "b"]),
            assign_names: names(&["a"]),
            callees: vec![("f".into(), 1)],
            named_funcs: vec![("f".into(), vec!["p".into()])],
            if_expr: true,
            loop_counts: vec![1],
            block_stmt: true,
            print_stmt: true,
            max_stmts: 4,
            max_expr: 3,
            ..Default::default()
        },
        bound: (6, 7),
        in_func: false,
    }
}

/// Directed family: a function nested in a function, the inner one reading / writing / combining
/// every name of the outer one, of itself, a global and an undeclared name, for every small shape of
/// parameter and local counts (the situations in which slot numbers of two contexts can be confused).
pub fn nested_function_programs() -> Vec<Vec<Stmt>> {
    let mut out = Vec::new();
    for np in 0..=3usize {
        for nl in 0..=2usize {
            for ip in 0..=2usize {
                for il in 0..=1usize {
                    let oparams: Vec<String> = (0..np).map(|i| format!("a{i}")).collect();
                    let olocals: Vec<String> = (0..nl).map(|i| format!("l{i}")).collect();
                    let iparams: Vec<String> = (0..ip).map(|i| format!("q{i}")).collect();
                    let ilocals: Vec<String> = (0..il).map(|i| format!("m{i}")).collect();
                    let mut names: Vec<String> = Vec::new();
                    names.extend(oparams.iter().cloned());
                    names.extend(olocals.iter().cloned());
                    names.extend(iparams.iter().cloned());
                    names.extend(ilocals.iter().cloned());
                    names.push("g".into());
                    names.push("z".into());
                    for n in &names {
                        for kind in 0..4 {
                            let use_ = match kind {
                                0 => es(id(n)),
                                1 => es(assign(id(n), int(5))),
                                2 => es(infix(id(n), Operator::Add, int(1))),
                                _ => es(infix(int(10), Operator::Subtract, id(n))),
                            };
                            let mut ibody: Vec<Stmt> = ilocals.iter().enumerate().map(|(i, l)| let_(l, int(40 + i as i64))).collect();
                            ibody.push(use_);
                            let ipr: Vec<&str> = iparams.iter().map(|s| s.as_str()).collect();
                            let inner = call(func("", &ipr, ibody), (0..ip).map(|i| int(30 + i as i64)).collect());
                            let mut obody: Vec<Stmt> = olocals.iter().enumerate().map(|(i, l)| let_(l, int(20 + i as i64))).collect();
                            obody.push(es(array(vec![int(99), inner])));
                            let opr: Vec<&str> = oparams.iter().map(|s| s.as_str()).collect();
                            let outer = call(func("", &opr, obody), (0..np).map(|i| int(10 + i as i64)).collect());
                            out.push(vec![let_("g", int(7)), es(outer.clone())]);
                            // the same with a global of every outer name: the inner function must see the global
                            if kind != 3 && (oparams.contains(n) || olocals.contains(n)) {
                                let mut prog = vec![let_("g", int(7))];
                                for (i, nm) in oparams.iter().chain(olocals.iter()).enumerate() {
                                    prog.push(let_(nm, int(1000 + i as i64)));
                                }
                                prog.push(es(outer));
                                prog.push(es(array(oparams.iter().chain(olocals.iter()).map(|nm| id(nm)).collect())));
                                out.push(prog);
                            }
                        }
                    }
                }
            }
        }
    }
    out
}

/// Functions defined inside top-level scopes (block, `als` branch, loop body) nested to depth 1..3, where
/// each level may declare its own `x` (distinct literals, so the value read names the declaration): the
/// function reads or writes `x` and is called INSIDE the scope that defined it (calling it after the scope
/// has ended is U2); every level prints its `x` on the way out. Also the whole thing inside a function body.
pub fn block_function_programs() -> Vec<Vec<Stmt>> {
    let mut out = Vec::new();
    for depth in 1..=3usize {
        for mask in 0..(1u32 << (depth + 1)) {
            // bit 0: the global level declares x; bit k: scope level k declares x
            if mask == 0 {
                continue; // x undeclared everywhere: covered by the (u) variants
            }
            if mask & 1 == 0 && (mask >> 1).trailing_zeros() > 0 && depth > 1 {
                // fine: x only declared deeper; the outer prints would be reference errors — skip those prints below
            }
            for scope_kind in 0..3 {
                for fn_kind in 0..2 {
                    for action in 0..3 {
                        // innermost statements
                        let body: Vec<Stmt> = match action {
                            0 => vec![es(id("x"))],
                            1 => vec![es(assign(id("x"), int(77))), es(id("x"))],
                            _ => vec![es(call(func("", &[], vec![es(infix(id("x"), Operator::Add, int(1000)))]), vec![]))],
                        };
                        let def = if fn_kind == 0 { es(func("f", &[], body)) } else { let_("f", func("", &[], body)) };
                        let declared_at_or_above = |lvl: usize| (0..=lvl).any(|k| mask & (1 << k) != 0);
                        let mut inner: Vec<Stmt> = Vec::new();
                        if mask & (1 << depth) != 0 {
                            inner.push(let_("x", int(10 * (depth as i64 + 1))));
                        }
                        if !declared_at_or_above(depth) {
                            continue;
                        }
                        inner.push(def.clone());
                        inner.push(print1(calln("f", vec![])));
                        inner.push(print1(id("x")));
                        let mut ok = true;
                        for lvl in (1..depth).rev() {
                            let mut stmts: Vec<Stmt> = Vec::new();
                            if mask & (1 << lvl) != 0 {
                                stmts.push(let_("x", int(10 * (lvl as i64 + 1))));
                            }
                            stmts.push(wrap_scope(scope_kind, inner));
                            if declared_at_or_above(lvl) {
                                stmts.push(print1(id("x")));
                            }
                            inner = stmts;
                            let _ = &mut ok;
                        }
                        let mut prog: Vec<Stmt> = Vec::new();
                        if mask & 1 != 0 {
                            prog.push(let_("x", int(10)));
                        }
                        prog.push(let_("once", int(0)));
                        prog.push(wrap_scope(scope_kind, inner));
                        if mask & 1 != 0 {
                            prog.push(print1(id("x")));
                        }
                        out.push(prog.clone());
                        // the same inside a function body (the scopes are then local scopes of a function, and
                        // the inner function cannot see them: reading x there must find the GLOBAL x or fail)
                        if mask & 1 != 0 {
                            let mut body = prog[1..].to_vec();
                            body.push(es(int(0)));
                            out.push(vec![prog[0].clone(), es(func("host", &[], body)), es(calln("host", vec![])), print1(id("x"))]);
                        }
                    }
                }
            }
        }
    }
    out
}

fn wrap_scope(kind: usize, stmts: Vec<Stmt>) -> Stmt {
    match kind {
        0 => Stmt::Block(stmts),
        1 => es(iff(boolean(true), stmts, None)),
        _ => {
            // a loop that runs once
            let mut b = vec![es(assign(id("once"), infix(id("once"), Operator::Add, int(1))))];
            b.extend(stmts);
            b.push(es(iff(boolean(true), vec![Stmt::Break], None)));
            es(whil(boolean(true), b))
        }
    }
}

/// A literal evaluated again is pristine: a string or array literal is passed through every value-preserving
/// context (directly, through `string()`, an identity function, an array literal and index, both branches
/// of an `als`, an immediately called function, an assignment), the result is modified in place, and the
/// same literal is then evaluated again — at the same site (second call, second loop iteration) and at
/// another site with the same text.
pub fn literal_pristine_programs() -> Vec<Vec<Stmt>> {
    let mut out = Vec::new();
    let lits: Vec<(nederlang::verif::Expr, nederlang::verif::Expr, bool)> = vec![
        (string("-----"), string("*"), true),
        (string("héé"), string("e"), true),
        (array(vec![int(1), int(2), int(3)]), int(9), false),
        (array(vec![string("ab"), flt(1.5)]), string("z"), false),
    ];
    for (lit, rep, is_str) in &lits {
        let mut contexts: Vec<(&str, nederlang::verif::Expr)> = vec![
            ("direct", lit.clone()),
            ("identity-call", calln("idf", vec![lit.clone()])),
            ("array-and-index", index(array(vec![lit.clone(), int(0)]), int(0))),
            ("if-true", iff(boolean(true), vec![es(lit.clone())], None)),
            ("if-else", iff(boolean(false), vec![es(int(0))], Some(vec![es(lit.clone())]))),
            ("iife", call(func("", &[], vec![es(lit.clone())]), vec![])),
            ("iife-return", call(func("", &[], vec![Stmt::Return(lit.clone()), es(int(0))]), vec![])),
            ("assignment", assign(id("tmp"), lit.clone())),
            ("second-argument", calln("snd", vec![int(0), lit.clone()])),
        ];
        if *is_str {
            contexts.push(("string()", calln("string", vec![lit.clone()])));
            contexts.push(("string(string())", calln("string", vec![calln("string", vec![lit.clone()])])));
            contexts.push(("print-then-string()", calln("string", vec![lit.clone()])));
        }
        for (name, ctx) in contexts {
            let prelude = vec![
                es(func("idf", &["p"], vec![es(id("p"))])),
                es(func("snd", &["p", "q"], vec![es(id("q"))])),
                let_("tmp", int(0)),
            ];
            // the same site twice, through a function
            let mut p1 = prelude.clone();
            if name == "print-then-string()" {
                p1.push(es(calln("print", vec![lit.clone()])));
            }
            p1.push(es(func("mk", &["n"], vec![let_("s", ctx.clone()), es(assign(index(id("s"), id("n")), rep.clone())), es(id("s"))])));
            p1.push(es(calln("print", vec![calln("mk", vec![int(0)])])));
            p1.push(es(calln("print", vec![calln("mk", vec![int(1)])])));
            p1.push(es(calln("print", vec![lit.clone()])));
            out.push(p1);
            // the same site twice, in a loop at top level
            let mut p2 = prelude.clone();
            p2.push(let_("i", int(0)));
            p2.push(es(whil(
                infix(id("i"), Operator::Lt, int(2)),
                vec![let_("s", ctx.clone()), es(assign(index(id("s"), id("i")), rep.clone())), es(calln("print", vec![id("s")])), es(op_assign("i", Operator::Add, int(1)))],
            )));
            p2.push(es(calln("print", vec![lit.clone()])));
            out.push(p2);
            // another site with the same text, before and after
            let mut p3 = prelude.clone();
            p3.push(let_("before", lit.clone()));
            p3.push(let_("a", ctx.clone()));
            p3.push(es(assign(index(id("a"), int(0)), rep.clone())));
            p3.push(let_("b", lit.clone()));
            p3.push(let_("c", ctx.clone()));
            p3.push(es(calln("print", vec![string("{} {} {} {}"), id("before"), id("a"), id("b"), id("c")])));
            out.push(p3);
        }
    }
    out
}

/// Evaluation order: every construct with more than one operand position, with operands that announce
/// themselves (a marker function prints its number) and with operands that write a variable another operand
/// of the same construct reads. At top level and inside a function (locals).
pub fn evaluation_order_programs() -> Vec<Vec<Stmt>> {
    let m = |k: i64, v: nederlang::verif::Expr| calln("m", vec![int(k), v]);
    let bump = || calln("bump", vec![]);
    let mut exprs: Vec<nederlang::verif::Expr> = Vec::new();
    for op in all_infix_ops() {
        let (l, r) = match op {
            Operator::And | Operator::Or => (boolean(true), boolean(false)),
            _ => (int(7), int(2)),
        };
        exprs.push(infix(m(1, l.clone()), op.clone(), m(2, r.clone())));
        exprs.push(infix(infix(m(1, l.clone()), op.clone(), m(2, r.clone())), op.clone(), m(3, r.clone())));
        exprs.push(infix(m(1, l.clone()), op.clone(), infix(m(2, l), op.clone(), m(3, r))));
    }
    exprs.extend([
        array(vec![m(1, int(1)), m(2, int(2)), m(3, int(3))]),
        calln("f3", vec![m(1, int(1)), m(2, int(2)), m(3, int(3))]),
        calln("print", vec![string("{} {}"), m(1, int(1)), m(2, int(2))]),
        index(m(1, id("arr")), m(2, int(1))),
        assign(index(id("arr"), m(2, int(1))), m(3, int(9))),
        assign(index(id("arr"), id("i")), bump()),
        assign(index(id("arr"), bump()), id("i")),
        assign(index(id("arr"), id("i")), op_assign("i", Operator::Add, int(2))),
        assign(index(id("arr"), id("i")), index(id("arr"), op_assign("i", Operator::Add, int(1)))),
        assign(index(id("arr"), op_assign("i", Operator::Add, int(1))), index(id("arr"), id("i"))),
        infix(id("i"), Operator::Add, assign(id("i"), int(5))),
        infix(assign(id("i"), int(5)), Operator::Add, id("i")),
        infix(id("i"), Operator::Multiply, bump()),
        infix(bump(), Operator::Subtract, id("i")),
        infix(infix(id("i"), Operator::Add, bump()), Operator::Add, infix(id("i"), Operator::Multiply, bump())),
        array(vec![id("i"), bump(), id("i"), op_assign("i", Operator::Add, int(10)), id("i")]),
        calln("f3", vec![id("i"), bump(), id("i")]),
        calln("f3", vec![bump(), id("i"), assign(id("i"), int(0))]),
        neg(m(1, int(1))),
        prefix(Operator::Not, m(1, boolean(true))),
        iff(m(1, boolean(true)), vec![es(m(2, int(1)))], Some(vec![es(m(3, int(1)))])),
        iff(m(1, boolean(false)), vec![es(m(2, int(1)))], Some(vec![es(m(3, int(1)))])),
        calln("lengte", vec![m(1, array(vec![m(2, int(1)), m(3, int(2))]))]),
        index(array(vec![m(1, int(1)), m(2, int(2))]), m(3, int(0))),
        assign(id("i"), infix(m(1, int(1)), Operator::Add, id("i"))),
        op_assign("i", Operator::Add, bump()),
        calln("string", vec![index(id("arr"), bump())]),
    ]);
    let prelude = || {
        vec![
            es(func("m", &["k", "v"], vec![print1(id("k")), es(id("v"))])),
            es(func("f3", &["a", "b", "c"], vec![es(array(vec![id("a"), id("b"), id("c")]))])),
            let_("i", int(0)),
            let_("arr", array(vec![int(10), int(20), int(30), int(40)])),
            es(func("bump", &[], vec![es(op_assign("i", Operator::Add, int(1))), es(id("i"))])),
        ]
    };
    let mut out = Vec::new();
    for e in exprs {
        let mut p = prelude();
        p.push(let_("r", e.clone()));
        p.push(es(calln("print", vec![string("{} {} {}"), id("r"), id("i"), id("arr")])));
        out.push(p);
        // inside a function: i and arr are locals there, bump writes the local through a nested... no closures:
        // the function version keeps `i` global and makes `arr` a local
        let mut q = prelude();
        q.push(es(func("host", &[], vec![let_("arr", array(vec![int(10), int(20), int(30), int(40)])), let_("r", e), es(array(vec![id("r"), id("i"), id("arr")]))])));
        q.push(es(calln("print", vec![calln("host", vec![])])));
        out.push(q);
    }
    out
}

/// Scope events x kinds of use: a name `i` is declared, then a sequence of events happens, each of which
/// prints a use of `i` of one of 9 kinds (plain, `i op literal` in both operand orders for an arithmetic and
/// a comparison operator, compound with another local, assignment, as an argument, as an index) — directly,
/// inside a block / als branch / one-shot loop that does or does not declare `i` again before the use, inside
/// a function whose parameter is `i`, or after a second declaration in the same scope. Every printed value
/// identifies the declaration that was resolved. All sequences of `len` events, at top level, inside a block
/// inside a function body (where `i` is a local slot), and inside a function body while a global `i` exists too.
pub fn scope_event_programs(len: usize, f: &mut dyn FnMut(Vec<Stmt>)) {
    let use_kind = |k: usize| -> Stmt {
        match k {
            0 => print1(id("i")),
            1 => print1(infix(id("i"), Operator::Add, int(1))),
            2 => print1(infix(id("i"), Operator::Lt, int(30))),
            3 => print1(infix(int(1), Operator::Add, id("i"))),
            4 => print1(infix(id("i"), Operator::Multiply, id("j"))),
            5 => es(assign(id("i"), infix(id("i"), Operator::Add, int(1)))),
            6 => print1(calln("ident", vec![id("i")])),
            7 => print1(index(id("arr"), infix(id("i"), Operator::Modulo, int(3)))),
            _ => print1(infix(infix(id("i"), Operator::Subtract, int(2)), Operator::Multiply, infix(id("i"), Operator::Add, int(2)))),
        }
    };
    const KINDS: usize = 9;
    // the event menu
    let mut menu: Vec<Vec<Stmt>> = Vec::new();
    for k in 0..KINDS {
        menu.push(vec![use_kind(k)]);
    }
    for scope_kind in 0..3 {
        for shadow in [false, true] {
            for k in 0..KINDS {
                let mut b = Vec::new();
                if shadow {
                    b.push(let_("i", int(50 + 100 * scope_kind as i64)));
                }
                b.push(use_kind(k));
                if k == 5 {
                    b.push(print1(id("i")));
                }
                menu.push(vec![wrap_scope(scope_kind, b)]);
            }
        }
    }
    for k in 0..KINDS {
        let mut body = vec![use_kind(k)];
        body.push(es(id("i")));
        menu.push(vec![es(func("g", &["i"], body)), print1(calln("g", vec![int(700)]))]);
    }
    menu.push(vec![let_("i", int(60))]);
    // a function WITHOUT parameters, called on the spot, that uses the name: functions see the globals, never the
    // locals of the function around them
    for k in 0..KINDS {
        if k == 5 {
            continue;
        }
        menu.push(vec![print1(call(func("", &[], vec![use_kind(k), es(int(0))]), vec![]))]);
    }
    // the name declared by a NAMED FUNCTION LITERAL in operand position (assigned, called on the spot, a list
    // element, an argument) — directly, and inside a block / branch / loop that declares nothing else
    let named_literal = |form: usize| -> Stmt {
        let lit = func("i", &[], vec![es(int(77))]);
        match form {
            0 => es(assign(id("j"), lit)),
            1 => print1(call(lit, vec![])),
            2 => print1(calln("lengte", vec![array(vec![lit])])),
            _ => print1(calln("type", vec![lit])),
        }
    };
    for form in 0..4 {
        menu.push(vec![named_literal(form), es(assign(id("j"), int(3)))]);
        for scope_kind in 0..3 {
            menu.push(vec![wrap_scope(scope_kind, vec![named_literal(form), es(assign(id("j"), int(3)))])]);
        }
    }
    // the name read from a parameterless function INSIDE a block / branch / loop that shadows it (or not): what a
    // function body resolved inside the scope says nothing about the same name after it
    for scope_kind in 0..3 {
        for shadow in [false, true] {
            let mut b = Vec::new();
            if shadow {
                b.push(let_("i", int(40 + scope_kind as i64)));
            }
            b.push(print1(call(func("", &[], vec![es(id("i"))]), vec![])));
            menu.push(vec![wrap_scope(scope_kind, b)]);
        }
    }
    // a block that declares the name and ENDS IN AN EXIT (antwoord behind a false condition, stop, volgende): the
    // scope it opened is closed all the same
    menu.push(vec![es(iff(boolean(false), vec![let_("i", int(9)), Stmt::Return(id("i"))], None))]);
    menu.push(vec![es(iff(boolean(false), vec![let_("i", int(9)), Stmt::Return(id("i"))], Some(vec![let_("i", int(8)), print1(id("i"))])))]);
    menu.push(vec![es(whil(boolean(false), vec![let_("i", int(9)), Stmt::Return(id("i"))]))]);
    menu.push(vec![es(whil(boolean(true), vec![let_("i", int(9)), print1(id("i")), Stmt::Break]))]);
    menu.push(vec![es(whil(infix(id("once"), Operator::Lt, int(1)), vec![es(assign(id("once"), infix(id("once"), Operator::Add, int(1)))), let_("i", int(9)), Stmt::Continue]))]);
    menu.push(vec![es(iff(boolean(false), vec![es(func("i", &[], vec![es(int(9))])), Stmt::Return(int(1))], None))]);
    let total = menu.len().pow(len as u32);
    for code in 0..total {
        let mut c = code;
        let mut seq: Vec<Stmt> = vec![let_("i", int(5))];
        for _ in 0..len {
            seq.extend(menu[c % menu.len()].iter().cloned());
            c /= menu.len();
        }
        seq.push(print1(id("i")));
        let pre: Vec<Stmt> = vec![
            let_("once", int(0)),
            let_("j", int(3)),
            let_("arr", array(vec![int(11), int(22), int(33)])),
            es(func("ident", &["v"], vec![es(id("v"))])),
        ];
        for context in 0..4 {
            let prog: Vec<Stmt> = match context {
                3 => {
                    // inside a function, while a GLOBAL of the same name exists too
                    let mut body: Vec<Stmt> = vec![let_("once", int(0)), let_("j", int(3)), let_("arr", array(vec![int(11), int(22), int(33)]))];
                    body.extend(seq.clone());
                    body.push(es(id("i")));
                    vec![
                        let_("i", int(1000)),
                        let_("j", int(2000)),
                        let_("arr", array(vec![int(1), int(2), int(3)])),
                        es(func("ident", &["v"], vec![es(id("v"))])),
                        es(func("h", &["n"], body)),
                        print1(calln("h", vec![int(1)])),
                        print1(id("i")),
                    ]
                }
                0 => {
                    let mut p = pre.clone();
                    p.extend(seq.clone());
                    p
                }
                1 => {
                    let mut p = pre.clone();
                    p.push(Stmt::Block(seq.clone()));
                    p
                }
                _ => {
                    // inside a function: `i`, `once`, `j` and `arr` are local slots
                    let mut body: Vec<Stmt> = vec![let_("once", int(0)), let_("j", int(3)), let_("arr", array(vec![int(11), int(22), int(33)]))];
                    body.extend(seq.clone());
                    body.push(es(id("i")));
                    vec![es(func("ident", &["v"], vec![es(id("v"))])), es(func("h", &["n"], body)), print1(calln("h", vec![int(1)]))]
                }
            };
            f(prog);
        }
    }
}

/// Integer literals that coincide with the machine's own numbers for a function: a function value packs its
/// entry offset and its number of local slots into one word, so the integers `offset * 65536 + slots` (and the
/// bare offsets and their neighbours) are the ones an implementation could confuse with a function — in the
/// constant pool, in a cache, in a comparison. EVERY such integer for offsets 0..=max_ip and 0..=6 slots, in 11
/// small programs that use it as an argument, an operand, an array element, before and after the definition
/// of functions with 0..3 slots, at top level, in a loop and inside a function.
pub fn descriptor_literal_programs(max_ip: usize, f: &mut dyn FnMut(Vec<Stmt>)) {
    let mut values: Vec<i64> = Vec::new();
    for ip in 0..=max_ip as i64 {
        for slots in 0..=6i64 {
            values.push(ip * 65536 + slots);
        }
        values.push(ip * 65536 - 1);
    }
    for v in values {
        let lit = || int_lit(v);
        let progs: Vec<Vec<Stmt>> = vec![
            vec![es(func("f", &["a"], vec![es(id("a"))])), es(calln("f", vec![lit()]))],
            vec![let_("k", lit()), es(func("f", &["a"], vec![es(infix(id("a"), Operator::Add, int(1)))])), es(calln("f", vec![id("k")]))],
            vec![es(func("nul", &[], vec![es(int(0))])), es(infix(calln("nul", vec![]), Operator::Add, lit()))],
            vec![es(func("f", &["a", "b"], vec![es(infix(id("a"), Operator::Subtract, id("b")))])), es(calln("f", vec![lit(), int(10)]))],
            vec![let_("g", func("", &["x"], vec![es(id("x"))])), es(array(vec![lit(), calln("g", vec![lit()])]))],
            vec![es(func("buiten", &[], vec![es(func("binnen", &["p"], vec![let_("q", id("p")), es(id("q"))])), es(calln("binnen", vec![lit()]))])), es(calln("buiten", vec![]))],
            vec![es(func("f", &[], vec![es(int(1))])), es(lit())],
            vec![es(func("f", &["a"], vec![let_("b", id("a")), let_("c", id("b")), es(id("c"))])), print1(lit()), es(infix(calln("f", vec![lit()]), Operator::Add, lit()))],
            vec![es(lit()), es(func("f", &["a"], vec![es(id("a"))])), es(calln("f", vec![int(1)]))],
            vec![let_("t", calln("type", vec![lit()])), es(func("f", &[], vec![es(int(2))])), es(array(vec![id("t"), calln("type", vec![id("f")]), calln("type", vec![lit()]), calln("f", vec![])]))],
            vec![
                es(func("f", &["a"], vec![es(infix(id("a"), Operator::Multiply, int(2)))])),
                let_("r", int(0)),
                let_("i", int(0)),
                es(whil(infix(id("i"), Operator::Lt, int(2)), vec![es(assign(id("r"), infix(id("r"), Operator::Add, calln("f", vec![lit()])))), es(op_assign("i", Operator::Add, int(1)))])),
                es(id("r")),
            ],
        ];
        for p in progs {
            f(p);
        }
    }
}
