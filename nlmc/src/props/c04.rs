//! C04 — garbage is reclaimed and a finished run leaves nothing behind (DESIGN 5, C04).

use super::Prop;
use crate::gcprog;
use crate::heapmc;
use crate::pool::Merged;
use crate::printer;
use crate::shard::{Shard, Tier};
use crate::slices;
use serde_json::{json, Value};

pub fn prop() -> Prop {
    Prop {
        id: "C04",
        level: "fault_enumeration",
        rule: "(i) the collector-history graph of C03 with the dual invariant: after every operation the set of allocated boxes equals the set the reachability model considers live (nothing unreachable survives a collection, dropping the collector releases everything it manages) and the collector's managed list equals the model's; at the end of every history the caller releases what it owns and the ledger must be empty, nothing released twice. (ii) crash points: every program of the gc, heap, heap-local, fun and mix slices is run once to learn its length n and then cut short with an error after k instructions for EVERY k < n (the exit path of a run-time error); after each run the ledger must be empty once the harness has released the result graph (each distinct box once), no box released twice, the result not already released. A case = one (program, k) run or one history; non-trivial = it allocated at least one box",
        assumptions: &[
            "shadow heap ledger: every box is registered by allocate() and marked by destroy(); boxes allocated outside allocate() would be invisible",
            "the injected error leaves run() through the same `return Err` as a type or index error",
        ],
        run,
        replay,
        vacuity,
    }
}

fn run(sh: &mut Shard) {
    let tier = sh.cfg.tier;
    // the caller releases results the way the repository's own tests do: Object::free_recursive
    crate::outcome::set_release_with_api(true);
    gcprog::count_ladder(sh, "C04");
    heapmc::explore(sh, &super::c03::bounds(tier), "C04");
    if !sh.running() {
        return;
    }
    // abort points multiply the work by the run length: one program in `stride` gets all its abort points
    let stride = if tier == Tier::Quick { 2 } else { 1 };
    for sl in slices::slices() {
        if !super::c03::PROGRAM_SLICES.contains(&sl.name) {
            continue;
        }
        let name = sl.name;
        let mut counter = 0u64;
        slices::for_each_program(&sl, tier, sh, &mut |sh, prog| {
            if !sh.mine() {
                return sh.running();
            }
            sh.begin(&|| printer::program(prog));
            sh.count(&format!("family:slice-{name}"));
            if let Some(st) = gcprog::check_full(sh, "C04", name, prog) {
                let (alloc, _) = nederlang::verif::ledger_counts();
                let _ = alloc;
                counter += 1;
                if st.steps > 0 {
                    sh.nontrivial(&printer::program(prog));
                }
                if counter % stride == 0 && st.steps <= 400 {
                    sh.count("programs-with-all-abort-points");
                    gcprog::check_abort_points(sh, name, prog, st.steps);
                    if sh.index() % 40_009 == 0 {
                        sh.sample(json!({"program": printer::program(prog), "abort_points": st.steps}));
                    }
                }
            }
            sh.running()
        });
    }
    // nesting templates with every abort point
    for depth in 1..=(if tier == Tier::Quick { 2 } else { 3 }) {
        crate::compose::for_each(depth, &mut |_, prog| {
            if !sh.mine() {
                return sh.running();
            }
            sh.begin(&|| printer::program(prog));
            sh.count("family:compose");
            if let Some(st) = gcprog::check_full(sh, "C04", "compose", prog) {
                sh.nontrivial(&printer::program(prog));
                if st.steps <= 400 {
                    sh.count("programs-with-all-abort-points");
                    gcprog::check_abort_points(sh, "compose", prog, st.steps);
                }
            }
            sh.running()
        });
    }
    // the corpus: every abort point of the short ones
    for (text, _) in super::c01::corpus() {
        if !sh.mine() {
            continue;
        }
        let t = text.clone();
        sh.begin(&|| t.clone());
        sh.count("family:corpus");
        if let crate::common::Parsed::Ok(ast) = crate::common::parse_guarded(&text) {
            if let Some(st) = gcprog::check_full(sh, "C04", "corpus", &ast) {
                sh.nontrivial(&text);
                if st.steps <= 3000 {
                    gcprog::check_abort_points(sh, "corpus", &ast, st.steps);
                }
            }
        }
    }
}

fn replay(sh: &mut Shard, case: &Value) {
    sh.mine();
    if let Some(h) = case["history"].as_array() {
        let hist: Vec<String> = h.iter().filter_map(|x| x.as_str().map(|s| s.to_string())).collect();
        heapmc::replay(sh, &hist, "C04");
    } else if let Some(p) = case["program"].as_str() {
        if let crate::common::Parsed::Ok(ast) = crate::common::parse_guarded(p) {
            if let Some(st) = gcprog::check_full(sh, "C04", "replay", &ast) {
                gcprog::check_abort_points(sh, "replay", &ast, st.steps);
            }
        }
    }
}

fn vacuity(m: &Merged) -> Option<String> {
    if m.counters.get("states").copied().unwrap_or(0) < 1000 {
        return Some("the collector-history search visited fewer than 1000 states".into());
    }
    if m.counters.get("abort-points").copied().unwrap_or(0) < 100_000 {
        return Some("fewer than 100 000 abort points were enumerated".into());
    }
    if m.counters.get("collections-that-freed").copied().unwrap_or(0) == 0 {
        return Some("no collection ever released anything".into());
    }
    None
}
