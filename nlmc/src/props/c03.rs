//! C03 — a reachable value is never reclaimed (DESIGN 5, C03).

use super::Prop;
use crate::gcprog;
use crate::heapmc;
use crate::pool::Merged;
use crate::printer;
use crate::shard::{Shard, Tier};
use crate::slices;
use serde_json::{json, Value};

pub fn prop() -> Prop {
    Prop {
        id: "C03",
        level: "model_checking",
        rule: "(a) breadth-first search over all histories up to depth d of collector operations (allocate float/string/array over live handles, link incl. cycles, unlink, collect with every subset of live handles as roots split over two root slices, hand over, re-trace, drop collector) over a universe of U objects, each history re-executed from scratch on the REAL GC and Object code; state key = model heap + real internal object order + real mark bits; after every operation every object the reachability model considers live must be allocated with unchanged contents and nothing may be released twice. (b) every program of the gc, heap, heap-local, fun and mix slices run under the shadow heap: post-condition at every collection (reachable from the roots => allocated), liveness at every dereference, result graph alive on return, and agreement with the reference interpreter",
        assumptions: &[
            "shadow heap hook (allocate/destroy/get) and quarantine: released boxes stay mapped so a stale pointer is flagged instead of followed into recycled memory",
            "the collector post-condition uses the root slices the VM passes; a root the VM forgets to pass is caught by its consequences (a dereference of, or a result containing, a released box), not at the collection itself",
        ],
        run,
        replay,
        vacuity,
    }
}

pub fn bounds(tier: Tier) -> heapmc::Bounds {
    if tier == Tier::Quick {
        heapmc::Bounds { universe: 3, depth: 6 }
    } else {
        heapmc::Bounds { universe: 4, depth: 8 }
    }
}

pub const PROGRAM_SLICES: [&str; 5] = ["gc", "heap", "heap-local", "fun", "mix"];

fn run(sh: &mut Shard) {
    let tier = sh.cfg.tier;
    // the caller releases results with the interpreter's own Object::free_recursive (nothing released twice)
    crate::outcome::set_release_with_api(true);
    gcprog::count_ladder(sh, "C03");
    heapmc::explore(sh, &bounds(tier), "C03");
    if !sh.running() {
        return;
    }
    for depth in 1..=(if tier == Tier::Quick { 2 } else { 3 }) {
        crate::compose::for_each(depth, &mut |_, prog| {
            if !sh.mine() {
                return sh.running();
            }
            sh.begin(&|| printer::program(prog));
            sh.count("family:compose");
            if let Some(st) = gcprog::check_full(sh, "C03", "compose", prog) {
                if st.collections_with_live > 0 {
                    sh.nontrivial(&printer::program(prog));
                    sh.count("programs-collecting-with-live-heap");
                    sh.count("traces_validated_against_impl");
                }
            }
            sh.running()
        });
    }
    for sl in slices::slices() {
        if !PROGRAM_SLICES.contains(&sl.name) {
            continue;
        }
        let name = sl.name;
        slices::for_each_program(&sl, tier, sh, &mut |sh, prog| {
            if !sh.mine() {
                return sh.running();
            }
            sh.begin(&|| printer::program(prog));
            sh.count(&format!("family:slice-{name}"));
            if let Some(st) = gcprog::check_full(sh, "C03", name, prog) {
                if st.collections_with_live > 0 {
                    sh.nontrivial(&printer::program(prog));
                    sh.count("programs-collecting-with-live-heap");
                    sh.count("traces_validated_against_impl");
                    if sh.index() % 40_009 == 0 {
                        sh.sample(json!({"program": printer::program(prog), "collections": st.collections, "collections_with_live_object": st.collections_with_live}));
                    }
                }
            }
            sh.running()
        });
    }
}

fn replay(sh: &mut Shard, case: &Value) {
    sh.mine();
    if let Some(h) = case["history"].as_array() {
        let hist: Vec<String> = h.iter().filter_map(|x| x.as_str().map(|s| s.to_string())).collect();
        heapmc::replay(sh, &hist, "C03");
    } else if let Some(p) = case["program"].as_str() {
        if let crate::common::Parsed::Ok(ast) = crate::common::parse_guarded(p) {
            gcprog::check_full(sh, "C03", "replay", &ast);
        }
    }
}

fn vacuity(m: &Merged) -> Option<String> {
    if m.counters.get("states").copied().unwrap_or(0) < 1000 {
        return Some("the collector-history search visited fewer than 1000 states".into());
    }
    if m.counters.get("collections-with-roots").copied().unwrap_or(0) == 0 {
        return Some("no collection with a non-empty root set was explored".into());
    }
    if m.counters.get("programs-collecting-with-live-heap").copied().unwrap_or(0) < 1000 {
        return Some("fewer than 1000 programs ran a collection while a heap object was live".into());
    }
    if m.counters.get("collections-that-freed").copied().unwrap_or(0) == 0 {
        return Some("no collection ever released anything".into());
    }
    None
}
