//! C07 — source text denotes one tree: precedence, associativity, layout-independence (DESIGN 5, C07).

use super::Prop;
use crate::common::{parse_guarded, Parsed};
use crate::gen::*;
use crate::pool::Merged;
use crate::printer::{self, may_touch, Style, Tok, TokKind};
use crate::shard::{Shard, Tier};
use crate::slices;
use nederlang::verif::{Expr, Operator, Stmt};
use serde_json::{json, Value};

pub fn prop() -> Prop {
    Prop {
        id: "C07",
        level: "exploration",
        rule: "(1) every expression tree of depth <= D over the 13 infix operators and `=` with leaves {a, 1} printed with minimal parentheses from the documented precedence table; (2) calls, indexing and prefix operators in every operand position of every operator; (2b) `als`, `zolang` and `functie` expressions without parentheses as the left and right operand of every operator and (function literals) as the target of a call, in 16 statement and expression contexts (an expression does not end at its closing brace); (2c) length ladders: N blocks / branches / loops / function definitions / parenthesised, bracketed and call expressions one AFTER the other, chains of N operands (one operator; two alternating levels), N elements / arguments / statements, N-deep parentheses, prefix operators, parenthesised assignments and else-if chains, N around every power of two up to 1025 (8193 thorough; deep forms up to 300); (3) every statement tree of the ctrl/fun/mix/heap slices up to N nodes, plain and with `anders als` / `op=` sugar; (2d) prefix operators in front of literals of every magnitude (the non-negative integer lattice up to the largest integer, five floats) with and without a blank or parentheses, in seven operand positions; (3b) every such program of at most 9 tokens written 130 (thorough also 1 100) times one after the other, plain and with sugar: the tree is 130 copies; (4) every `a op= e` for e of depth <= 2 and every else-if chain up to length 3; (5) layout: for a base set of programs every rendering that changes <= d gaps to each alternative separator (each of the 11 white-space code points, a line comment, nothing where maximal munch allows, optional `;` and `,` dropped) and every single redundant parenthesisation. Oracle: the tree returned by the real parser equals the generated tree. Non-trivial = the rendering differs from the default rendering of a smaller case or contains at least two operators/constructs; distinct = distinct texts",
        assumptions: &[
            "the printer's precedence table (printer::prec) is the documented one: * / % > + - > < <= > >= > == != > && || > =",
            "prefix operands are always parenthesised unless atomic (U13)",
        ],
        run,
        replay,
        vacuity,
    }
}

fn ops14() -> Vec<Operator> {
    let mut v = all_infix_ops();
    v.push(Operator::Assign);
    v
}

fn opname(o: &Operator) -> &'static str {
    printer::op_text(o)
}

/// Streams all trees of depth <= d over `ops` with the given leaves. `=` only with `a` on its left.
fn each_tree(d: usize, leaves: &[Expr], ops: &[Operator], f: &mut dyn FnMut(&Expr) -> bool) -> bool {
    for l in leaves {
        if !f(l) {
            return false;
        }
    }
    if d <= 1 {
        return true;
    }
    for op in ops {
        if *op == Operator::Assign {
            let ok = each_tree(d - 1, leaves, ops, &mut |r| f(&assign(id("a"), r.clone())));
            if !ok {
                return false;
            }
            continue;
        }
        let ok = each_tree(d - 1, leaves, ops, &mut |l| {
            each_tree(d - 1, leaves, ops, &mut |r| f(&infix(l.clone(), op.clone(), r.clone())))
        });
        if !ok {
            return false;
        }
    }
    true
}

fn count_trees(d: usize, leaves: usize, ops: usize) -> u64 {
    if d <= 1 {
        return leaves as u64;
    }
    let sub = count_trees(d - 1, leaves, ops);
    // one of the operators is `=` (left operand fixed)
    leaves as u64 + (ops as u64 - 1) * sub * sub + sub
}

/// The oracle: parse `text`, compare with `tree`.
fn check_text(sh: &mut Shard, family: &str, text: &str, tree: &[Stmt]) {
    match parse_guarded(text) {
        Parsed::Ok(ast) => {
            if ast.as_slice() != tree {
                if sh.verbose {
                    println!("text: {text}\n expected {tree:?}\n parsed   {ast:?}");
                }
                sh.violation(
                    "tree",
                    json!({"family": family, "text": text, "expected_tree": format!("{tree:?}")}),
                    format!("the parser returned a different tree: {ast:?}"),
                );
            } else if sh.verbose {
                println!("text: {text}\n parses to the expected tree");
            }
        }
        Parsed::Err(e) => {
            if sh.verbose {
                println!("text: {text}\n rejected: {e}");
            }
            sh.violation(
                "tree",
                json!({"family": family, "text": text, "expected_tree": format!("{tree:?}")}),
                format!("the parser rejected the text: {e}"),
            );
        }
        Parsed::Panic(p) => sh.violation(
            "tree",
            json!({"family": family, "text": text, "expected_tree": format!("{tree:?}")}),
            format!("the parser panicked: {p}"),
        ),
    }
}

fn case(sh: &mut Shard, family: &str, text: &str, tree: &[Stmt], nontrivial: bool) {
    if !sh.mine() {
        return;
    }
    let t = text.to_string();
    sh.begin(&|| t.clone());
    sh.count(&format!("family:{family}"));
    if nontrivial {
        sh.nontrivial(text);
    }
    if sh.index() % 100_003 == 0 {
        sh.sample(json!({"family": family, "text": text}));
    }
    check_text(sh, family, text, tree);
}

fn note_pairs(sh: &mut Shard, e: &Expr) {
    if let Expr::Infix { left, operator, right } = e {
        for (side, child) in [("L", left), ("R", right)] {
            let c = match &**child {
                Expr::Infix { operator: o, .. } => Some(opname(o)),
                Expr::Assign { .. } => Some("="),
                _ => None,
            };
            if let Some(c) = c {
                sh.count(&format!("pair:{}:{}:{}", opname(operator), c, side));
            }
        }
    }
    if let Expr::Assign { right, .. } = e {
        let c = match &**right {
            Expr::Infix { operator: o, .. } => Some(opname(o)),
            Expr::Assign { .. } => Some("="),
            _ => None,
        };
        if let Some(c) = c {
            sh.count(&format!("pair:=:{c}:R"));
        }
    }
}

const WS: [&str; 11] = ["\t", "\n", "\u{0B}", "\u{0C}", "\r", " ", "\u{85}", "\u{200E}", "\u{200F}", "\u{2028}", "\u{2029}"];

/// Renders tokens with per-gap separators; `drop[i]` removes token i.
fn render(toks: &[Tok], seps: &[String], dropped: &[bool]) -> String {
    let mut s = String::new();
    let mut first = true;
    for (i, t) in toks.iter().enumerate() {
        if dropped[i] {
            continue;
        }
        if !first {
            s.push_str(&seps[i - 1]);
        }
        first = false;
        s.push_str(&t.text);
    }
    s
}

/// One deviation: a (gap, separator) change or a dropped optional token.
#[derive(Clone)]
enum Dev {
    Sep(usize, String),
    Drop(usize),
}

fn deviations(toks: &[Tok]) -> Vec<Dev> {
    let mut v = Vec::new();
    for g in 0..toks.len().saturating_sub(1) {
        for w in WS {
            if w != " " {
                v.push(Dev::Sep(g, w.to_string()));
            }
        }
        v.push(Dev::Sep(g, " // c\n".to_string()));
        v.push(Dev::Sep(g, " //é 😀 stel x = 1; \"\n".to_string()));
        // comments that END in a character with a meaning elsewhere, an empty comment, two comments in a row
        v.push(Dev::Sep(g, " // pad C:\\tmp\\\n".to_string()));
        v.push(Dev::Sep(g, " //\n".to_string()));
        v.push(Dev::Sep(g, " // a //\n// b \"\n".to_string()));
        v.push(Dev::Sep(g, " // {\r\n".to_string()));
        v.push(Dev::Sep(g, "  \n\t ".to_string()));
        if may_touch(&toks[g].text, &toks[g + 1].text) {
            v.push(Dev::Sep(g, String::new()));
        }
    }
    for (i, t) in toks.iter().enumerate() {
        if matches!(t.kind, TokKind::OptSemi | TokKind::OptComma) {
            v.push(Dev::Drop(i));
        }
    }
    v
}

fn apply(toks: &[Tok], devs: &[&Dev]) -> Option<String> {
    let mut seps = vec![" ".to_string(); toks.len().saturating_sub(1)];
    let mut dropped = vec![false; toks.len()];
    for d in devs {
        match d {
            Dev::Sep(g, s) => seps[*g] = s.clone(),
            Dev::Drop(i) => dropped[*i] = true,
        }
    }
    // an empty separator next to a dropped token would join its neighbours: only combine when safe
    for (i, d) in dropped.iter().enumerate() {
        if *d {
            let left_empty = i > 0 && seps[i - 1].is_empty();
            let right_empty = i < seps.len() && seps[i].is_empty();
            if left_empty || right_empty {
                return None;
            }
        }
    }
    Some(render(toks, &seps, &dropped))
}

fn layout_family(sh: &mut Shard, base: &[Stmt], d: usize) {
    let toks = printer::tokens(base);
    let devs = deviations(&toks);
    case(sh, "layout-0", &printer::join_spaced(&toks), base, true);
    for a in &devs {
        if let Some(t) = apply(&toks, &[a]) {
            case(sh, "layout-1", &t, base, true);
        }
    }
    if d >= 2 && toks.len() <= 40 {
        for (i, a) in devs.iter().enumerate() {
            for b in devs.iter().skip(i + 1) {
                let same_site = match (a, b) {
                    (Dev::Sep(x, _), Dev::Sep(y, _)) => x == y,
                    (Dev::Drop(x), Dev::Drop(y)) => x == y,
                    _ => false,
                };
                if same_site {
                    continue;
                }
                if let Some(t) = apply(&toks, &[a, b]) {
                    case(sh, "layout-2", &t, base, true);
                }
            }
            if !sh.running() {
                return;
            }
        }
    }
    // redundant parentheses: every single expression node, and (d >= 2) the node plus one gap deviation
    let n = printer::count_exprs(base);
    for k in 0..n {
        let style = Style { wrap_nth: Some(k), ..Default::default() };
        let wt = printer::tokens_with(base, &style);
        if wt.len() == toks.len() {
            continue;
        }
        case(sh, "parens-1", &printer::join_spaced(&wt), base, true);
    }
}

/// Hand-built programs that together use every construct and every optional separator position.
pub fn rich_programs() -> Vec<Vec<Stmt>> {
    vec![
        vec![
            let_("a", array(vec![int(1), neg(int(2)), array(vec![]), string("x y")])),
            es(func("f", &["p", "q"], vec![Stmt::Return(infix(id("p"), Operator::Add, id("q")))])),
            es(calln("print", vec![string("{} {}"), calln("f", vec![int(1), neg(int(2))]), index(id("a"), neg(int(1)))])),
        ],
        vec![
            let_("i", int(0)),
            es(whil(
                infix(id("i"), Operator::Lt, int(3)),
                vec![
                    es(op_assign("i", Operator::Add, int(1))),
                    es(iff(infix(id("i"), Operator::Eq, int(2)), vec![Stmt::Continue], Some(vec![es(calln("print", vec![id("i")]))]))),
                    es(iff(prefix(Operator::Not, boolean(false)), vec![], None)),
                ],
            )),
            es(id("i")),
        ],
        vec![
            let_("g", func("", &["x"], vec![es(iff(infix(id("x"), Operator::Lt, int(1)), vec![Stmt::Return(int(0))], None)), es(infix(id("x"), Operator::Multiply, int(2)))])),
            Stmt::Block(vec![let_("b", calln("g", vec![int(2)])), es(assign(index(id("a"), int(0)), id("b")))]),
            es(array(vec![neg(int(1)), array(vec![int(2)]), call(func("", &[], vec![es(int(1))]), vec![])])),
            es(infix(infix(int(1), Operator::Add, int(2)), Operator::Multiply, neg(id("b")))),
        ],
        vec![
            es(iff(
                boolean(true),
                vec![es(int(1))],
                Some(vec![es(iff(boolean(false), vec![es(int(2))], Some(vec![es(iff(boolean(true), vec![], Some(vec![es(int(3))])))])))]),
            )),
            es(assign(id("a"), assign(id("b"), int(1)))),
            es(infix(flt(1.5), Operator::Lte, flt(2.0))),
            es(string("q\"\\\n")),
        ],
    ]
}

fn run(sh: &mut Shard) {
    let tier = sh.cfg.tier;
    let ops = ops14();
    // (1) all trees
    let (depth, leaves): (usize, Vec<Expr>) =
        if tier == Tier::Quick { (3, vec![id("a"), int(1)]) } else { (4, vec![id("a")]) };
    sh.add("trees-expected", count_trees(depth, leaves.len(), ops.len()));
    // grouped by top operator x left subtree for sharding: simple modulo sharding suffices here
    each_tree(depth, &leaves, &ops, &mut |t| {
        if !sh.mine() {
            return sh.running();
        }
        let prog = vec![es(t.clone())];
        let text = printer::join_spaced(&printer::tokens(&prog));
        sh.begin(&|| text.clone());
        sh.count("family:trees");
        note_pairs(sh, t);
        sh.nontrivial(&text);
        if sh.index() % 100_003 == 0 {
            sh.sample(json!({"family": "trees", "text": text}));
        }
        check_text(sh, "trees", &text, &prog);
        sh.running()
    });
    // in the thorough tier also the two-leaf depth-3 set (the quick set)
    if tier == Tier::Thorough {
        each_tree(3, &[id("a"), int(1)], &ops, &mut |t| {
            let prog = vec![es(t.clone())];
            let text = printer::join_spaced(&printer::tokens(&prog));
            case(sh, "trees", &text, &prog, true);
            sh.running()
        });
    }
    // (2) postfix and prefix forms in every operand position
    let operands: Vec<Expr> = vec![
        calln("f", vec![int(1)]),
        calln("f", vec![]),
        calln("f", vec![id("a"), neg(int(1))]),
        index(id("b"), int(0)),
        index(id("b"), infix(int(1), Operator::Subtract, int(2))),
        index(array(vec![int(1), int(2)]), int(0)),
        index(string("s"), int(0)),
        neg(index(id("b"), int(0))),
        prefix(Operator::Not, calln("f", vec![int(1)])),
        neg(id("a")),
        neg(neg(id("a"))),
        prefix(Operator::Not, prefix(Operator::Not, id("a"))),
        neg(infix(id("a"), Operator::Multiply, id("b"))),
        prefix(Operator::Not, infix(id("a"), Operator::Eq, id("b"))),
        call(func("", &["x"], vec![es(id("x"))]), vec![int(1)]),
        iff(id("a"), vec![es(int(1))], Some(vec![es(int(2))])),
        whil(id("a"), vec![]),
        array(vec![id("a"), infix(id("a"), Operator::Add, int(1))]),
        assign(index(id("b"), int(0)), int(1)),
    ];
    for op in all_infix_ops() {
        for x in &operands {
            for y in [id("a"), int(1)].iter().chain(operands.iter()) {
                let p1 = vec![es(infix(x.clone(), op.clone(), y.clone()))];
                case(sh, "postfix", &printer::join_spaced(&printer::tokens(&p1)), &p1, true);
                let p2 = vec![es(infix(y.clone(), op.clone(), x.clone()))];
                case(sh, "postfix", &printer::join_spaced(&printer::tokens(&p2)), &p2, true);
            }
        }
    }
    for x in &operands {
        for wrap in 0..5 {
            let p = match wrap {
                0 => vec![let_("c", x.clone())],
                1 => vec![es(calln("f", vec![x.clone(), x.clone()]))],
                2 => vec![es(array(vec![x.clone(), x.clone()]))],
                3 => vec![es(assign(id("a"), x.clone()))],
                _ => vec![es(func("g", &[], vec![Stmt::Return(x.clone()), es(x.clone())]))],
            };
            case(sh, "postfix", &printer::join_spaced(&printer::tokens(&p)), &p, true);
        }
    }
    // (2b) how far a prefix operator extends is not documented (U13), but it must not depend on WHAT the
    // first operand is: `P L O x` has the same shape for every kind of leaf L
    {
        let leaf_texts = ["a", "2", "2.5", "\"s\"", "f(1)", "b[0]", "ja", "[1]", "(a)"];
        for p in ["-", "!"] {
            for o in all_infix_ops() {
                for tail in ["x", "3", "x + 1"] {
                    if !sh.mine() {
                        continue;
                    }
                    let texts: Vec<String> = leaf_texts.iter().map(|l| format!("{p} {l} {} {tail}", opname(&o))).collect();
                    sh.begin(&|| texts.join("  |  "));
                    sh.count("family:prefix-shape");
                    sh.nontrivial(&texts[0]);
                    let shapes: Vec<Option<String>> = texts
                        .iter()
                        .zip(leaf_texts.iter())
                        .map(|(t, _)| match parse_guarded(t) {
                            Parsed::Ok(ast) => Some(shape_of(&ast)),
                            _ => None,
                        })
                        .collect();
                    if let Some(first) = shapes[0].clone() {
                        for (i, s) in shapes.iter().enumerate() {
                            if s.as_ref() != Some(&first) {
                                sh.violation(
                                    "tree",
                                    json!({"family": "prefix-shape", "text": texts[i], "expected_tree": format!("the shape of {:?}: {first}", texts[0])}),
                                    format!("{:?} groups as {:?} but {:?} groups as {first}: the tree depends on the kind of operand", texts[i], s, texts[0]),
                                );
                                break;
                            }
                        }
                    }
                }
            }
        }
    }
    // (2b) block-ended expressions (als, zolang, functie) WITHOUT parentheses as the left operand of every
    // operator and as the target of a call / an index, in every statement and expression context: an
    // expression does not end at its closing brace
    compound_operand_family(sh);
    chain_ladder(sh);
    literal_operands(sh);
    // (4) op-assign sugar and else-if chains
    let mut sugar_ops = ARITH_OPS.to_vec();
    sugar_ops.extend(CMP_OPS.iter().cloned());
    sugar_ops.extend(LOGIC_OPS.iter().cloned());
    for op in &sugar_ops {
        each_tree(3, &[id("a"), int(1)], &ops, &mut |e| {
            let prog = vec![es(op_assign("a", op.clone(), e.clone()))];
            let style = Style { op_assign_sugar: true, ..Default::default() };
            let text = printer::join_spaced(&printer::tokens_with(&prog, &style));
            case(sh, "op-assign", &text, &prog, true);
            // `a + = e` with the two characters apart and together
            if !matches!(op, Operator::Lt | Operator::Gt) {
                case(sh, "op-assign", &text.replacen(&format!("{} =", opname(op)), &format!("{}=", opname(op)), 1), &prog, true);
            }
            sh.running()
        });
    }
    let conds = [id("a"), infix(id("a"), Operator::Lt, int(1))];
    let bodies: [Vec<Stmt>; 3] = [vec![], vec![es(int(1))], vec![let_("c", int(1)), es(id("c"))]];
    for c1 in &conds {
        for b1 in &bodies {
            for b2 in &bodies {
                for b3 in &bodies {
                    for last_else in [false, true] {
                        // chain of length 2 and 3
                        let inner3 = iff(c1.clone(), b3.clone(), if last_else { Some(b1.clone()) } else { None });
                        let inner2 = iff(c1.clone(), b2.clone(), Some(vec![es(inner3.clone())]));
                        let chain3 = vec![es(iff(c1.clone(), b1.clone(), Some(vec![es(inner2.clone())])))];
                        let chain2 = vec![es(iff(c1.clone(), b1.clone(), Some(vec![es(inner3.clone())])))];
                        for prog in [chain2, chain3] {
                            let style = Style { else_if_sugar: true, ..Default::default() };
                            case(sh, "else-if", &printer::join_spaced(&printer::tokens_with(&prog, &style)), &prog, true);
                            case(sh, "else-if", &printer::join_spaced(&printer::tokens(&prog)), &prog, true);
                            // as a value
                            let asval = vec![let_("v", match &prog[0] {
                                Stmt::Expr(e) => e.clone(),
                                _ => unreachable!(),
                            })];
                            case(sh, "else-if", &printer::join_spaced(&printer::tokens_with(&asval, &style)), &asval, true);
                            // followed by a statement that could continue an expression: the `;` must end the chain
                            for follower in [es(array(vec![int(1)])), es(neg(int(1))), es(call(func("", &[], vec![]), vec![]))] {
                                let mut two = prog.clone();
                                two.push(follower);
                                case(sh, "else-if", &printer::join_spaced(&printer::tokens_with(&two, &style)), &two, true);
                                case(sh, "else-if", &printer::join_spaced(&printer::tokens(&two)), &two, true);
                            }
                        }
                    }
                }
            }
        }
    }
    // (5) layout deviations over the base set
    let d = if tier == Tier::Quick { 1 } else { 2 };
    for p in rich_programs() {
        layout_family(sh, &p, d);
    }
    each_tree(2, &[id("a"), int(1)], &ops, &mut |t| {
        layout_family(sh, &[es(t.clone())], d);
        sh.running()
    });
    // (3) statement trees of the slices: plain and with sugar; the first few hundred of each also under layout
    let reps: &[usize] = if tier == Tier::Quick { &[130] } else { &[130, 1100] };
    for sl in slices::slices() {
        if !matches!(sl.name, "ctrl" | "ctrl-local" | "fun" | "mix" | "heap") {
            continue;
        }
        let mut seen = 0u64;
        let name = sl.name;
        let npre = sl.prelude.len();
        slices::for_each_program(&sl, tier, sh, &mut |sh, prog| {
            seen += 1;
            let toks = printer::tokens(prog);
            case(sh, &format!("slice-{name}"), &printer::join_pretty(&toks), prog, true);
            let style = Style { op_assign_sugar: true, else_if_sugar: true, ..Default::default() };
            let sug = printer::tokens_with(prog, &style);
            if sug.len() != toks.len() {
                case(sh, &format!("slice-{name}"), &printer::join_pretty(&sug), prog, true);
            }
            if seen % 997 == 0 {
                layout_family(sh, prog, 1);
            }
            // the same small program N times one after the other (N above the parser's nesting limit): whatever the
            // parser counts or remembers while it reads a statement of ANY kind must be given back at its end
            let unit = &prog[npre.min(prog.len())..];
            if !unit.is_empty() && printer::tokens(unit).len() <= REPEAT_MAX_TOKENS {
                for &n in reps {
                    let mut rep: Vec<Stmt> = Vec::with_capacity(unit.len() * n);
                    for _ in 0..n {
                        rep.extend(unit.iter().cloned());
                    }
                    case(sh, "repeated", &printer::join_pretty(&printer::tokens(&rep)), &rep, true);
                    if sug.len() != toks.len() {
                        case(sh, "repeated", &printer::join_pretty(&printer::tokens_with(&rep, &style)), &rep, true);
                    }
                }
            }
            sh.running()
        });
    }
}

/// Length ladders: operator chains of N operands (one operator; two alternating levels; right-nested
/// assignments), N array elements, N call arguments, N statements, N-deep parentheses / prefix operators /
/// else-if chains, N around every power of two; the expected tree is built from the precedence table.
/// Like `case`, for texts that may exceed the parser's nesting limit (an implementation limit, U9; it was 500
/// levels of tree depth and is 100 since the repair of 0.2): the refusal "te diep genest" is accepted from 20
/// links / levels on, a different tree or another error never is.
fn case_or_too_deep(sh: &mut Shard, family: &str, text: &str, tree: &[Stmt], may_refuse: bool) {
    if !may_refuse {
        return case(sh, family, text, tree, true);
    }
    if !sh.mine() {
        return;
    }
    let t = text.to_string();
    sh.begin(&|| t.clone());
    sh.count(&format!("family:{family}"));
    match parse_guarded(text) {
        Parsed::Err(e) if format!("{e:?}").contains("te diep") => sh.count("chain-ladder-refused-as-too-deep"),
        _ => {
            sh.nontrivial(text);
            check_text(sh, family, text, tree)
        }
    }
}

const REPEAT_MAX_TOKENS: usize = 9;

/// Prefix operators in front of LITERALS of every magnitude (the whole non-negative integer lattice up to the
/// largest integer, floats): a sign is an operator applied to the literal, never part of it, whatever the value,
/// with and without a blank or parentheses in between, in every operand position.
fn literal_operands(sh: &mut Shard) {
    let lat = super::c06::lattice(sh.cfg.tier, sh.cfg.seed);
    let mut lits: Vec<(String, Expr)> = lat.iter().filter(|v| **v >= 0).map(|v| (v.to_string(), Expr::Int { value: *v as isize })).collect();
    for f in ["0.0", "1.5", "0.30000000000000004", "1152921504606846976.0", "123456789012345678901234567890.5"] {
        lits.push((f.to_string(), Expr::Float { value: f.parse().unwrap() }));
    }
    for (text, lit) in &lits {
        for (opt, op) in [("-", Operator::Subtract), ("!", Operator::Not)] {
            let p = prefix(op.clone(), lit.clone());
            for t in [format!("{opt}{text}"), format!("{opt} {text}"), format!("{opt}({text})"), format!("({opt}{text})"), format!("{opt} ( {text} )")] {
                case(sh, "literal-operands", &t, &[es(p.clone())], true);
            }
            case(sh, "literal-operands", &format!("{opt}{opt}{text}").replace("--", "- -"), &[es(prefix(op.clone(), p.clone()))], true);
            case(sh, "literal-operands", &format!("a + {opt}{text}"), &[es(infix(id("a"), Operator::Add, p.clone()))], true);
            case(sh, "literal-operands", &format!("a == {opt}{text}"), &[es(infix(id("a"), Operator::Eq, p.clone()))], true);
            case(sh, "literal-operands", &format!("[{opt}{text}, {opt}{text}]"), &[es(array(vec![p.clone(), p.clone()]))], true);
            case(sh, "literal-operands", &format!("f({opt}{text})"), &[es(calln("f", vec![p.clone()]))], true);
            case(sh, "literal-operands", &format!("stel x = {opt}{text}"), &[let_("x", p.clone())], true);
            case(sh, "literal-operands", &format!("a = {opt}{text}"), &[es(assign(id("a"), p.clone()))], true);
        }
        case(sh, "literal-operands", &format!("a - {text}"), &[es(infix(id("a"), Operator::Subtract, lit.clone()))], true);
        case(sh, "literal-operands", &format!("{text} - {text}"), &[es(infix(lit.clone(), Operator::Subtract, lit.clone()))], true);
    }
}

fn chain_ladder(sh: &mut Shard) {
    let tier = sh.cfg.tier;
    let kmax = if tier == Tier::Quick { 10 } else { 13 };
    let mut lens: Vec<usize> = vec![2, 3, 5, 6, 10, 100];
    for k in 2..=kmax {
        let n = 1usize << k;
        lens.extend([n - 1, n, n + 1]);
    }
    lens.sort();
    lens.dedup();
    let operand = |i: usize| if i % 3 == 2 { int(i as i64) } else { id(["a", "b"][i % 2]) };
    let operand_text = |i: usize| if i % 3 == 2 { i.to_string() } else { ["a", "b"][i % 2].to_string() };
    for n in lens {
        // one operator, left-associative
        for op in [Operator::Subtract, Operator::Divide, Operator::Lt, Operator::Eq, Operator::And] {
            let mut tree = operand(0);
            let mut text = operand_text(0);
            for i in 1..n {
                tree = infix(tree, op.clone(), operand(i));
                text.push_str(&format!(" {} {}", opname(&op), operand_text(i)));
            }
            case_or_too_deep(sh, "chain-ladder", &text, &[es(tree)], n > 20);
        }
        // two alternating levels: a - b * 2 - a * b ...: products group first, the sum is left-associative
        {
            let mut text = String::new();
            let mut tree: Option<Expr> = None;
            let mut i = 0;
            while i + 1 < n.max(2) {
                let prod = infix(operand(i), Operator::Multiply, operand(i + 1));
                let pt = format!("{} * {}", operand_text(i), operand_text(i + 1));
                tree = Some(match tree {
                    None => prod,
                    Some(t) => infix(t, Operator::Subtract, prod),
                });
                if !text.is_empty() {
                    text.push_str(" - ");
                }
                text.push_str(&pt);
                i += 2;
            }
            case_or_too_deep(sh, "chain-ladder", &text, &[es(tree.unwrap())], n > 20);
        }
        // wide: array elements, call arguments (<= 255), statements
        let elems: Vec<Expr> = (0..n).map(operand).collect();
        let etext: Vec<String> = (0..n).map(operand_text).collect();
        case(sh, "chain-ladder", &format!("[ {} ]", etext.join(" , ")), &[es(array(elems.clone()))], true);
        case(sh, "chain-ladder", &format!("[ {} ]", etext.join(" ")), &[es(array(elems.clone()))], true);
        if n <= 255 {
            case(sh, "chain-ladder", &format!("f ( {} )", etext.join(" , ")), &[es(calln("f", elems.clone()))], true);
            // a comma after the last argument / element / parameter changes nothing (every list length has its own parity)
            case(sh, "chain-ladder", &format!("f ( {} , )", etext.join(" , ")), &[es(calln("f", elems.clone()))], true);
            case(sh, "chain-ladder", &format!("f ( {} , )", etext.join(" ")), &[es(calln("f", elems.clone()))], true);
            let params: Vec<String> = (0..n).map(|i| format!("p{i}")).collect();
            let pr: Vec<&str> = params.iter().map(|s| s.as_str()).collect();
            case(sh, "chain-ladder", &format!("functie g ( {} , ) {{ 1 }}", params.join(" , ")), &[es(func("g", &pr, vec![es(int(1))]))], true);
            case(sh, "chain-ladder", &format!("functie g ( {} ) {{ 1 }}", params.join(" ")), &[es(func("g", &pr, vec![es(int(1))]))], true);
        }
        case(sh, "chain-ladder", &format!("[ {} , ]", etext.join(" , ")), &[es(array(elems.clone()))], true);
        let stmts: Vec<Stmt> = elems.iter().cloned().map(es).collect();
        case(sh, "chain-ladder", &etext.join(" ; "), &stmts, true);
        case(sh, "chain-ladder", &format!("{{ {} }}", etext.join(" ; ")), &[Stmt::Block(stmts.clone())], true);
        // N constructs ONE AFTER THE OTHER (not nested): whatever the parser counts while it is inside a block
        // must be given back when the block ends
        {
            let seq = |one_text: &str, one: Stmt| -> (String, Vec<Stmt>) { (vec![one_text; n].join(" "), vec![one; n]) };
            for (t, st) in [
                seq("{ a }", Stmt::Block(vec![es(id("a"))])),
                seq("als a { 1 }", es(iff(id("a"), vec![es(int(1))], None))),
                seq("als a { 1 } anders { 2 }", es(iff(id("a"), vec![es(int(1))], Some(vec![es(int(2))])))),
                seq("zolang a { stop }", es(whil(id("a"), vec![Stmt::Break]))),
                seq("functie g ( x ) { x }", es(func("g", &["x"], vec![es(id("x"))]))),
                seq("( a ) ;", es(id("a"))),
                seq("[ [ a ] ] ;", es(array(vec![array(vec![id("a")])]))),
                seq("f ( g ( a ) ) ;", es(calln("f", vec![calln("g", vec![id("a")])]))),
            ] {
                case(sh, "chain-ladder", &t, &st, true);
            }
        }
        // deep (inside the parser's nesting limit)
        if n <= 300 {
            case_or_too_deep(sh, "chain-ladder", &format!("{}a{}", "( ".repeat(n), " )".repeat(n)), &[es(id("a"))], n > 20);
            let mut t = id("a");
            let mut rt = id("a");
            for _ in 0..n {
                t = prefix(Operator::Not, t);
                rt = assign(id("b"), rt);
            }
            case_or_too_deep(sh, "chain-ladder", &format!("{}a", "! ".repeat(n)), &[es(t)], n > 20);
            // (the right side of `=` is parsed above the level of `=`: a nested assignment needs its parentheses)
            case_or_too_deep(sh, "chain-ladder", &format!("{}a{}", "b = ( ".repeat(n), " )".repeat(n)), &[es(rt)], n > 20);
            // else-if chain of n links
            let mut e = iff(id("a"), vec![es(int(n as i64))], None);
            let mut text = format!("als a {{ {n} }}");
            for k in (0..n).rev() {
                e = iff(id("b"), vec![es(int(k as i64))], Some(vec![es(e)]));
                text = format!("als b {{ {k} }} anders {text}");
            }
            case_or_too_deep(sh, "chain-ladder", &text, &[es(e)], n > 20);
        }
    }
}

fn compound_operand_family(sh: &mut Shard) {
    let compounds: Vec<(&str, Expr)> = vec![
        ("als a { 1 } anders { 2 }", iff(id("a"), vec![es(int(1))], Some(vec![es(int(2))]))),
        ("als a { 1 }", iff(id("a"), vec![es(int(1))], None)),
        // (an `anders als` chain is left out: what follows it belongs to the innermost `als`, as `anders als e` reads `anders { als e }`)
        ("zolang a { 1 }", whil(id("a"), vec![es(int(1))])),
        ("functie ( x ) { x }", func("", &["x"], vec![es(id("x"))])),
        ("functie f ( x ) { x }", func("f", &["x"], vec![es(id("x"))])),
    ];
    let mut all_ops = ARITH_OPS.to_vec();
    all_ops.extend(CMP_OPS.iter().cloned());
    all_ops.extend(LOGIC_OPS.iter().cloned());
    // (text of the expression, its tree)
    let mut exprs: Vec<(String, Expr)> = Vec::new();
    for (ct, c) in &compounds {
        for op in &all_ops {
            // (the parser refuses a function literal as an operand)
            if matches!(c, Expr::Function { .. }) {
                break;
            }
            exprs.push((format!("{ct} {} 3", opname(op)), infix(c.clone(), op.clone(), int(3))));
            for op2 in [Operator::Multiply, Operator::Add, Operator::Eq] {
                let tree = if printer::prec(&op2) > printer::prec(op) {
                    infix(c.clone(), op.clone(), infix(int(3), op2.clone(), id("b")))
                } else {
                    infix(infix(c.clone(), op.clone(), int(3)), op2.clone(), id("b"))
                };
                exprs.push((format!("{ct} {} 3 {} b", opname(op), opname(&op2)), tree));
            }
            // the block-ended expression as the right operand, followed by a tighter / looser operator
            exprs.push((format!("b {} {ct}", opname(op)), infix(id("b"), op.clone(), c.clone())));
        }
        // (only names and function literals are callable; only names, array and string literals can be indexed)
        if matches!(c, Expr::Function { .. }) {
            exprs.push((format!("{ct} ( 1 )"), call(c.clone(), vec![int(1)])));
            exprs.push((format!("{ct} ( 1 ) + 3"), infix(call(c.clone(), vec![int(1)]), Operator::Add, int(3))));
            exprs.push((format!("b * {ct} ( 1 )"), infix(id("b"), Operator::Multiply, call(c.clone(), vec![int(1)]))));
            exprs.push((format!("{ct} ( 1 ) == {ct} ( 2 )"), infix(call(c.clone(), vec![int(1)]), Operator::Eq, call(c.clone(), vec![int(2)]))));
        }
    }
    for (t, e) in &exprs {
        let contexts: Vec<(String, Vec<Stmt>)> = vec![
            (t.clone(), vec![es(e.clone())]),
            (format!("1 ; {t}"), vec![es(int(1)), es(e.clone())]),
            (format!("{t} ; 1"), vec![es(e.clone()), es(int(1))]),
            (format!("{{ {t} }}"), vec![Stmt::Block(vec![es(e.clone())])]),
            (format!("{{ 1 ; {t} }}"), vec![Stmt::Block(vec![es(int(1)), es(e.clone())])]),
            (format!("functie g ( ) {{ {t} }}"), vec![es(func("g", &[], vec![es(e.clone())]))]),
            (format!("als b {{ {t} }}"), vec![es(iff(id("b"), vec![es(e.clone())], None))]),
            (format!("zolang b {{ {t} }}"), vec![es(whil(id("b"), vec![es(e.clone())]))]),
            (format!("stel v = {t}"), vec![let_("v", e.clone())]),
            (format!("v = {t}"), vec![es(assign(id("v"), e.clone()))]),
            (format!("antwoord {t}"), vec![Stmt::Return(e.clone())]),
            (format!("g ( {t} )"), vec![es(calln("g", vec![e.clone()]))]),
            (format!("g ( 1 , {t} )"), vec![es(calln("g", vec![int(1), e.clone()]))]),
            (format!("[ {t} ]"), vec![es(array(vec![e.clone()]))]),
            (format!("( {t} )"), vec![es(e.clone())]),
            (format!("v [ {t} ]"), vec![es(index(id("v"), e.clone()))]),
        ];
        for (text, tree) in contexts {
            case(sh, "compound-operand", &text, &tree, true);
        }
    }
}

/// The tree with every leaf operand replaced by a placeholder (only the nesting of operators remains).
fn shape_of(ast: &[Stmt]) -> String {
    fn e(x: &Expr) -> String {
        match x {
            Expr::Infix { left, operator, right } => format!("({} {} {})", e(left), opname(operator), e(right)),
            Expr::Prefix { operator, right } => format!("({}{})", opname(operator), e(right)),
            _ => "_".to_string(),
        }
    }
    ast.iter()
        .map(|s| match s {
            Stmt::Expr(x) => e(x),
            other => format!("{other:?}"),
        })
        .collect::<Vec<_>>()
        .join("; ")
}

fn replay(sh: &mut Shard, case: &Value) {
    sh.mine();
    if case["family"].as_str() == Some("prefix-shape") {
        let text = case["text"].as_str().unwrap_or("");
        println!("text: {text}\n recorded: {}", case["expected_tree"]);
        if let Parsed::Ok(ast) = parse_guarded(text) {
            println!(" shape now: {}", shape_of(&ast));
        }
        // re-run the family
        let mut probe = Shard::new("C07", sh.cfg.clone(), 0, 1);
        probe.known.clear();
        run(&mut probe);
        for v in probe.violations {
            if v["case"]["family"].as_str() == Some("prefix-shape") {
                sh.violations.push(v);
            }
        }
        return;
    }
    let text = case["text"].as_str().unwrap_or("");
    let expected = case["expected_tree"].as_str().unwrap_or("");
    match parse_guarded(text) {
        Parsed::Ok(ast) => {
            let got = format!("{:?}", ast.as_slice());
            println!("text: {text}\n expected {expected}\n parsed   {got}");
            if got != expected {
                sh.violation("tree", case.clone(), "the parser returned a different tree".into());
            }
        }
        Parsed::Err(e) => sh.violation("tree", case.clone(), format!("rejected: {e}")),
        Parsed::Panic(p) => sh.violation("tree", case.clone(), format!("panic: {p}")),
    }
}

fn vacuity(m: &Merged) -> Option<String> {
    // the operator-pair matrix 14 x 14 x {left,right} must be fully populated (assignment has no left operand position)
    let ops: Vec<&'static str> = ops14().iter().map(opname).collect();
    for p in &ops {
        for c in &ops {
            for side in ["L", "R"] {
                if *p == "=" && side == "L" {
                    continue;
                }
                let k = format!("pair:{p}:{c}:{side}");
                if m.counters.get(&k).copied().unwrap_or(0) == 0 {
                    return Some(format!("operator pair {k} never occurred"));
                }
            }
        }
    }
    for fam in ["trees", "postfix", "compound-operand", "chain-ladder", "op-assign", "else-if", "layout-1", "parens-1", "slice-ctrl", "slice-fun", "repeated", "literal-operands"] {
        if m.counters.get(&format!("family:{fam}")).copied().unwrap_or(0) == 0 {
            return Some(format!("family {fam} produced no case"));
        }
    }
    None
}
