//! C12 — calls bind arguments, isolate activations and resume the caller intact (DESIGN 5, C12).

use super::Prop;
use crate::common::{differential, impl_end_text, model_end_text, parse_guarded, Parsed};
use crate::gen::*;
use crate::outcome::{run_ast, ImplEnd, RunOpts};
use crate::pool::Merged;
use crate::printer;
use crate::refint::{End, Interp};
use crate::shard::{Shard, Tier};
use crate::slices::Slice;
use nederlang::verif::{Operator, Stmt};
use serde_json::{json, Value};

pub fn prop() -> Prop {
    Prop {
        id: "C12",
        level: "exploration",
        rule: "(1) the call slice: a prelude of functions with 0-2 parameters and 0-2 locals (a marker function that prints its argument so evaluation order is observable, non-commutative bodies, an accumulating recursion, a function taking a function, a function returning a function) and every expression of up to N nodes over calls of them in operand, argument, array-element, condition and initialiser positions, compared with the reference interpreter; (2) a generated family of 0..4 parameters x 0..4 locals x every pending-operand shape, incl. empty bodies and locals in sibling blocks; an arity ladder (every parameter count up to 12 and around every power of two up to the 255 the call instruction carries, x 0/1/3 locals, every parameter read back); (2c) rebinding: a name holding a function is given another one (assignment, `stel`, a second declaration, through a function, in a branch, in a loop) while call sites compiled earlier are still to run; (3b) the deepest recursion that still works: for 0..4 locals x 0..2 pending operands the largest depth that yields a value is searched and every depth from 8 below to 3 above it is run (closed form or refusal, nothing else); (3) directed recursion: self and mutual recursion with 0, 1 and 2 pending operands per level to depth 1, 2, 3, 10, 200, 5 000, 20 000 and across the 65 535-slot limit (beyond the limit: an error, never a wrong value). Non-trivial = at least one user function call executed and defined by the model; distinct = distinct texts",
        assumptions: &["arity mismatch is unspecified (U6) and not compared", "beyond 65 535 live stack slots only 'an error, not a wrong value or crash' is required (U9)"],
        run,
        replay,
        vacuity,
    }
}

thread_local! {
    /// second pass of the directed families without the shadow heap (real address reuse)
    static LEDGER: std::cell::Cell<bool> = std::cell::Cell::new(true);
}

fn opts(budget: u64) -> RunOpts {
    RunOpts { budget: Some(budget), ledger: LEDGER.with(|c| c.get()), trace: false, render: true }
}

fn prelude() -> Vec<Stmt> {
    vec![
        es(func("arg", &["k"], vec![print1(id("k")), es(id("k"))])),
        es(func("f0", &[], vec![es(int(10))])),
        es(func("f1", &["x"], vec![let_("l", infix(id("x"), Operator::Add, int(1))), es(infix(id("l"), Operator::Multiply, int(2)))])),
        es(func(
            "f2",
            &["x", "y"],
            vec![
                let_("l", infix(id("x"), Operator::Subtract, id("y"))),
                let_("m", infix(id("l"), Operator::Multiply, int(3))),
                es(infix(id("m"), Operator::Subtract, id("y"))),
            ],
        )),
        es(func(
            "rec",
            &["n", "acc"],
            vec![
                es(iff(infix(id("n"), Operator::Lt, int(1)), vec![Stmt::Return(id("acc"))], None)),
                es(calln("rec", vec![infix(id("n"), Operator::Subtract, int(1)), infix(id("acc"), Operator::Add, id("n"))])),
            ],
        )),
        es(func("ap", &["g", "v"], vec![es(calln("g", vec![id("v")]))])),
        // functions that yield no value: a body ending in a declaration, and an empty body
        es(func("nv", &["x"], vec![let_("y", infix(id("x"), Operator::Multiply, int(2)))])),
        es(func("ev", &[], vec![])),
        es(func("mk", &[], vec![es(id("f1"))])),
        let_("a", int(3)),
    ]
}

fn call_slice() -> Slice {
    Slice {
        name: "call",
        prelude: prelude(),
        wrap: None,
        grammar: Grammar {
            atoms: vec![id("a"), int(2), id("f1")],
            infix: vec![Operator::Subtract],
            callees: vec![("arg".into(), 1), ("f0".into(), 0), ("f1".into(), 1), ("f2".into(), 2), ("rec".into(), 2), ("ap".into(), 2), ("mk".into(), 0), ("h".into(), 1), ("nv".into(), 1), ("ev".into(), 0)],
            array_max: 2,
            if_expr: true,
            let_names: vec!["h".to_string()],
            max_stmts: 2,
            max_expr: 7,
            ..Default::default()
        },
        bound: (6, 7),
        in_func: false,
    }
}

/// 0..4 parameters x 0..4 locals x pending-operand shapes, arguments through the marker function.
/// One name, two functions of DIFFERENT arity: a declared function `f` of k1 parameters, and — through a
/// parameter named f, a nested named function, a function value in a block-local or function-local `f`, a named
/// function in a branch — another function of k2 parameters that the name denotes in some inner scope. Every
/// call passes exactly as many arguments as the function the name denotes THERE takes; calls of the outer f
/// before and after. All (k1, k2) in 0..=3 squared, six mechanisms.
fn same_name_other_arity() -> Vec<Vec<Stmt>> {
    let mut out = Vec::new();
    let sum = |base: i64, names: &[String]| -> nederlang::verif::Expr {
        let mut e = int(base);
        for n in names {
            e = infix(e, Operator::Add, id(n));
        }
        e
    };
    let args = |k: usize, from: i64| -> Vec<nederlang::verif::Expr> { (0..k).map(|i| int(from + i as i64)).collect() };
    for k1 in 0..=3usize {
        for k2 in 0..=3usize {
            let p1: Vec<String> = (0..k1).map(|i| format!("a{i}")).collect();
            let p2: Vec<String> = (0..k2).map(|i| format!("b{i}")).collect();
            let r1: Vec<&str> = p1.iter().map(|s| s.as_str()).collect();
            let r2: Vec<&str> = p2.iter().map(|s| s.as_str()).collect();
            let outer = es(func("f", &r1, vec![es(sum(100, &p1))]));
            let inner_lit = |name: &str, base: i64| func(name, &r2, vec![es(sum(base, &p2))]);
            let call_outer = || calln("f", args(k1, 1));
            let call_inner = || calln("f", args(k2, 10));
            for mech in 0..6 {
                let mut p: Vec<Stmt> = vec![outer.clone(), print1(call_outer())];
                match mech {
                    0 => {
                        p.push(es(func("toepassen", &["f", "x"], vec![es(infix(call_inner(), Operator::Add, id("x")))])));
                        p.push(print1(calln("toepassen", vec![inner_lit("", 200), int(1000)])));
                    }
                    1 => {
                        p.push(es(func("werk", &[], vec![es(inner_lit("f", 300)), es(call_inner())])));
                        p.push(print1(calln("werk", vec![])));
                    }
                    2 => {
                        p.push(Stmt::Block(vec![let_("f", inner_lit("", 400)), print1(call_inner())]));
                    }
                    3 => {
                        p.push(es(func("werk2", &[], vec![let_("f", inner_lit("", 500)), es(call_inner())])));
                        p.push(print1(calln("werk2", vec![])));
                    }
                    4 => {
                        p.push(es(iff(boolean(true), vec![es(inner_lit("f", 600)), print1(call_inner())], None)));
                    }
                    _ => {
                        // the callee travels along as a parameter of a recursive function
                        p.push(es(func(
                            "tel",
                            &["f", "n"],
                            vec![es(iff(infix(id("n"), Operator::Lt, int(1)), vec![Stmt::Return(call_inner())], None)), es(calln("tel", vec![id("f"), infix(id("n"), Operator::Subtract, int(1))]))],
                        )));
                        p.push(print1(calln("tel", vec![inner_lit("", 700), int(3)])));
                    }
                }
                p.push(print1(call_outer()));
                p.push(es(call_outer()));
                out.push(p);
            }
        }
    }
    out
}

fn shapes() -> Vec<Vec<Stmt>> {
    let mut out = Vec::new();
    for np in 0..=4usize {
        for nl in 0..=4usize {
            let params: Vec<String> = (0..np).map(|i| format!("p{i}")).collect();
            let pr: Vec<&str> = params.iter().map(|s| s.as_str()).collect();
            let mut body: Vec<Stmt> = Vec::new();
            for i in 0..nl {
                // each local combines the previous one with a parameter, non-commutatively
                let prev = if i == 0 { int(100) } else { id(&format!("l{}", i - 1)) };
                let with = if np > 0 { id(&params[i % np]) } else { int(i as i64 + 1) };
                body.push(let_(&format!("l{i}"), infix(infix(prev, Operator::Multiply, int(2)), Operator::Subtract, with)));
            }
            let mut all: Vec<nederlang::verif::Expr> = params.iter().map(|p| id(p)).collect();
            all.extend((0..nl).map(|i| id(&format!("l{i}"))));
            body.push(es(array(all)));
            let def = es(func("f", &pr, body.clone()));
            // the same function without a value (its body ends in a declaration)
            let mut nobody = body.clone();
            nobody.pop();
            nobody.push(let_("last", int(1)));
            let def_nv = es(func("fnv", &pr, nobody));
            let marker = es(func("arg", &["k"], vec![print1(id("k")), es(id("k"))]));
            let args: Vec<nederlang::verif::Expr> = (0..np).map(|i| calln("arg", vec![int(10 * (i as i64 + 1))])).collect();
            let c = || calln("f", args.clone());
            let hosts: Vec<nederlang::verif::Expr> = vec![
                c(),
                array(vec![int(7), c()]),
                array(vec![c(), int(7)]),
                array(vec![int(7), int(8), c(), c()]),
                calln("print", vec![string("{} {} {}"), int(1), c(), int(3)]),
                infix(calln("lengte", vec![c()]), Operator::Subtract, calln("lengte", vec![c()])),
                index(array(vec![c(), int(9)]), int(0)),
                iff(infix(calln("lengte", vec![c()]), Operator::Eq, int((np + nl) as i64)), vec![es(c())], Some(vec![es(int(0))])),
            ];
            let cnv = || calln("fnv", args.clone());
            for host in [
                array(vec![int(7), cnv(), int(8)]),
                array(vec![cnv(), cnv(), int(8)]),
                calln("print", vec![string("{} {} {}"), int(1), cnv(), int(3)]),
                infix(int(1), Operator::Add, infix(calln("lengte", vec![array(vec![cnv(), int(2)])]), Operator::Multiply, int(10))),
            ] {
                out.push(vec![marker.clone(), def_nv.clone(), let_("g", int(55)), es(host), es(id("g"))]);
            }
            // an empty body, and locals that live only in sibling blocks (slots reused between the blocks)
            let def_empty = es(func("fe", &pr, vec![]));
            let mut blocks: Vec<Stmt> = Vec::new();
            for b in 0..nl.min(3) {
                let with = if np > 0 { id(&params[b % np]) } else { int(b as i64 + 1) };
                let inner: Vec<Stmt> = (0..=b).map(|j| let_(&format!("b{b}x{j}"), infix(int(10 * (b as i64 + 1) + j as i64), Operator::Subtract, with.clone()))).chain(std::iter::once(print1(id(&format!("b{b}x{b}"))))).collect();
                blocks.push(Stmt::Block(inner));
            }
            blocks.push(es(array(params.iter().map(|p| id(p)).collect())));
            let def_blocks = es(func("fb", &pr, blocks));
            let ce = || calln("fe", args.clone());
            let cb = || calln("fb", args.clone());
            for host in [array(vec![int(7), ce(), int(8)]), calln("print", vec![string("{} {}"), ce(), int(3)]), array(vec![cb(), ce(), cb()])] {
                out.push(vec![marker.clone(), def_empty.clone(), def_blocks.clone(), let_("g", int(55)), es(host), es(id("g"))]);
            }
            for h in hosts {
                out.push(vec![marker.clone(), def.clone(), let_("g", int(55)), es(h), es(id("g"))]);
                // the same from inside another activation, with its own locals around the call
                out.push(vec![
                    marker.clone(),
                    def.clone(),
                    es(func("outer", &["q"], vec![let_("before", int(1)), let_("r", out.last().map(|_| calln("f", args.clone())).unwrap()), let_("after", int(2)), es(array(vec![id("before"), id("r"), id("after"), id("q")]))])),
                    es(calln("outer", vec![int(77)])),
                ]);
            }
        }
    }
    out
}

/// Arity ladder: every parameter count up to 12 and around every power of two up to the 255 the call
/// instruction can carry, x 0, 1 and 3 locals; every parameter is read back (checksum over all of them and
/// the first / middle / last individually), with operands pending around the call and from inside another activation.
fn arity_ladder() -> Vec<Vec<Stmt>> {
    let mut out = Vec::new();
    let mut counts: Vec<usize> = (0..=12).collect();
    counts.extend([15, 16, 17, 31, 32, 33, 63, 64, 65, 127, 128, 129, 200, 253, 254, 255]);
    for n in counts {
        for nl in [0usize, 1, 3] {
            let params: Vec<String> = (0..n).map(|i| format!("p{i}")).collect();
            let pr: Vec<&str> = params.iter().map(|s| s.as_str()).collect();
            let mut body: Vec<Stmt> = Vec::new();
            for j in 0..nl {
                let with = if n > 0 { id(&params[(j * 7 + 1) % n]) } else { int(j as i64) };
                body.push(let_(&format!("l{j}"), infix(infix(with, Operator::Multiply, int(2)), Operator::Subtract, int(j as i64))));
            }
            // a position-weighted checksum: sum of p_i * (i + 1)
            let mut sum = int(0);
            for (i, p) in params.iter().enumerate() {
                sum = infix(sum, Operator::Add, infix(id(p), Operator::Multiply, int(i as i64 + 1)));
            }
            let mut picks: Vec<nederlang::verif::Expr> = vec![sum];
            if n > 0 {
                picks.extend([id(&params[0]), id(&params[n / 2]), id(&params[n - 1])]);
            }
            picks.extend((0..nl).map(|j| id(&format!("l{j}"))));
            body.push(es(array(picks)));
            let def = es(func("f", &pr, body));
            let args: Vec<nederlang::verif::Expr> = (0..n).map(|i| int(3 * i as i64 + 1)).collect();
            let c = || calln("f", args.clone());
            out.push(vec![def.clone(), es(c())]);
            out.push(vec![def.clone(), es(array(vec![int(7), c(), int(8)]))]);
            out.push(vec![
                def.clone(),
                es(func("outer", &["q"], vec![let_("before", int(1)), let_("r", c()), let_("after", int(2)), es(array(vec![id("before"), id("r"), id("after"), id("q")]))])),
                es(infix(calln("lengte", vec![calln("outer", vec![int(77)])]), Operator::Add, int(100))),
            ]);
        }
    }
    out
}

/// Rebinding: a name that holds a function is given another function (by assignment, by `stel`, by a second
/// `functie` declaration; at top level, inside a function through the global, inside a loop) while call sites
/// compiled EARLIER (in another function's body, earlier in the loop body) are still to run: a call always
/// runs the function the name holds at the moment of the call.
fn rebinding() -> Vec<Vec<Stmt>> {
    let mut out = Vec::new();
    let f1 = || func("f", &["a", "b"], vec![es(infix(id("a"), Operator::Subtract, id("b")))]);
    let other = || func("", &["a", "b"], vec![es(infix(infix(id("a"), Operator::Multiply, int(10)), Operator::Add, id("b")))]);
    let caller = || es(func("g", &["x"], vec![es(calln("f", vec![id("x"), int(1)]))]));
    let rebinds: Vec<Vec<Stmt>> = vec![
        vec![es(assign(id("f"), other()))],
        vec![let_("f", other())],
        vec![es(func("f", &["a", "b"], vec![es(infix(id("b"), Operator::Subtract, id("a")))]))],
        vec![let_("oud", id("f")), es(assign(id("f"), func("", &["a", "b"], vec![es(calln("oud", vec![id("b"), id("a")]))])))],
        vec![es(func("zet", &[], vec![es(assign(id("f"), other())), es(int(0))])), es(calln("zet", vec![]))],
        vec![es(iff(boolean(true), vec![es(assign(id("f"), other()))], None))],
    ];
    for rb in &rebinds {
        // a caller compiled before the rebinding, run before and after it
        let mut p = vec![es(f1()), caller(), print1(calln("g", vec![int(5)])), print1(calln("f", vec![int(5), int(1)]))];
        p.extend(rb.iter().cloned());
        p.push(print1(calln("g", vec![int(5)])));
        p.push(print1(calln("f", vec![int(5), int(1)])));
        p.push(es(array(vec![calln("g", vec![int(7)]), calln("f", vec![int(7), int(1)])])));
        out.push(p);
        // the caller defined first, the function declared after it (the call site precedes every binding)
        let mut p = vec![let_("f", int(0)), caller(), es(assign(id("f"), f1())), print1(calln("g", vec![int(5)]))];
        p.extend(rb.iter().cloned());
        p.push(print1(calln("g", vec![int(5)])));
        out.push(p);
        // in a loop: the call earlier in the body than the rebinding
        let mut body = vec![es(op_assign("i", Operator::Add, int(1))), print1(calln("f", vec![id("i"), int(1)]))];
        body.push(es(iff(infix(id("i"), Operator::Eq, int(2)), rb.clone(), None)));
        out.push(vec![es(f1()), let_("i", int(0)), es(whil(infix(id("i"), Operator::Lt, int(4)), body)), es(calln("f", vec![int(9), int(1)]))]);
    }
    // a function-valued local rebound in a loop inside a function; a callee passed as an argument twice
    out.push(vec![
        es(func("plus", &["x"], vec![es(infix(id("x"), Operator::Add, int(1)))])),
        es(func("keer", &["x"], vec![es(infix(id("x"), Operator::Multiply, int(10)))])),
        es(func(
            "loop",
            &[],
            vec![
                let_("h", id("plus")),
                let_("acc", int(0)),
                let_("i", int(0)),
                es(whil(
                    infix(id("i"), Operator::Lt, int(4)),
                    vec![
                        es(op_assign("i", Operator::Add, int(1))),
                        es(assign(id("acc"), infix(infix(id("acc"), Operator::Multiply, int(100)), Operator::Add, calln("h", vec![id("i")])))),
                        es(iff(infix(id("i"), Operator::Eq, int(2)), vec![es(assign(id("h"), id("keer")))], None)),
                    ],
                )),
                es(id("acc")),
            ],
        )),
        es(calln("loop", vec![])),
    ]);
    out
}

/// (program, depth, stack slots per level, expected value rendering)
fn deep() -> Vec<(String, u64, u64, String)> {
    let mut v = Vec::new();
    for d in [1u64, 2, 3, 10, 200, 5_000, 20_000, 21_000, 30_000, 32_000, 33_000, 60_000, 65_000, 66_000, 70_000] {
        // 1 pending operand per level: `1 + r(n - 1)` keeps the 1 below the frame: slots per level = 1 (param) + 1 (pending) + 1 (callee)
        v.push((format!("functie r(n) {{ als n == 0 {{ antwoord 0 }} 1 + r(n - 1) }} r({d})"), d, 3, d.to_string()));
        // no pending operand
        v.push((format!("functie r(n, acc) {{ als n == 0 {{ antwoord acc }} r(n - 1, acc + 1) }} r({d}, 0)"), d, 3, d.to_string()));
        // two pending operands and a local
        v.push((format!("functie r(n) {{ stel l = n; als n == 0 {{ antwoord 0 }} lengte([l, l, r(n - 1)]) - 2 + r(0) + l - l }} r({d})"), d, 5, "1".to_string()));
        // mutual recursion
        v.push((
            format!("stel od = 0; functie ev(n) {{ als n == 0 {{ antwoord ja }} od(n - 1) }} od = functie(n) {{ als n == 0 {{ antwoord nee }} ev(n - 1) }}; ev({d})"),
            d,
            2,
            if d % 2 == 0 { "ja".into() } else { "nee".into() },
        ));
    }
    v
}

/// The deepest recursion that still works: for functions with 0..4 locals (all read at the deepest level and
/// again on the way back) and 0..2 operands pending around the call, the largest depth that yields a value is
/// searched, and EVERY depth from 8 below it to 3 above it is run: the answer is the closed form or a refusal,
/// never another value and never a crash.
fn limit_sweep(sh: &mut Shard) {
    use crate::outcome::run_text;
    // (0..4 locals, and frames of 7 / 10 / 16 / 40 locals whose LAST slot is used by every kind of access —
    // plain, fused with a literal — at the deepest level and at every level on the way back)
    for nlocals in [0usize, 1, 2, 3, 4, 7, 10, 16, 40] {
        for pending in 0..=2usize {
            if !sh.mine() {
                continue;
            }
            let names: Vec<String> = (0..nlocals).map(|l| if l < 4 { ["a", "b", "c", "d"][l].to_string() } else { format!("v{l}") }).collect();
            let mut body = String::new();
            let mut prev = "n".to_string();
            for l in 0..nlocals {
                body.push_str(&format!("stel {} = {} + 1; ", names[l], prev));
                prev = names[l].to_string();
            }
            // at the bottom: the sum of all locals (n = 0 there: 1 + 2 + ... ); on the way back: + 1 per level through the last local
            let sum_bottom: i64 = (1..=nlocals as i64).sum();
            let all: String = if nlocals == 0 { "0".into() } else { format!("{} + ({last} + 1) - {last} - 1", names[..nlocals].join(" + "), last = names[nlocals - 1]) };
            let step = if nlocals == 0 { "1".to_string() } else if nlocals % 2 == 0 { format!("{} - {} + 1", names[nlocals - 1], names[nlocals - 1]) } else { format!("({} + 1) - {}", names[nlocals - 1], names[nlocals - 1]) };
            let def = format!("functie f(n) {{ {body}als n == 0 {{ antwoord {all} }} antwoord f(n - 1) + {step} }}");
            let call = |d: i64| match pending {
                0 => format!("{def} f({d})"),
                1 => format!("{def} 1000000000 + f({d})"),
                _ => format!("{def} stel r = [7, 8, f({d})]; r[0] * 1000000000 + r[2]"),
            };
            let expect = |d: i64| match pending {
                0 => sum_bottom + d,
                1 => 1_000_000_000 + sum_bottom + d,
                _ => 7_000_000_000 + sum_bottom + d,
            };
            sh.begin(&|| format!("limit sweep: {nlocals} locals, {pending} pending"));
            sh.count("family:limit-sweep");
            let run = |d: i64| run_text(&call(d), RunOpts { budget: Some(50_000_000), ledger: false, trace: false, render: true });
            let is_value = |d: i64| matches!(run(d).end, ImplEnd::Value(_));
            // largest depth that yields a value (values below it, refusals above it)
            let (mut lo, mut hi) = (1i64, 70_000i64);
            if !is_value(lo) {
                sh.violation("limit-sweep", json!({"program": call(lo)}), "depth 1 does not yield a value".into());
                continue;
            }
            while lo + 1 < hi {
                let mid = (lo + hi) / 2;
                if is_value(mid) {
                    lo = mid;
                } else {
                    hi = mid;
                }
            }
            sh.add("limit-sweep-deepest", lo as u64);
            sh.nontrivial(&(nlocals, pending));
            for d in (lo - 8).max(1)..=lo + 3 {
                let o = run(d);
                let bad = match &o.end {
                    ImplEnd::Value(v) => *v != expect(d).to_string(),
                    ImplEnd::Error(_) => d <= lo - 8,
                    _ => true,
                };
                if bad {
                    sh.violation(
                        "limit-sweep",
                        json!({"program": call(d), "depth": d, "deepest_depth_that_yields_a_value": lo}),
                        format!("depth {d} (the deepest that yields a value is {lo}): {}, expected {} or a refusal", impl_end_text(&o.end), expect(d)),
                    );
                    break;
                }
            }
        }
    }
}

fn run(sh: &mut Shard) {
    limit_sweep(sh);
    LEDGER.with(|c| c.set(false));
    for prog in rebinding().into_iter().chain(shapes()).chain(arity_ladder()).chain(same_name_other_arity()) {
        if !sh.mine() {
            continue;
        }
        sh.begin(&|| printer::program(&prog));
        sh.count("family:second-pass-without-shadow-heap");
        differential(sh, "calls", &prog, opts(1_000_000));
    }
    LEDGER.with(|c| c.set(true));
    let tier = sh.cfg.tier;
    // frame-size and entry-offset ladders
    crate::ladders::run_family(sh, "calls", Some("calls"), false);
    // (3) directed recursion with closed-form expectations
    for (text, depth, per_level, expected) in deep() {
        if !sh.mine() {
            continue;
        }
        let t = text.clone();
        sh.begin(&|| t.clone());
        sh.count("family:deep-recursion");
        let ast = match parse_guarded(&text) {
            Parsed::Ok(a) => a,
            _ => {
                sh.machinery(format!("directed program does not parse: {text}"));
                return;
            }
        };
        let o = run_ast(&ast, opts(200_000_000));
        sh.outcome(&o.end);
        let slots = depth * per_level;
        let verdict = match &o.end {
            ImplEnd::Value(v) if *v == expected => None,
            ImplEnd::Value(v) => Some(format!("wrong value {v}, expected {expected}")),
            ImplEnd::Error(_) if slots > 60_000 => None,
            other => Some(format!("{} at depth {depth} (about {slots} stack slots), expected {expected}", impl_end_text(other))),
        };
        if slots <= 60_000 {
            sh.nontrivial(&text);
        }
        if o.leaked > 0 || !o.heap.is_empty() {
            sh.violation("deep-recursion", json!({"program": text}), format!("heap discipline broken: leaked {} events {:?}", o.leaked, o.heap));
        } else if let Some(why) = verdict {
            sh.violation("deep-recursion", json!({"program": text, "depth": depth}), why);
        }
        // where the model can follow, it must agree too
        if depth <= 5_000 {
            let m = Interp::eval(&ast);
            if let End::Value(Some(mv)) = &m.end {
                if *mv != expected {
                    sh.machinery(format!("closed form {expected} disagrees with the model {} on {text}", model_end_text(&m.end)));
                    return;
                }
            }
        }
    }
    // functions nested in functions: no closures, names of the enclosing activation are not visible
    for prog in crate::slices::nested_function_programs() {
        if !sh.mine() {
            continue;
        }
        sh.begin(&|| printer::program(&prog));
        sh.count("family:nested");
        if let Some(r) = differential(sh, "calls", &prog, opts(100_000)) {
            if !matches!(r.model.end, End::Unspec(_) | End::Diverge) {
                sh.nontrivial(&printer::program(&prog));
            }
        }
    }
    // integers that coincide with a function's packed entry offset and slot count
    crate::slices::descriptor_literal_programs(if tier == crate::shard::Tier::Quick { 160 } else { 2_000 }, &mut |prog| {
        if !sh.mine() {
            return;
        }
        sh.begin(&|| printer::program(&prog));
        sh.count("family:descriptor-literals");
        if let Some(r) = differential(sh, "calls", &prog, opts(100_000)) {
            if !matches!(r.model.end, End::Unspec(_) | End::Diverge) {
                sh.nontrivial(&printer::program(&prog));
            }
        }
    });
    // (2c) rebinding of function-valued names
    for prog in same_name_other_arity() {
        if !sh.mine() {
            continue;
        }
        sh.begin(&|| printer::program(&prog));
        sh.count("family:same-name-other-arity");
        if let Some(r) = differential(sh, "calls", &prog, opts(100_000)) {
            if !matches!(r.model.end, End::Unspec(_) | End::Diverge) {
                sh.nontrivial(&printer::program(&prog));
            } else {
                sh.count("same-name-other-arity-unspecified");
            }
        }
    }
    for prog in rebinding() {
        if !sh.mine() {
            continue;
        }
        sh.begin(&|| printer::program(&prog));
        sh.count("family:rebinding");
        if let Some(r) = differential(sh, "calls", &prog, opts(100_000)) {
            if !matches!(r.model.end, End::Unspec(_) | End::Diverge) {
                sh.nontrivial(&printer::program(&prog));
            } else {
                // (the variant that saves the old function in a block-local inside the loop body is U2)
                sh.count("rebinding-unspecified");
            }
        }
    }
    // (2b) arity ladder
    for prog in arity_ladder() {
        if !sh.mine() {
            continue;
        }
        sh.begin(&|| printer::program(&prog));
        sh.count("family:arity-ladder");
        if let Some(r) = differential(sh, "calls", &prog, opts(1_000_000)) {
            if !matches!(r.model.end, End::Unspec(_) | End::Diverge) {
                sh.nontrivial(&printer::program(&prog));
            } else {
                sh.machinery(format!("the model does not define an arity-ladder program: {}", model_end_text(&r.model.end)));
                return;
            }
        }
    }
    // (2) shapes
    for prog in shapes() {
        if !sh.mine() {
            continue;
        }
        sh.begin(&|| printer::program(&prog));
        sh.count("family:shapes");
        if let Some(r) = differential(sh, "calls", &prog, opts(100_000)) {
            if !matches!(r.model.end, End::Unspec(_) | End::Diverge) {
                sh.nontrivial(&printer::program(&prog));
            }
        }
    }
    // (1) the call slice
    let sl = call_slice();
    let _ = tier == Tier::Quick;
    crate::slices::for_each_program(&sl, tier, sh, &mut |sh, prog| {
        if !sh.mine() {
            return sh.running();
        }
        sh.begin(&|| printer::program(prog));
        sh.count("family:call-slice");
        if let Some(r) = differential(sh, "calls", prog, opts(100_000)) {
            if !matches!(r.model.end, End::Unspec(_) | End::Diverge) {
                sh.nontrivial(&printer::program(prog));
                if !r.model.output.is_empty() {
                    sh.count("programs-with-observable-argument-order");
                }
            }
            if sh.index() % 40_009 == 0 {
                sh.sample(json!({"program": printer::program(prog), "model": model_end_text(&r.model.end), "output": r.model.output}));
            }
        }
        sh.running()
    });
}

fn replay(sh: &mut Shard, case: &Value) {
    sh.mine();
    if let Some(p) = case["program"].as_str() {
        crate::common::differential_text(sh, "calls", p, None, opts(200_000_000));
    }
}

fn vacuity(m: &Merged) -> Option<String> {
    for fam in ["deep-recursion", "shapes", "arity-ladder", "call-slice"] {
        if m.counters.get(&format!("family:{fam}")).copied().unwrap_or(0) < 50 {
            return Some(format!("family {fam} produced fewer than 50 cases"));
        }
    }
    if m.counters.get("programs-with-observable-argument-order").copied().unwrap_or(0) < 1000 {
        return Some("fewer than 1000 programs made the argument evaluation order observable".into());
    }
    None
}
