//! C10 — how the compiler chooses to implement an expression is unobservable (DESIGN 5, C10).

use super::Prop;
use crate::astx;
use crate::bcmc;
use crate::common::{differential, impl_end_text};
use crate::gen::*;
use crate::outcome::{run_ast, ImplEnd, ImplOutcome, RunOpts};
use crate::pool::Merged;
use crate::printer;
use crate::refint::{tail_is_expression, End};
use crate::shard::Shard;
use crate::slices;
use nederlang::compiler::Compiler;
use nederlang::verif::{Expr, Operator, Stmt};
use serde_json::{json, Value};
use std::collections::BTreeSet;

pub fn prop() -> Prop {
    Prop {
        id: "C10",
        level: "exploration",
        rule: "every closed program P of the arith, arith-global, ctrl and heap slices (no function definitions) whose meaning the model defines, together with ALL of its variants under: (w) moving the whole program into a function body `functie() { P }()` (globals become locals, fused opcodes get selected); (v) each integer-literal operand replaced by a fresh variable holding it, one at a time and all at once; (m) each `c op x` / `x op c` between an integer literal and a variable mirrored (converse comparison, same commutative operator; not - / %); (p) each of a set of statements prepended that mention the same and other literals (shifting and merging constant-pool entries); (q) for each string literal s of P: `stel zz = s; P; print(zz)` must print s unchanged after P's own output. Also directed bases: three-operand chains `x op1 c1 op2 c2` / `c1 op1 x op2 c2` over floats and over integers at the range ends. Oracle: all variants agree with P on value, output and error kind (no reference model involved in the comparison). Non-trivial = P has at least one variant whose bytecode uses a different set of opcode kinds; distinct = distinct texts",
        assumptions: &["programs the model marks unspecified (U1...) are not used as bases, because top-level and function-local variables are allowed to differ there", "P itself is checked against the model by C01"],
        run,
        replay,
        vacuity,
    }
}

fn opts() -> RunOpts {
    RunOpts { budget: Some(20_000), ledger: false, trace: false, render: true }
}

fn opcode_kinds(ast: &[Stmt]) -> Option<BTreeSet<u8>> {
    let ops = bcmc::optable();
    let v: Vec<Stmt> = ast.to_vec();
    let bc = std::panic::catch_unwind(|| Compiler::new().compile_ast(&v)).ok()?.ok()?;
    let code = &bc.instructions;
    let mut set = BTreeSet::new();
    let mut ip = 0;
    while ip < code.len() {
        let op = ops.get(&code[ip])?;
        set.insert(code[ip]);
        ip += 1 + op.widths.iter().sum::<usize>();
    }
    Some(set)
}

fn literals(ast: &[Stmt]) -> (Vec<i64>, Vec<String>) {
    let mut ints = Vec::new();
    let mut strs = Vec::new();
    let mut copy = ast.to_vec();
    astx::visit_exprs_mut(&mut copy, &mut |e| match e {
        Expr::Int { value } => {
            if !ints.contains(&(*value as i64)) {
                ints.push(*value as i64)
            }
        }
        Expr::String { value } => {
            if !strs.contains(value) {
                strs.push(value.clone())
            }
        }
        _ => {}
    });
    (ints, strs)
}

fn converse(op: &Operator) -> Option<Operator> {
    use Operator::*;
    Some(match op {
        Add | Multiply | Eq | Neq => op.clone(),
        Lt => Gt,
        Gt => Lt,
        Lte => Gte,
        Gte => Lte,
        _ => return None,
    })
}

fn has_function(ast: &[Stmt]) -> bool {
    let mut copy = ast.to_vec();
    let mut found = false;
    astx::visit_exprs_mut(&mut copy, &mut |e| {
        if matches!(e, Expr::Function { .. }) {
            found = true;
        }
    });
    found
}

/// (name, variant program, whether the value is comparable, expected extra output)
fn variants(p: &[Stmt]) -> Vec<(String, Vec<Stmt>, bool, Option<String>)> {
    let mut out: Vec<(String, Vec<Stmt>, bool, Option<String>)> = Vec::new();
    let value_ok = tail_is_expression(p);
    // (w) wrap
    out.push(("wrap".into(), vec![es(call(func("", &[], p.to_vec()), vec![]))], value_ok, None));
    // (v) literal operands to variables
    let n = astx::count_int_operands(p);
    let replace = |which: Option<usize>| -> Vec<Stmt> {
        let mut v = p.to_vec();
        let mut k = 0;
        let mut decls: Vec<Stmt> = Vec::new();
        astx::visit_exprs_mut(&mut v, &mut |e| {
            if let Expr::Infix { left, right, .. } = e {
                for side in [left, right] {
                    if let Expr::Int { value } = **side {
                        if which.is_none() || which == Some(k) {
                            let name = format!("t{k}");
                            decls.push(let_(&name, Expr::Int { value }));
                            **side = id(&name);
                        }
                        k += 1;
                    }
                }
            }
        });
        decls.extend(v);
        decls
    };
    for k in 0..n.min(6) {
        out.push((format!("literal-{k}-to-variable"), replace(Some(k)), value_ok, None));
    }
    if n > 1 {
        out.push(("all-literals-to-variables".into(), replace(None), value_ok, None));
    }
    // (m) mirror literal/variable operand pairs
    let mut sites = 0;
    {
        let mut probe = p.to_vec();
        astx::visit_exprs_mut(&mut probe, &mut |e| {
            if let Expr::Infix { left, operator, right } = e {
                let lit_var = matches!((&**left, &**right), (Expr::Int { .. }, Expr::Identifier(_)) | (Expr::Identifier(_), Expr::Int { .. }));
                if lit_var && converse(operator).is_some() {
                    sites += 1;
                }
            }
        });
    }
    for s in 0..sites {
        let mut v = p.to_vec();
        let mut k = 0;
        astx::visit_exprs_mut(&mut v, &mut |e| {
            if let Expr::Infix { left, operator, right } = e {
                let lit_var = matches!((&**left, &**right), (Expr::Int { .. }, Expr::Identifier(_)) | (Expr::Identifier(_), Expr::Int { .. }));
                if lit_var {
                    if let Some(c) = converse(operator) {
                        if k == s {
                            std::mem::swap(left, right);
                            *operator = c;
                        }
                        k += 1;
                    }
                }
            }
        });
        out.push((format!("mirror-{s}"), v, value_ok, None));
    }
    // (p) prepended statements
    let (ints, strs) = literals(p);
    let mut prefixes: Vec<Vec<Stmt>> = vec![vec![es(int(1))], vec![es(int(12345))], vec![es(flt(1.5))], vec![es(string("zzz"))], vec![es(int(0)), es(int(1)), es(int(2))]];
    for c in &ints {
        if *c >= 0 {
            prefixes.push(vec![es(int(*c))]);
            prefixes.push(vec![es(flt(*c as f64))]);
            prefixes.push(vec![es(string(&c.to_string()))]);
        }
    }
    for s in &strs {
        prefixes.push(vec![es(string(s))]);
        prefixes.push(vec![let_("zz", string(s)), es(assign(index(id("zz"), int(0)), string("#")))]);
    }
    for (i, pre) in prefixes.into_iter().enumerate() {
        let mut v = pre;
        v.extend(p.iter().cloned());
        out.push((format!("prefix-{i}"), v, value_ok, None));
    }
    // (q) equal literals elsewhere stay intact
    for s in &strs {
        let mut v = vec![let_("zz", string(s))];
        v.extend(p.iter().cloned());
        v.push(print1(id("zz")));
        out.push((format!("bystander-literal-{s:?}"), v, false, Some(format!("{s}\n"))));
    }
    out
}

fn agree(base: &ImplOutcome, var: &ImplOutcome, value_ok: bool, extra: &Option<String>) -> Option<String> {
    let expected_output = match (extra, &base.end) {
        (Some(x), ImplEnd::Value(_)) => format!("{}{}", base.output, x),
        _ => base.output.clone(),
    };
    if var.output != expected_output {
        return Some(format!("output {:?}, expected {:?}", var.output, expected_output));
    }
    match (&base.end, &var.end) {
        (ImplEnd::Value(a), ImplEnd::Value(b)) => {
            if value_ok && extra.is_none() && a != b {
                return Some(format!("value {b}, the original yields {a}"));
            }
            None
        }
        (a, b) if a == b => None,
        (a, b) => Some(format!("{}, the original ends with {}", impl_end_text(b), impl_end_text(a))),
    }
}

pub fn check_program(sh: &mut Shard, p: &[Stmt]) {
    let r = match differential(sh, "base", p, opts()) {
        Some(r) => r,
        None => return,
    };
    if matches!(r.model.end, End::Unspec(_) | End::Diverge) || r.verdict.is_some() {
        return;
    }
    if has_function(p) {
        return;
    }
    let text = printer::program(p);
    let base_kinds = opcode_kinds(p);
    let mut differs = false;
    for (name, v, value_ok, extra) in variants(p) {
        let o = run_ast(&v, opts());
        sh.count(&format!("variants:{}", name.split('-').next().unwrap_or("x")));
        if opcode_kinds(&v) != base_kinds {
            differs = true;
            sh.count("variants-with-different-opcode-kinds");
        }
        if let Some(why) = agree(&r.imp, &o, value_ok, &extra) {
            sh.violation(
                "variant",
                json!({"program": text, "variant": printer::program(&v), "transformation": name}),
                format!("the {name} variant gives {why}"),
            );
            return;
        }
    }
    if differs {
        sh.nontrivial(&text);
    }
}

/// Directed bases: three-operand chains over a variable and two literals (the shape compilers fold), over
/// floats (nothing may be regrouped) and integers (range ends, huge constants).
fn chain_bases() -> Vec<Vec<Stmt>> {
    let mut out = Vec::new();
    let fops = [Operator::Add, Operator::Subtract, Operator::Multiply, Operator::Divide];
    for x in [0.1f64, 0.7, 1e16, -0.3] {
        for c1 in [0.1f64, 0.2, 0.3, 1.5, 1e16] {
            for c2 in [0.1f64, 0.2, 0.3, 1.5, 1e16] {
                for op1 in &fops {
                    for op2 in &fops {
                        out.push(vec![let_("x", flt(x)), es(infix(infix(id("x"), op1.clone(), flt(c1)), op2.clone(), flt(c2)))]);
                        out.push(vec![let_("x", flt(x)), es(infix(infix(flt(c1), op1.clone(), id("x")), op2.clone(), flt(c2)))]);
                    }
                }
            }
        }
    }
    let max = (1i64 << 60) - 1;
    let iops = [Operator::Add, Operator::Subtract, Operator::Multiply, Operator::Divide, Operator::Modulo];
    for x in [max, -max, 7, -7, 1 << 31] {
        for c1 in [1i64, 3, 10, 1 << 30, 1 << 32, max] {
            for c2 in [1i64, 3, 10, 1 << 30, 1 << 32, max] {
                for op1 in &iops {
                    for op2 in &iops {
                        out.push(vec![let_("x", int_lit(x)), es(infix(infix(id("x"), op1.clone(), int(c1)), op2.clone(), int(c2)))]);
                        out.push(vec![let_("x", int_lit(x)), es(infix(infix(int(c1), op1.clone(), id("x")), op2.clone(), int(c2)))]);
                    }
                }
            }
        }
    }
    out
}

fn run(sh: &mut Shard) {
    confusable_texts(sh);
    let tier = sh.cfg.tier;
    for prog in chain_bases() {
        if !sh.mine() {
            continue;
        }
        sh.begin(&|| printer::program(&prog));
        sh.count("family:chain-bases");
        check_program(sh, &prog);
    }
    // a literal evaluated again is pristine, whatever its earlier value went through
    for prog in crate::slices::literal_pristine_programs() {
        if !sh.mine() {
            continue;
        }
        sh.begin(&|| printer::program(&prog));
        sh.count("family:literal-pristine");
        if let Some(r) = differential(sh, "constants", &prog, opts()) {
            if !matches!(r.model.end, End::Unspec(_) | End::Diverge) {
                sh.nontrivial(&printer::program(&prog));
            } else {
                sh.count("literal-pristine-unspecified");
            }
        }
    }
    // integers that coincide with a function's packed entry offset and slot count share no constant with it
    crate::slices::descriptor_literal_programs(if sh.cfg.tier == crate::shard::Tier::Quick { 160 } else { 2_000 }, &mut |prog| {
        if !sh.mine() {
            return;
        }
        sh.begin(&|| printer::program(&prog));
        sh.count("family:descriptor-literals");
        if let Some(r) = differential(sh, "constants", &prog, opts()) {
            if !matches!(r.model.end, End::Unspec(_) | End::Diverge) {
                sh.nontrivial(&printer::program(&prog));
            }
        }
    });
    // constant-pool ladders: indices across 255 / 65 535, same literals at top level and in a function
    crate::ladders::run_family(sh, "constants", Some("consts"), false);
    for sl in slices::slices() {
        if !matches!(sl.name, "arith" | "arith-global" | "arith-typed" | "ctrl" | "heap") {
            continue;
        }
        let name = sl.name;
        let mut k = 0u64;
        slices::for_each_program(&sl, tier, sh, &mut |sh, prog| {
            if !sh.mine() {
                return sh.running();
            }
            // the quick tier takes every third program of the two big slices
            k += 1;
            if tier == crate::shard::Tier::Quick && matches!(name, "ctrl" | "heap") && k % 3 != 0 {
                return sh.running();
            }
            sh.begin(&|| printer::program(prog));
            sh.count(&format!("family:{name}"));
            check_program(sh, prog);
            if sh.index() % 50_021 == 0 {
                sh.sample(json!({"program": printer::program(prog), "variants": variants(prog).iter().map(|v| printer::program(&v.1)).take(4).collect::<Vec<_>>()}));
            }
            sh.running()
        });
    }
}

/// Pairs of DIFFERENT texts that a shortcut could take for one (equal under the usual string hashes, anagrams,
/// equal length, equal first / last 8, 16, 32 bytes, equal up to case, look-alike letters) as two literals of
/// one program: each keeps its own content wherever it stands, and the two are not equal.
fn confusable_texts(sh: &mut Shard) {
    let mut pairs = super::c09::confusable_pairs();
    for (a, b) in [("\u{a1}", "\u{c0}"), ("a b", "a  b"), ("", " "), ("a", "a "), ("ab", "ab\u{0}"), ("1", "1.0"), ("nee", "Nee"), ("\u{e9}", "e\u{301}"), ("az\u{e9}", "bY\u{e9}")] {
        pairs.push((a.to_string(), b.to_string()));
    }
    for (t1, t2) in &pairs {
        let (s1, s2) = (string(t1), string(t2));
        let progs: Vec<Vec<Stmt>> = vec![
            vec![es(array(vec![s1.clone(), s2.clone()]))],
            vec![es(array(vec![s2.clone(), s1.clone(), s2.clone()]))],
            vec![es(array(vec![infix(s1.clone(), Operator::Eq, s2.clone()), infix(s1.clone(), Operator::Neq, s2.clone()), infix(s2.clone(), Operator::Eq, s2.clone())]))],
            vec![let_("a", s1.clone()), let_("b", s2.clone()), es(array(vec![id("a"), id("b"), infix(id("a"), Operator::Eq, id("b"))]))],
            vec![es(func("f", &[], vec![es(s2.clone())])), es(array(vec![s1.clone(), calln("f", vec![]), s1.clone()]))],
            vec![es(call(func("", &["p"], vec![es(array(vec![id("p"), s2.clone(), infix(id("p"), Operator::Eq, s2.clone())]))]), vec![s1.clone()]))],
            vec![es(array(vec![calln("lengte", vec![s1.clone()]), calln("lengte", vec![s2.clone()])]))],
            vec![print1(s1.clone()), print1(s2.clone()), es(s2.clone())],
        ];
        for prog in progs {
            if !sh.mine() {
                continue;
            }
            sh.begin(&|| printer::program(&prog));
            sh.count("family:confusable-texts");
            sh.nontrivial(&printer::program(&prog));
            crate::common::differential(sh, "confusable-texts", &prog, opts());
        }
    }
}

fn replay(sh: &mut Shard, case: &Value) {
    sh.mine();
    if let Some(p) = case["program"].as_str() {
        if case.get("model").is_some() {
            // a case of the model-based families (ladders, literal-pristine)
            crate::common::differential_text(sh, "replay", p, None, opts());
        } else if let crate::common::Parsed::Ok(ast) = crate::common::parse_guarded(p) {
            check_program(sh, &ast);
        }
    }
}

fn vacuity(m: &Merged) -> Option<String> {
    for k in ["variants:wrap", "variants:literal", "variants:mirror", "variants:prefix", "variants:bystander"] {
        if m.counters.get(k).copied().unwrap_or(0) < 100 {
            return Some(format!("fewer than 100 {k}"));
        }
    }
    if m.counters.get("variants-with-different-opcode-kinds").copied().unwrap_or(0) < 1000 {
        return Some("hardly any variant compiled to different opcode kinds".into());
    }
    None
}
