pub mod c01;
pub mod c02;
pub mod c03;
pub mod c04;
pub mod c05;
pub mod c06;
pub mod c07;
pub mod c08;
pub mod c09;
pub mod c10;
pub mod c11;
pub mod c12;
pub mod c13;
pub mod c14;
pub mod c15;
pub mod c16;
pub mod c17;

use crate::pool::Merged;
use crate::shard::Shard;
use serde_json::Value;

pub struct Prop {
    pub id: &'static str,
    /// evidence level
    pub level: &'static str,
    /// how cases are enumerated and what makes one distinct / non-trivial
    pub rule: &'static str,
    pub assumptions: &'static [&'static str],
    /// enumerate and check this worker's shard
    pub run: fn(&mut Shard),
    /// re-execute one recorded case
    pub replay: fn(&mut Shard, &Value),
    /// vacuity guard over the merged counters: Some(reason) = the run was vacuous (machinery failure)
    pub vacuity: fn(&Merged) -> Option<String>,
}

impl Prop {
    /// Stack of the thread that runs the interpreter. C05 uses an ordinary 8 MiB stack (what a user's
    /// process has), so that native-stack exhaustion is seen as the crash it is.
    /// Does this check also run under the debug-assertion / overflow-check build of the harness?
    pub fn both_profiles(&self) -> bool {
        self.id == "C15" || self.id == "C16"
    }

    pub fn stack_bytes(&self) -> usize {
        if self.id == "C05" {
            8 << 20
        } else {
            1 << 30
        }
    }
}

pub fn registry() -> Vec<Prop> {
    vec![c01::prop(), c02::prop(), c03::prop(), c04::prop(), c05::prop(), c06::prop(), c07::prop(), c08::prop(), c09::prop(), c10::prop(), c11::prop(), c12::prop(), c13::prop(), c14::prop(), c15::prop(), c16::prop(), c17::prop()]
}

pub fn find(id: &str) -> Option<Prop> {
    registry().into_iter().find(|p| p.id == id)
}
