//! C16 — evaluation is a pure function of the program text (DESIGN 5, C16).

use super::c06::{lattice, lit_expr};
use super::Prop;
use crate::common::impl_end_text;
use crate::gen::*;
use crate::pool::Merged;
use crate::printer;
use crate::sched::{self, ExploreStats, ThreadOutcome};
use crate::shard::{hash64, Shard, Tier};
use crate::slices;
use nederlang::verif::Stmt;
use serde_json::{json, Value};

pub fn prop() -> Prop {
    Prop {
        id: "C16",
        level: "model_checking",
        rule: "(a) histories: every ordered sequence of <= 2 (quick) / <= 3 (thorough) programs of a 48-program batch chosen to collide (incl. generated big programs: 300 globals, 300 heap globals, 600 constants, an error with 60 frames active, and programs that read a variable they never wrote) (same literals, names and strings in different positions, values equal under == but not identical such as 0.0 and -0.0 or 1 and 1.0, heap allocation everywhere, builtin and nested-call errors, output), evaluated one after the other on one thread of one process: every evaluation must give the outcome the program gives alone in a FRESH process; (a'') near-identical long texts: self-printing programs of 16 length classes from 100 bytes to 128 KiB, each evaluated after a text of the same length that differs in one byte, at 64 consecutive middle positions and at both ends; (a''') the same with programs that MEASURE a long non-ASCII string (length, three characters): consecutive programs have the same size in bytes but a different number of characters; (b) schedules: for every unordered pair of a 10-program subset, two evaluations on real threads under a controlled scheduler that yields before every VM instruction and between the phases of eval; EVERY schedule with at most p preemptions is run to completion and each thread's outcome must equal its solo outcome; (c) configurations: the whole check, and a table of operator and arithmetic programs across the overflow boundaries, runs under two builds of the interpreter (release-like; debug assertions + overflow checks) and the (program, outcome) tables must be identical, with the solo outcomes always taken from the release build. States = schedules + histories completed; transitions = scheduling points executed",
        assumptions: &[
            "(d) the executable's symbol table is scanned for writable statics / thread-locals of the interpreter crate; if there are none the instruction-granularity schedules are sufficient; if some appear, a free-running (sampling, labelled) complement on real parallel threads is added, because the exhaustive argument no longer covers races inside one instruction",
            "instruction granularity: accesses inside one VM instruction are not interleaved by this scheduler; unsynchronised shared memory touched within a single instruction is outside its reach (the crate has no static, thread_local, lock or atomic: grep-verified in DESIGN 8)",
            "thread-local state introduced by a change is exposed by the histories (a), process-wide state by (a) and (b)",
        ],
        run,
        replay,
        vacuity,
    }
}

const BATCH_SMALL: &[&str] = &[
    "1 + 2",
    "\"abc\"",
    "stel a = \"abc\"; a[0] = \"x\"; a",
    "stel a = [1.5, \"abc\"]; functie f(x) { [x, a] } f(2)",
    "lengte(1)",
    "int(\"abc\")",
    "type()",
    "print(\"{} {}\", \"abc\", 1.5); lengte([1, 2, 3]) + int(4.0)",
    "functie f(n) { als n < 1 { antwoord 1 + ja } f(n - 1) } f(3)",
    "stel i = 0; zolang i < 5 { i += 1 } i",
    "functie fib(n) { als n < 2 { antwoord n } fib(n - 1) + fib(n - 2) } fib(6)",
    "zz",
    "(1 +",
    "string(1.5) == \"1.5\"",
    "stel s = \"x\"; stel l = [s, s]; l[0] = 1.5; l",
    "1 / 0",
    "[1, 2, 3][5]",
    "print(1); print(\"abc\"); print([1.5])",
    "stel a = 1; stel a = 2; a",
    "als ja { stel b = 1 }",
    "stel a = 7; functie g(a) { a * 2 } g(a) + a",
    "float(\"1.5\") + 1.5",
    "bool([]) || bool(\"abc\")",
    "stel abc = [[1.5], \"abc\"]; abc[0] = abc; lengte(abc)",
    "lengte(\"abc\") + lengte([1, 2, 3])",
    "string(lengte(1))",
    "stel t = \"{} {}\"; print(t, t, 1); t",
    "1152921504606846975 + 1",
    // values that are equal under some comparison but not identical (what a cache keyed too coarsely confuses)
    "string(0.0)",
    "string(-0.0)",
    "print(0.0 * -1.0); print([0.0])",
    "print(0.0); print([-0.0])",
    "string(0.0 / 0.0)",
    "string(-(0.0 / 0.0))",
    "string(1) + string(1.0)",
    "[1, 1.0, \"1\", ja]",
    "stel abc = 1; abc",
    "functie abc() { \"abc\" } abc()",
    "string(100) + string(100.0) + string(100.5)",
    "stel a = 1.0; stel b = 1; [a == b, a, b]",
];

/// The batch: the fixed short programs plus a few generated BIG ones (hundreds of globals and constants, an
/// error with many frames active) and programs that read what they never wrote — whatever an implementation
/// keeps between evaluations (a pooled machine, a table that grew) shows when a big evaluation is followed
/// by a small one.
pub fn batch() -> &'static [&'static str] {
    static B: std::sync::OnceLock<Vec<&'static str>> = std::sync::OnceLock::new();
    B.get_or_init(|| {
        let mut v: Vec<&'static str> = BATCH_SMALL.to_vec();
        let many_globals: String = (0..300).map(|i| format!("stel g{i} = {}; ", 1000 + i)).collect::<String>() + "g7 + g299";
        let heap_globals: String = (0..300).map(|i| format!("stel h{i} = [{i}.5, \"t{i}\"]; ")).collect::<String>() + "h0";
        let many_constants: String = format!("stel k = [{}]; k[299]", (0..300).map(|i| format!("{i}.25, \"c{i}\"")).collect::<Vec<_>>().join(", "));
        for t in [
            many_globals,
            heap_globals,
            many_constants,
            "functie r(n) { stel s = [n, \"x\"]; als n == 0 { [1][5] } r(n - 1) + 1 } r(60)".to_string(),
            "stel a = a; a".to_string(),
            "stel g0 = g0; g0".to_string(),
            "stel h0 = h0; stel h1 = h1; [h0, h1]".to_string(),
            "stel p1 = 1; stel p2 = 2; stel p3 = 3; stel p4 = 4; stel p5 = 5; stel p6 = 6; stel p7 = 7; stel p8 = 8; stel p9 = p9; p9".to_string(),
        ] {
            v.push(Box::leak(t.into_boxed_str()));
        }
        v
    })
}

/// Indices into batch() of the short programs used for the schedule exploration.
const SCHED_SET: [usize; 10] = [0, 1, 2, 4, 7, 13, 15, 17, 19, 25];

fn render(o: &ThreadOutcome) -> String {
    format!("{} | output {:?}", impl_end_text(&o.end), o.output)
}

/// The outcome of batch()[i] alone in a fresh process of the RELEASE build.
fn fresh_process_solo(i: usize) -> Option<String> {
    let exe = std::env::var_os("NLMC_RELEASE").map(std::path::PathBuf::from).unwrap_or_else(|| std::path::PathBuf::from("/verif/.target/release/nlmc"));
    let out = std::process::Command::new(exe).arg("solo16").arg(i.to_string()).output().ok()?;
    if !out.status.success() {
        use std::os::unix::process::ExitStatusExt;
        if let Some(sig) = out.status.signal() {
            return Some(format!("CRASH: the process evaluating it alone was killed by signal {sig}"));
        }
        return None;
    }
    Some(String::from_utf8_lossy(&out.stdout).trim_end().to_string())
}

pub fn solo_main(i: usize) {
    crate::outcome::install_quiet_panic_hook();
    let o = sched::solo(batch()[i], 1_000_000);
    println!("{}", render(&o));
}

/// Writable process-wide or thread-local data of the interpreter crate in this very executable (symbol
/// table scan). The exhaustive schedule argument of (b) works at instruction granularity, which is enough
/// only if no such data exists; the instrumentation's own control block is the one expected entry.
fn writable_statics() -> Option<Vec<String>> {
    let exe = std::env::current_exe().ok()?;
    let out = std::process::Command::new("nm").arg("-C").arg(exe).output().ok()?;
    if !out.status.success() {
        return None;
    }
    let text = String::from_utf8_lossy(&out.stdout).to_string();
    let mut v = Vec::new();
    for line in text.lines() {
        let mut it = line.splitn(3, ' ');
        let (_addr, ty, name) = (it.next()?, it.next().unwrap_or(""), it.next().unwrap_or(""));
        if matches!(ty, "b" | "B" | "d" | "D") && name.contains("nederlang::") && !name.contains("nederlang::verif::") {
            v.push(name.to_string());
        }
    }
    v.sort();
    v.dedup();
    Some(v)
}

/// Free-running complement, used ONLY when the interpreter has writable statics (the precondition of the
/// exhaustive schedule exploration does not hold): the pairs run on real threads without the baton, many
/// times. This is sampling, labelled as such in the evidence; a difference from the solo outcome is real.
fn free_running(sh: &mut Shard, solos: &[String], statics: &[String]) {
    let set: Vec<usize> = (0..batch().len()).collect();
    let reps = 40;
    let mut pair_no = 0u64;
    for x in 0..set.len() {
        for y in x..set.len() {
            pair_no += 1;
            if pair_no % sh.nshards != sh.shard {
                continue;
            }
            let (i, j) = (set[x], set[y]);
            sh.count("free-running-pairs");
            let barrier = std::sync::Arc::new(std::sync::Barrier::new(2));
            let mut bad: Option<String> = None;
            for _ in 0..reps {
                let hs: Vec<_> = [i, j]
                    .iter()
                    .map(|k| {
                        let b = barrier.clone();
                        let text = batch()[*k].to_string();
                        std::thread::Builder::new()
                            .stack_size(64 << 20)
                            .spawn(move || {
                                b.wait();
                                let mut outs = Vec::new();
                                for _ in 0..25 {
                                    outs.push(render(&sched::solo(&text, 1_000_000)));
                                }
                                outs
                            })
                            .expect("spawn")
                    })
                    .collect();
                for (t, h) in hs.into_iter().enumerate() {
                    let k = [i, j][t];
                    match h.join() {
                        Ok(outs) => {
                            if let Some(o) = outs.iter().find(|o| **o != solos[k]) {
                                bad = Some(format!("{:?} running next to {:?} on another thread gave {o}, alone it gives {}", batch()[k], batch()[[j, i][t]], solos[k]));
                            }
                        }
                        Err(_) => bad = Some(format!("the thread evaluating {:?} died", batch()[k])),
                    }
                }
                if bad.is_some() {
                    break;
                }
            }
            if let Some(why) = bad {
                sh.violation(
                    "free-running",
                    json!({"programs": [batch()[i], batch()[j]], "free_running": true, "writable_statics": statics}),
                    format!("{why} (the interpreter has process-wide writable data: {statics:?})"),
                );
                return;
            }
        }
    }
}

/// Every text of the profile table (c), in a fixed order.
pub fn for_each_table_text(tier: Tier, seed: u64, f: &mut dyn FnMut(&str)) {
    for prog in table_programs(tier, seed) {
        f(&printer::program(&prog));
    }
    for k in 57..=64u32 {
        for off in [-2i128, -1, 0, 1, 2] {
            let v = (1i128 << k) + off;
            for text in [v.to_string(), format!("-{v}"), format!("stel x = {v}; x + 0"), format!("int(\"{v}\")"), format!("int({v}.0)")] {
                f(&text);
            }
        }
    }
    // recursion to within two levels of the deepest frame the machine allows, for frames of 1..41 slots whose
    // LAST slot is read plainly and by a fused `local op literal` at the bottom and on the way back
    for text in deep_frame_texts() {
        f(&text);
    }
    crate::compose::for_each(2, &mut |_, prog| {
        f(&printer::program(prog));
        true
    });
    for sl in slices::slices().into_iter().filter(|s| matches!(s.name, "builtin" | "heap-local" | "gc" | "arith")) {
        let mut dummy = Shard::new("C16", crate::shard::Cfg { tier: Tier::Quick, seed }, 0, 1);
        slices::for_each_program(&sl, Tier::Quick, &mut dummy, &mut |_, prog| {
            f(&printer::program(prog));
            true
        });
    }
}

/// Programs `functie diep(n) { F-1 locals; als n == 0 { antwoord last + 1 } antwoord diep(n - 1) + (last + 1) - last } diep(d)`
/// for d within two of 65535 / F.
pub fn deep_frame_texts() -> Vec<String> {
    let mut out = Vec::new();
    for slots in [1usize, 2, 3, 5, 8, 10, 11, 17, 41] {
        let mut body = String::new();
        let mut prev = "n".to_string();
        for l in 1..slots {
            body.push_str(&format!("stel v{l} = {prev} + 1; "));
            prev = format!("v{l}");
        }
        for delta in -2i64..=2 {
            let d = 65_535 / slots as i64 + delta;
            out.push(format!("functie diep(n) {{ {body}als n == 0 {{ antwoord {prev} + 1 }} antwoord diep(n - 1) + ({prev} + 1) - {prev} }} diep({d})"));
        }
    }
    out
}

/// The instruction budget of a table entry (the deep-frame programs run for a few million instructions).
fn table_budget(text: &str) -> u64 {
    if text.starts_with("functie diep(") {
        20_000_000
    } else {
        100_000
    }
}

/// `nlmc table16 <tier> <seed> <file>`: writes "text<TAB>outcome" for every table entry in this build.
pub fn table_dump_main(tier: Tier, seed: u64, path: &str) {
    crate::outcome::install_quiet_panic_hook();
    let mut out = String::new();
    for_each_table_text(tier, seed, &mut |text| {
        let o = sched::solo(text, table_budget(text));
        out.push_str(&format!("{}\t{}\n", text.replace('\n', "\\n").replace('\t', "\\t"), render(&o).replace('\n', "\\n")));
    });
    let _ = std::fs::write(path, out);
}

fn table_programs(tier: Tier, seed: u64) -> Vec<Vec<Stmt>> {
    let lat = lattice(tier, seed);
    // a 40-value subset that includes both range ends and the values next to them
    let mut vals: Vec<i64> = lat.iter().cloned().filter(|v| v.abs() <= 2 || v.abs() >= (1i64 << 59)).collect();
    // and the values whose PRODUCTS and sums cross the limits of the integer range and of the machine word:
    // around the square roots of 2^60, 2^63 and 2^64
    for v in [(1i64 << 30) - 1, 1 << 30, (1 << 30) + 1, (1 << 31) - 1, 1 << 31, (1 << 32) - 1, 1 << 32, 3_037_000_499, 3_037_000_500, 1_073_741_827] {
        vals.push(v);
        vals.push(-v);
    }
    vals.sort();
    vals.dedup();
    let mut out = Vec::new();
    let mut ops = ARITH_OPS.to_vec();
    ops.extend(CMP_OPS.iter().cloned());
    for a in &vals {
        out.push(vec![es(neg(lit_expr(*a)))]);
        out.push(vec![es(calln("int", vec![calln("float", vec![lit_expr(*a)])]))]);
        out.push(vec![es(calln("int", vec![calln("string", vec![lit_expr(*a)])]))]);
        for b in &vals {
            for op in &ops {
                out.push(vec![es(infix(lit_expr(*a), op.clone(), lit_expr(*b)))]);
                out.push(vec![es(call(func("", &["x"], vec![es(infix(id("x"), op.clone(), lit_expr(*b)))]), vec![lit_expr(*a)]))]);
            }
        }
    }
    out
}

/// Self-printing programs of one length class evaluated one after the other, consecutive texts differing in
/// one byte (see (a'') in the rule).
/// Near-identical texts that measure a string: the program holds a long non-ASCII string and returns its
/// length in characters and three of its characters; consecutive programs have the SAME size in bytes (so the
/// second one's string lands where the first one's was) but a different number of characters (one two-byte
/// character replaced by two one-byte characters, at 12 positions). The expected value is known in closed form.
fn near_identical_measured(sh: &mut Shard, profile: &str, only_len: Option<usize>) {
    for chars in [20usize, 100, 127, 128, 129, 150, 300, 1000, 5000, 40_000] {
        if only_len.map(|l| l != chars).unwrap_or(false) {
            continue;
        }
        let mut variants: Vec<Option<usize>> = vec![None];
        variants.extend([0, 1, 2, chars / 3, chars / 2, chars / 2 + 1, chars - 3, chars - 2, chars - 1, 7, 64, 65].iter().filter(|p| **p < chars).map(|p| Some(*p)));
        variants.push(None);
        for split in variants {
            let body: String = (0..chars).map(|i| if Some(i) == split { "ab".to_string() } else { "é".to_string() }).collect();
            let cs: Vec<char> = body.chars().collect();
            let n = cs.len();
            let text = format!("stel s = \"{body}\"; [lengte(s), s[0], s[{}], s[-1]]", n / 2);
            let o = sched::solo(&text, 2_000_000);
            sh.count("transitions");
            let want = format!("[{n},\"{}\",\"{}\",\"{}\"]", cs[0], cs[n / 2], cs[n - 1]);
            let ok = matches!(&o.end, crate::outcome::ImplEnd::Value(v) if *v == want);
            if !ok {
                sh.violation(
                    "history",
                    json!({"profile": profile, "near_identical_measured": {"length": chars, "two_ascii_characters_at": split}, "history": ["(the same program with the two ASCII characters elsewhere, or without them)", format!("stel s = \"…{} characters…\"; [lengte(s), s[0], s[{}], s[-1]]", n, n / 2)]}),
                    format!("a program measuring its own {n}-character string gave {}, expected {want}", impl_end_text(&o.end)),
                );
                return;
            }
        }
    }
}

fn near_identical(sh: &mut Shard, profile: &str, only_len: Option<usize>) {
        'near: for len in [100usize, 500, 1000, 1030, 1100, 2050, 2100, 3000, 4100, 5000, 8200, 10_000, 16_400, 33_000, 66_000, 131_000] {
            if only_len.map(|l| l != len).unwrap_or(false) {
                continue;
            }
            let base: Vec<u8> = (0..len).map(|i| b'a' + (i % 23) as u8).collect();
            let mid = len / 2;
            let mut positions: Vec<usize> = (mid..(mid + 64).min(len)).collect();
            positions.extend([0, 1, 2, len - 3, len - 2, len - 1]);
            let mut prev_output = String::new();
            for (n, p) in std::iter::once(None).chain(positions.iter().map(|p| Some(*p))).enumerate() {
                let mut body = base.clone();
                if let Some(p) = p {
                    body[p] = b'A' + (n % 26) as u8;
                }
                let body = String::from_utf8(body).unwrap();
                let text = format!("print(\"{body}\"); {len}");
                let o = sched::solo(&text, 1_000_000);
                sh.count("transitions");
                let want_out = format!("{body}\n");
                let ok = o.output == want_out && matches!(&o.end, crate::outcome::ImplEnd::Value(v) if *v == len.to_string());
                if !ok {
                    let same_as_previous = o.output == prev_output;
                    sh.violation(
                        "history",
                        json!({"profile": profile, "near_identical": {"length": len, "differs_at": p}, "history": ["(the same text with another byte changed)", format!("print(\"…{} bytes…\"); {len}", len)]}),
                        format!(
                            "a {len}-byte program that prints its own body gave {} with {} bytes of output{}; expected its own body and the value {len}",
                            impl_end_text(&o.end),
                            o.output.len(),
                            if same_as_previous { " — the output of the PREVIOUS, different text" } else { "" }
                        ),
                    );
                    break 'near;
                }
                prev_output = o.output;
            }
        }
}

fn run(sh: &mut Shard) {
    let tier = sh.cfg.tier;
    let profile = if cfg!(debug_assertions) { "dev" } else { "rel" };
    // (d') the interpreter's own command-line program, unoptimised and release, on the long-run ladders
    if profile == "rel" {
        crate::cliprof::run_family(sh, "configurations");
    }
    // solo outcomes from fresh release-build processes
    let mut solos: Vec<String> = Vec::new();
    for i in 0..batch().len() {
        match fresh_process_solo(i) {
            Some(s) if s.starts_with("CRASH") => {
                sh.mine();
                sh.violation("solo", json!({"history": [batch()[i]]}), format!("{:?}: {s}", batch()[i]));
                return;
            }
            Some(s) => solos.push(s),
            None => {
                sh.machinery(format!("cannot obtain the fresh-process outcome of batch program {i}"));
                return;
            }
        }
    }
    // (d) precondition of the instruction-granularity argument: no writable statics in the interpreter
    match writable_statics() {
        None => sh.count("static-scan-unavailable"),
        Some(list) => {
            sh.count("static-scan-done");
            if !list.is_empty() {
                sh.add("writable-statics-found", list.len() as u64);
                free_running(sh, &solos, &list);
                if !sh.running() {
                    return;
                }
            }
        }
    }
    // (a) histories
    let hlen = if tier == Tier::Quick { 2 } else { 3 };
    let n = batch().len();
    // everything this worker has evaluated on this thread so far (a deviation may be due to an EARLIER
    // history of the same worker: the replay file carries the whole sequence)
    let mut log: Vec<usize> = Vec::new();
    for len in 1..=hlen {
        let total = (n as u64).pow(len as u32);
        for code in 0..total {
            if !sh.mine() {
                continue;
            }
            let mut idx = Vec::new();
            let mut c = code;
            for _ in 0..len {
                idx.push((c % n as u64) as usize);
                c /= n as u64;
            }
            sh.begin(&|| idx.iter().map(|i| batch()[*i]).collect::<Vec<_>>().join(" ⏎ "));
            sh.count(&format!("histories:{profile}"));
            sh.count("states");
            sh.count("traces_validated_against_impl");
            sh.nontrivial(&(profile, "history", &idx));
            for (pos, i) in idx.iter().enumerate() {
                let o = sched::solo(batch()[*i], 1_000_000);
                log.push(*i);
                sh.count("transitions");
                sh.outcome(&(batch()[*i], render(&o)));
                if render(&o) != solos[*i] {
                    sh.violation(
                        "history",
                        json!({"profile": profile, "history": idx.iter().map(|i| batch()[*i]).collect::<Vec<_>>(), "position": pos,
                               "evaluated_before_on_this_thread": log[..log.len() - 1 - pos].to_vec()}),
                        format!("evaluation {} of the history ({:?}) gave {} but alone in a fresh process it gives {}", pos + 1, batch()[*i], render(&o), solos[*i]),
                    );
                    break;
                }
            }
            if sh.index() % 211 == 0 {
                sh.sample(json!({"history": idx.iter().map(|i| batch()[*i]).collect::<Vec<_>>()}));
            }
        }
    }
    // (a'') near-identical long texts: programs that print their own body (so the expected output is known in
    // closed form), of every length class from 100 bytes to 128 KiB, evaluated one after the other on this
    // thread; consecutive texts have the SAME length and differ in ONE byte, at every one of 64 consecutive
    // positions (all residues of any sampling stride up to 64) in the middle, and at both ends
    // (every worker advances the case index here, whoever runs the case: the workers' index spaces must stay
    // aligned, or the partition of the profile table below has holes)
    sh.mine();
    if sh.shard == 1 % sh.nshards {
        sh.begin(&|| "near-identical long texts".to_string());
        sh.count(&format!("near-identical:{profile}"));
        near_identical(sh, profile, None);
        near_identical_measured(sh, profile, None);
    }
    // (a') one long history: thousands of programs that each bring fresh names, numbers and strings (whatever
    // table, cache or counter a change might keep between evaluations gets filled and wrapped), the batch
    // re-evaluated at several points of it
    sh.mine();
    if sh.shard == 0 {
        sh.begin(&|| "long history: 6000 programs with fresh names and constants, the batch re-evaluated every 500".to_string());
        sh.count(&format!("long-history:{profile}"));
        'long: for k in 0..6000u64 {
            let text = format!(
                "stel naam{k} = {k}; stel tekst{k} = \"s{k}\"; functie f{k}(p{k}) {{ p{k} + {k}.5 }}; [naam{k}, tekst{k}, f{k}(0.25)]"
            );
            let o = sched::solo(&text, 100_000);
            sh.count("transitions");
            let want = format!("value [{k},\"s{k}\",{}] | output \"\"", crate::refint::render_float(0.25 + k as f64 + 0.5));
            if render(&o) != want {
                sh.violation("history", json!({"profile": profile, "long_history_position": k, "program": text}), format!("program {k} of the long history gave {}, expected {want}", render(&o)));
                break 'long;
            }
            if k % 500 == 499 {
                for (i, b) in batch().iter().enumerate() {
                    let o = sched::solo(b, 1_000_000);
                    if render(&o) != solos[i] {
                        sh.violation(
                            "history",
                            json!({"profile": profile, "long_history_position": k, "program": b}),
                            format!("after {} earlier evaluations {:?} gave {} but alone in a fresh process it gives {}", k + 1, b, render(&o), solos[i]),
                        );
                        break 'long;
                    }
                }
            }
        }
    }
    // (c) configurations: the (program, outcome) table of this build; compared across builds by the parent
    {
        let mut texts: Vec<String> = Vec::new();
        for_each_table_text(tier, sh.cfg.seed, &mut |t| texts.push(t.to_string()));
        for text in texts {
            if !sh.mine() {
                continue;
            }
            sh.begin(&|| text.clone());
            sh.count(&format!("table:{profile}"));
            let o = sched::solo(&text, table_budget(&text));
            sh.pair(&(text.as_str(), render(&o)));
            if std::env::var_os("NLMC_PAIRS_DEBUG").is_some() {
                use std::io::Write;
                if let Ok(mut fh) = std::fs::OpenOptions::new().create(true).append(true).open(format!("/verif/.target/tmp/pairs-{profile}-{}.txt", sh.shard)) {
                    let _ = writeln!(fh, "{}\t{}", text.replace('\n', "\\n"), render(&o).replace('\n', "\\n"));
                }
            }
        }
    }
    // (b) schedules
    let bound = if tier == Tier::Quick { 2 } else { 3 };
    let mut pair_no = 0u64;
    for x in 0..SCHED_SET.len() {
        for y in x..SCHED_SET.len() {
            pair_no += 1;
            if pair_no % sh.nshards != sh.shard {
                continue;
            }
            let (i, j) = (SCHED_SET[x], SCHED_SET[y]);
            let programs = vec![batch()[i].to_string(), batch()[j].to_string()];
            sh.mine();
            sh.begin(&|| format!("all schedules with <= {bound} preemptions of {:?} || {:?}", batch()[i], batch()[j]));
            let mut stats = ExploreStats { schedules: 0, points: 0, interleaved: 0, max_points: 0 };
            let expected = [solos[i].clone(), solos[j].clone()];
            let mut bad: Option<(String, Vec<usize>)> = None;
            sched::explore(&programs, bound, 1_000_000, &mut stats, &mut |run, choices| {
                if let Some(e) = &run.error {
                    bad = Some((format!("MACHINERY {e}"), choices.to_vec()));
                    return false;
                }
                for t in 0..2 {
                    if render(&run.outcomes[t]) != expected[t] {
                        bad = Some((format!("thread {t} ({:?}) gave {} but alone it gives {}", programs[t], render(&run.outcomes[t]), expected[t]), choices.to_vec()));
                        return false;
                    }
                }
                true
            });
            sh.add(&format!("schedules:{profile}"), stats.schedules);
            sh.add("states", stats.schedules);
            sh.add("transitions", stats.points);
            sh.add("traces_validated_against_impl", stats.schedules);
            sh.add("schedules-that-interleaved", stats.interleaved);
            sh.max("points-per-schedule", stats.max_points);
            sh.nontrivial(&(profile, "pair", i, j));
            if let Some((why, schedule)) = bad {
                if why.starts_with("MACHINERY") {
                    sh.machinery(why);
                    return;
                }
                // replay the same schedule once more: it must fail the same way
                let again = sched::run_schedule(&programs, &schedule, 1_000_000);
                let same = (0..2).any(|t| render(&again.outcomes[t]) != expected[t]);
                if !same {
                    sh.machinery(format!("a failing schedule did not fail when replayed: nondeterminism not captured ({why})"));
                    return;
                }
                sh.violation("schedule", json!({"profile": profile, "programs": programs, "schedule": schedule}), why);
            }
            if !sh.running() {
                return;
            }
        }
    }
    // thorough: three evaluations at once (every unordered triple of a 6-program subset, <= 2 preemptions)
    if tier == Tier::Thorough {
        let set = &SCHED_SET[..6];
        let mut triple_no = 0u64;
        for x in 0..set.len() {
            for y in x..set.len() {
                for z in y..set.len() {
                    triple_no += 1;
                    if triple_no % sh.nshards != sh.shard {
                        continue;
                    }
                    let idx = [set[x], set[y], set[z]];
                    let programs: Vec<String> = idx.iter().map(|i| batch()[*i].to_string()).collect();
                    sh.mine();
                    sh.begin(&|| format!("all schedules with <= 2 preemptions of three evaluations {:?}", programs));
                    let mut stats = ExploreStats { schedules: 0, points: 0, interleaved: 0, max_points: 0 };
                    let mut bad: Option<(String, Vec<usize>)> = None;
                    sched::explore(&programs, 2, 1_000_000, &mut stats, &mut |run, choices| {
                        if let Some(e) = &run.error {
                            bad = Some((format!("MACHINERY {e}"), choices.to_vec()));
                            return false;
                        }
                        for t in 0..3 {
                            if render(&run.outcomes[t]) != solos[idx[t]] {
                                bad = Some((format!("thread {t} ({:?}) gave {} but alone it gives {}", programs[t], render(&run.outcomes[t]), solos[idx[t]]), choices.to_vec()));
                                return false;
                            }
                        }
                        true
                    });
                    sh.add(&format!("schedules3:{profile}"), stats.schedules);
                    sh.add("states", stats.schedules);
                    sh.add("transitions", stats.points);
                    sh.add("traces_validated_against_impl", stats.schedules);
                    sh.nontrivial(&(profile, "triple", idx));
                    if let Some((why, schedule)) = bad {
                        if why.starts_with("MACHINERY") {
                            sh.machinery(why);
                            return;
                        }
                        sh.violation("schedule", json!({"profile": profile, "programs": programs, "schedule": schedule}), why);
                    }
                    if !sh.running() {
                        return;
                    }
                }
            }
        }
    }
    let _ = hash64(&0);
}

fn replay(sh: &mut Shard, case: &Value) {
    if case.get("cli").is_some() {
        crate::cliprof::replay(sh, "configurations", case);
        return;
    }
    sh.mine();
    if let Some(len) = case["near_identical_measured"]["length"].as_u64() {
        near_identical_measured(sh, if cfg!(debug_assertions) { "dev" } else { "rel" }, Some(len as usize));
        return;
    }
    if let Some(len) = case["near_identical"]["length"].as_u64() {
        near_identical(sh, if cfg!(debug_assertions) { "dev" } else { "rel" }, Some(len as usize));
        return;
    }
    if let Some(h) = case["history"].as_array() {
        let progs: Vec<String> = h.iter().filter_map(|x| x.as_str().map(|s| s.to_string())).collect();
        if let Some(before) = case["evaluated_before_on_this_thread"].as_array() {
            println!("re-evaluating the {} batch programs the worker had evaluated before this history", before.len());
            for i in before.iter().filter_map(|x| x.as_u64()) {
                if let Some(p) = batch().get(i as usize) {
                    let _ = sched::solo(p, 1_000_000);
                }
            }
        }
        for p in &progs {
            let o = sched::solo(p, 1_000_000);
            let i = batch().iter().position(|b| b == p);
            let fresh = i.and_then(fresh_process_solo).unwrap_or_default();
            println!(">>> {p}\n    here:  {}\n    fresh: {fresh}", render(&o));
            if render(&o) != fresh {
                sh.violation("history", case.clone(), "outcome depends on what was evaluated before".into());
                return;
            }
        }
    } else if let Some(ps) = case["programs"].as_array() {
        let programs: Vec<String> = ps.iter().filter_map(|x| x.as_str().map(|s| s.to_string())).collect();
        let schedule: Vec<usize> = case["schedule"].as_array().map(|a| a.iter().filter_map(|x| x.as_u64().map(|v| v as usize)).collect()).unwrap_or_default();
        let run = sched::run_schedule(&programs, &schedule, 1_000_000);
        for (t, p) in programs.iter().enumerate().take(run.outcomes.len()) {
            let solo = sched::solo(p, 1_000_000);
            println!("thread {t}: {p}\n    under the schedule: {}\n    alone:              {}", render(&run.outcomes[t]), render(&solo));
            if render(&run.outcomes[t]) != render(&solo) {
                sh.violation("schedule", case.clone(), "outcome depends on the interleaving".into());
            }
        }
        if case["free_running"].as_bool() == Some(true) {
            println!("this was found by the free-running complement (real parallel threads): re-running it 200 times");
            let solos: Vec<String> = programs.iter().map(|p| render(&sched::solo(p, 1_000_000))).collect();
            for _ in 0..200 {
                let hs: Vec<_> = programs
                    .iter()
                    .cloned()
                    .map(|text| std::thread::spawn(move || (0..25).map(|_| render(&sched::solo(&text, 1_000_000))).collect::<Vec<_>>()))
                    .collect();
                for (t, h) in hs.into_iter().enumerate() {
                    match h.join() {
                        Ok(outs) => {
                            if outs.iter().any(|o| *o != solos[t]) {
                                sh.violation("free-running", case.clone(), "outcome depends on what runs on another thread".into());
                                return;
                            }
                        }
                        Err(_) => {
                            sh.violation("free-running", case.clone(), "a thread died".into());
                            return;
                        }
                    }
                }
            }
        }
    } else if case["table"].is_string() {
        if let Some(d) = case["differing_programs"].as_array() {
            for x in d {
                let text = x["program"].as_str().unwrap_or("");
                let here = render(&sched::solo(text, 100_000));
                println!(">>> {text}\n    this build now: {here}\n    recorded release: {}\n    recorded debug:   {}", x["release"], x["debug"]);
                if x["release"] != x["debug"] && (Some(here.as_str()) == x["release"].as_str() || Some(here.as_str()) == x["debug"].as_str()) {
                    sh.violation("profiles", case.clone(), format!("{text:?} evaluates differently in the two builds"));
                }
            }
        }
    }
}

fn vacuity(m: &Merged) -> Option<String> {
    for p in ["rel", "dev"] {
        if m.counters.get(&format!("histories:{p}")).copied().unwrap_or(0) < 500 {
            return Some(format!("fewer than 500 histories in profile {p}"));
        }
        if m.counters.get(&format!("schedules:{p}")).copied().unwrap_or(0) < 1000 {
            return Some(format!("fewer than 1000 schedules in profile {p}"));
        }
        if m.counters.get(&format!("table:{p}")).copied().unwrap_or(0) < 10_000 {
            return Some(format!("fewer than 10 000 table entries in profile {p}"));
        }
    }
    if m.counters.get("schedules-that-interleaved").copied().unwrap_or(0) < 100 {
        return Some("hardly any schedule interleaved the two instruction streams".into());
    }
    None
}
