//! C14 — builtins are total and behave as documented (DESIGN 5, C14).

use super::c06::{float_expr, lattice, lit_expr};
use super::Prop;
use crate::common::{differential, model_end_text};
use crate::gen::*;
use crate::outcome::RunOpts;
use crate::pool::Merged;
use crate::printer;
use crate::refint::End;
use crate::shard::{Shard, Tier};
use nederlang::verif::{Expr, Operator, Stmt};
use serde_json::{json, Value};

pub fn prop() -> Prop {
    Prop {
        id: "C14",
        level: "exploration",
        rule: "complete tables: each of the 7 builtins x a 70-value alphabet covering every type (null, both bools, boundary integers, floats incl. signed zero, tiny, huge, infinities and NaN, numeric / padded / signed / exponent / empty / non-ASCII text, empty and nested arrays, named and anonymous functions) with 1 argument; x a 12-value subset squared and cubed with 2 and 3 arguments; with no argument; identity t(v) for v of type t; round trips int(string(i)) for every i of the integer lattice and float(string(x)) for every float of the alphabet and every lattice integer below 2^53; digit patterns (every integer to 20 000, every number of up to 18 digits with at most three non-zero digits from {1, 9}, every a*10^k + b, sums of tenths, integers just above 2^53..2^59, 26 awkward number texts x 6 builtins, nested arrays with quotes / braces / integral floats, arguments containing placeholders); every decimal text i.ff (i <= 20), d.fff, and k/100, k*1.1 (k <= 2000) through string() and back; magnitude ladders (floats m x 10^k for |k| <= 40 and m x 2^k for |k| <= 70, integers 10^k and neighbours, digit strings of 1..24 digits, print with N placeholders for N up to 253 and N-1 / N / N+1 arguments); print with every format string of <= 4 pieces over {{}, {, }, a, space, é, €, 😀} x 0..4 further arguments drawn from 5 values, and with a first argument of every type. Oracle: the reference functions of the model (U11 leniency for non-canonical number spellings). Non-trivial = the model defines the outcome; distinct = distinct texts; long texts that are not numbers with a 2-, 3- or 4-byte character across every byte offset 1..140 and around 255 / 256 / 512 / 1000 / 1024 / 3000 / 4096 (thorough: every offset to 1 100 and more), behind letters, digits and wide characters, through every builtin and by index from the end; where U11 leaves the ANSWER open a crash or contract breach is still a violation",
        assumptions: &["reference builtins of refint.rs (DESIGN 4.2 Builtins)", "U11: non-canonical number spellings (padding, +5, 1e5, inf, nan) are not compared"],
        run,
        replay,
        vacuity,
    }
}

thread_local! {
    /// the whole table runs twice: under the shadow heap, and without it (real address reuse)
    static LEDGER: std::cell::Cell<bool> = std::cell::Cell::new(true);
}

fn opts() -> RunOpts {
    RunOpts { budget: Some(20_000), ledger: LEDGER.with(|c| c.get()), trace: false, render: true }
}

const BUILTINS: [&str; 7] = ["print", "type", "bool", "int", "float", "string", "lengte"];

pub fn alphabet() -> Vec<Expr> {
    let mut v: Vec<Expr> = vec![iff(boolean(false), vec![es(int(1))], None), boolean(true), boolean(false)];
    for i in [0i64, 1, -1, 7, -7, 255, 256, 65535, 65536, crate::refint::INT_MIN, crate::refint::INT_MAX, 1 << 53, -(1 << 53), (1 << 53) + 1, -((1 << 53) + 1)] {
        v.push(lit_expr(i));
    }
    for f in [
        0.0, -0.0, 0.5, -0.5, 1.0, -1.0, 1.5, -1.5, 9007199254740992.0, -9007199254740992.0, 1e19, -1e19, f64::MAX, -f64::MAX, f64::INFINITY, f64::NEG_INFINITY, f64::NAN,
        f64::MIN_POSITIVE, 1e-16, 2.220446049250313e-16, 1152921504606846976.0, -1152921504606846977.0, 1152921504606846975.0, 0.9999999999999999, 2.5, -2.5,
    ] {
        v.push(float_expr(f));
    }
    for s in [
        "", "0", "1", "-1", "1.5", "-1.5", " 1 ", "+1", "1e3", "abc", "é", "{}", "1152921504606846975", "1152921504606846976", "-1152921504606846976", "-1152921504606846977",
        "100000000000000000000", "007", "0.0", "-0", "1.", ".5", "inf", "nan", "ja", "ß😀",
    ] {
        v.push(string(s));
    }
    v.push(array(vec![]));
    v.push(array(vec![int(1)]));
    v.push(array(vec![array(vec![int(1)]), string("a")]));
    v.push(array(vec![flt(1.5), boolean(false)]));
    v.push(id("nf"));
    v.push(func("", &["q"], vec![es(id("q"))]));
    v
}

fn small_alphabet() -> Vec<Expr> {
    vec![
        iff(boolean(false), vec![], None),
        boolean(true),
        int(0),
        int(1),
        neg(int(1)),
        flt(1.5),
        string(""),
        string("12"),
        string("{}"),
        array(vec![]),
        array(vec![int(1), string("s")]),
        id("nf"),
    ]
}

fn prelude() -> Vec<Stmt> {
    vec![es(func("nf", &["q"], vec![es(id("q"))]))]
}

fn case(sh: &mut Shard, family: &str, body: Vec<Stmt>) {
    if !sh.mine() {
        return;
    }
    let mut prog = prelude();
    prog.extend(body);
    sh.begin(&|| printer::program(&prog));
    sh.count(&format!("family:{family}"));
    if let Some(r) = differential(sh, family, &prog, opts()) {
        if !matches!(r.model.end, End::Unspec(_) | End::Diverge) {
            sh.nontrivial(&printer::program(&prog));
        }
        // where the documentation leaves the ANSWER open (U11: which spellings of a number `int` / `float` accept)
        // the builtin must still come back: a value or an error, never a crash
        if matches!(r.model.end, End::Unspec(_)) {
            if let crate::outcome::ImplEnd::Panic(p) | crate::outcome::ImplEnd::Breach(p) = &r.imp.end {
                let text = printer::program(&prog);
                let d = crate::common::describe(&text, &r.model, &r.imp);
                sh.violation(family, d, format!("a builtin crashed where only its answer is left open: {p}"));
            }
        }
        if sh.index() % 20_011 == 0 {
            sh.sample(json!({"family": family, "program": printer::program(&prog), "model": model_end_text(&r.model.end), "output": r.model.output}));
        }
    }
}

/// Number texts with padding of every length: which non-canonical spellings `int` / `float` accept is U11, but
/// whichever way that goes the answer is the number the text spells or an argument error — never ANOTHER
/// number, never anything else. White space (blank, tab, newline) in front, behind and on both sides, and
/// leading zeros, of every length 1..70 and around 100 / 128 / 256 / 1000 / 4096.
fn padded_number_texts(sh: &mut Shard) {
    let lens: Vec<usize> = (1..=70usize).chain([99, 100, 127, 128, 129, 255, 256, 257, 1000, 4096, 4097]).collect();
    let numbers = ["0", "7", "2024", "-15", "1152921504606846975", "1.5", "-0.25", "100.0"];
    for len in lens {
        for (pname, pad) in [("blanks", " "), ("tabs", "\t"), ("newlines", "\n"), ("zeros", "0")] {
            for side in 0..3 {
                for num in numbers {
                    for builtin in ["int", "float"] {
                        if builtin == "int" && num.contains('.') {
                            continue;
                        }
                        if !sh.mine() {
                            continue;
                        }
                        let p = pad.repeat(len);
                        let text = if pad == "0" {
                            // zeros go between the sign and the digits (and, for side 1, behind a fraction)
                            let (sign, digits) = if let Some(d) = num.strip_prefix('-') { ("-", d) } else { ("", num) };
                            match side {
                                0 => format!("{sign}{p}{digits}"),
                                1 if num.contains('.') => format!("{num}{p}"),
                                _ => continue,
                            }
                        } else {
                            match side {
                                0 => format!("{p}{num}"),
                                1 => format!("{num}{p}"),
                                _ => format!("{p}{num}{p}"),
                            }
                        };
                        let escaped = text.replace('\t', "\\t").replace('\n', "\\n");
                        let prog = format!("{builtin}(\"{escaped}\")");
                        sh.begin(&|| format!("{builtin} of {num} padded with {len} {pname} (side {side})"));
                        sh.count("family:padded-number-texts");
                        sh.nontrivial(&(builtin, num, pname, len, side));
                        check_padded(sh, builtin, num, &prog);
                    }
                }
            }
        }
    }
}

fn check_padded(sh: &mut Shard, builtin: &str, num: &str, prog: &str) {
    use crate::outcome::{run_text, ImplEnd};
    use crate::refint::ErrKind;
    let expected = if builtin == "int" { num.to_string() } else { crate::refint::render_float(num.parse::<f64>().unwrap()) };
    let o = run_text(prog, RunOpts { budget: Some(20_000), ledger: LEDGER.with(|c| c.get()), trace: false, render: true });
    let ok = match &o.end {
        ImplEnd::Value(v) => *v == expected,
        ImplEnd::Error(k) => *k == ErrKind::Argument,
        _ => false,
    };
    if !ok {
        sh.violation(
            "padded-number-texts",
            json!({"program": prog, "padded": {"builtin": builtin, "number": num}}),
            format!("{builtin} of the number text {num:?} with padding ({} bytes in all): {}, expected {expected} or an argument error", prog.len(), crate::common::impl_end_text(&o.end)),
        );
    }
}

/// The language's own words as TEXTS: every keyword, builtin name, type name, the spelling of every constant
/// and of special numbers in this and in neighbouring languages, with case variants and padding — through every
/// builtin, as a literal, from a variable, and as a text edited in place into that word.
fn words_as_texts(sh: &mut Shard) {
    let mut words: Vec<String> = Vec::new();
    for w in [
        "als", "anders", "zolang", "stel", "functie", "antwoord", "stop", "volgende", "ja", "nee", "print", "type", "bool", "int", "float", "string", "lengte", "null", "nul", "niks", "leeg", "true",
        "false", "waar", "onwaar", "nil", "none", "None", "undefined", "NaN", "nan", "inf", "-inf", "infinity", "Infinity", "0x10", "1_000", "1e5", "1,5", "[]", "[1]", "{}", "()", "array", "lijst", "tekst", "getal",
        "yes", "no", "y", "n", "0", "1", "00", "-0", "0.0", " ", "  ",
    ] {
        words.push(w.to_string());
        let up = w.to_uppercase();
        if up != w {
            words.push(up);
            let mut c = w.chars();
            if let Some(f) = c.next() {
                words.push(f.to_uppercase().collect::<String>() + c.as_str());
            }
        }
        words.push(format!(" {w}"));
        words.push(format!("{w} "));
    }
    for w in &words {
        for b in BUILTINS {
            case(sh, "words-as-texts", vec![es(calln(b, vec![string(w)]))]);
            case(sh, "words-as-texts", vec![let_("t", string(w)), es(calln(b, vec![id("t")]))]);
        }
        case(sh, "words-as-texts", vec![es(array(vec![infix(string(w), Operator::Eq, string(w)), infix(string(w), Operator::Eq, string("x")), calln("lengte", vec![string(w)])]))]);
        // the word made by an in-place edit of another text
        let chars: Vec<char> = w.chars().collect();
        if !chars.is_empty() && chars[chars.len() - 1] != '#' {
            let mut other = chars.clone();
            let last = other.len() - 1;
            other[last] = '#';
            let other: String = other.into_iter().collect();
            for b in ["bool", "int", "float", "lengte", "string"] {
                case(
                    sh,
                    "words-as-texts",
                    vec![let_("t", string(&other)), es(assign(index(id("t"), int(last as i64)), string(&chars[last].to_string()))), es(array(vec![calln(b, vec![id("t")]), infix(id("t"), Operator::Eq, string(w))]))],
                );
            }
        }
    }
}

/// Long texts that are not numbers, with a wide character across every byte offset: whatever a builtin does with
/// the text it was given (measure it, convert it, quote it in its refusal) it does by character. A 2-, 3- or
/// 4-byte character starts 1 byte before every offset 1..=140 and around 255 / 256 / 512 / 1000 / 1024 / 3000 /
/// 4096 (thorough: every offset to 1 100), behind letters, behind digits and behind other wide characters.
fn long_mixed_texts(sh: &mut Shard) {
    let mut offsets: Vec<usize> = (1..=140).collect();
    for c in [255usize, 256, 512, 1000, 1024, 3000, 4096] {
        offsets.extend(c - 2..=c + 2);
    }
    if sh.cfg.tier != Tier::Quick {
        offsets.extend(141..=1100);
        offsets.extend(2990..=3010);
        offsets.extend([6000usize, 8191, 8192, 8193, 9000, 10007, 12000, 65535, 65536, 65537]);
    }
    offsets.sort();
    offsets.dedup();
    for &p in &offsets {
        for wide in ["é", "日", "😀"] {
            for (fill, fw) in [("x", 1usize), ("1", 1), ("ß", 2)] {
                // the wide character starts at byte p - 1 (so that it lies across byte offset p)
                let lead = p - 1;
                let mut t = fill.repeat(lead / fw);
                t.push_str(&"x".repeat(lead % fw));
                t.push_str(wide);
                t.push_str("yz");
                t.push_str(wide);
                for b in BUILTINS {
                    if p > 300 && b == "print" {
                        continue;
                    }
                    case(sh, "long-mixed-texts", vec![es(calln(b, vec![string(&t)]))]);
                }
                case(sh, "long-mixed-texts", vec![let_("t", string(&t)), es(array(vec![calln("lengte", vec![id("t")]), index(id("t"), int_lit(-1)), index(id("t"), int_lit(-4)), calln("int", vec![index(id("t"), int_lit(-2))])]))]);
            }
        }
    }
}

fn run(sh: &mut Shard) {
    LEDGER.with(|c| c.set(false));
    words_as_texts(sh);
    long_mixed_texts(sh);
    padded_number_texts(sh);
    run_tables(sh);
    LEDGER.with(|c| c.set(true));
    run_tables(sh);
}

fn run_tables(sh: &mut Shard) {
    let tier = sh.cfg.tier;
    let big = alphabet();
    let small = small_alphabet();
    // no argument, one argument
    for b in BUILTINS {
        case(sh, "arity-0", vec![es(calln(b, vec![]))]);
        for v in &big {
            case(sh, "unary", vec![es(calln(b, vec![v.clone()]))]);
            // through a variable, and the result used again (shape of the returned value)
            case(sh, "unary", vec![let_("v", v.clone()), let_("r", calln(b, vec![id("v")])), es(calln("print", vec![calln("type", vec![id("r")]), id("r")])), es(id("r"))]);
            // conversion to the value's own type is the identity: converting twice equals converting once
            case(sh, "idempotent", vec![let_("r", calln(b, vec![v.clone()])), es(infix(calln("string", vec![calln(b, vec![id("r")])]), Operator::Eq, calln("string", vec![id("r")])))]);
        }
    }
    // two and three arguments
    let _ = tier;
    let two: &Vec<Expr> = &big;
    for b in BUILTINS {
        for x in two {
            for y in two {
                case(sh, "binary", vec![es(calln(b, vec![x.clone(), y.clone()]))]);
            }
        }
        for x in &small {
            for y in &small {
                for z in &small {
                    case(sh, "ternary", vec![es(calln(b, vec![x.clone(), y.clone(), z.clone()]))]);
                }
            }
        }
    }
    // round trips
    for i in lattice(tier, sh.cfg.seed) {
        case(sh, "roundtrip-int", vec![es(calln("int", vec![calln("string", vec![lit_expr(i)])]))]);
        case(sh, "roundtrip-int", vec![es(infix(calln("int", vec![calln("string", vec![lit_expr(i)])]), Operator::Eq, lit_expr(i)))]);
        case(sh, "roundtrip-int", vec![es(calln("string", vec![lit_expr(i)]))]);
        case(sh, "roundtrip-int", vec![es(calln("int", vec![calln("float", vec![lit_expr(i)])]))]);
        if i.abs() <= (1 << 53) {
            case(sh, "roundtrip-float", vec![es(calln("float", vec![calln("string", vec![calln("float", vec![lit_expr(i)])])]))]);
            case(sh, "roundtrip-float", vec![es(infix(calln("int", vec![calln("float", vec![lit_expr(i)])]), Operator::Eq, lit_expr(i)))]);
        }
        case(sh, "roundtrip-bool", vec![es(calln("bool", vec![lit_expr(i)]))]);
    }
    for f in super::c06::float_values() {
        case(sh, "roundtrip-float", vec![es(calln("float", vec![calln("string", vec![float_expr(f)])]))]);
        case(sh, "roundtrip-float", vec![es(calln("string", vec![float_expr(f)]))]);
        case(sh, "roundtrip-float", vec![es(calln("int", vec![float_expr(f)]))]);
        case(sh, "roundtrip-bool", vec![es(calln("bool", vec![float_expr(f)]))]);
    }
    // print: format strings of <= n pieces, 0..4 further arguments
    let pieces = ["{}", "{", "}", "a", " ", "é", "€", "😀"];
    let args: Vec<Expr> = vec![int(1), string("x"), string("{}"), boolean(true), array(vec![int(1), string("s")])];
    let maxp = if tier == Tier::Quick { 4 } else { 5 };
    let mut formats: Vec<String> = vec![String::new()];
    let mut frontier = vec![String::new()];
    for _ in 0..maxp {
        let mut next = Vec::new();
        for f in &frontier {
            for p in pieces {
                next.push(format!("{f}{p}"));
            }
        }
        formats.extend(next.iter().cloned());
        frontier = next;
    }
    for f in &formats {
        // argument tuples: all of length 0..2, and for 3 and 4 the tuples that start with every pair
        let mut tuples: Vec<Vec<Expr>> = vec![vec![]];
        for a in &args {
            tuples.push(vec![a.clone()]);
            for b in &args {
                tuples.push(vec![a.clone(), b.clone()]);
                tuples.push(vec![a.clone(), b.clone(), args[2].clone()]);
                tuples.push(vec![a.clone(), b.clone(), args[2].clone(), args[0].clone()]);
            }
        }
        for t in tuples {
            let mut a = vec![string(f)];
            a.extend(t);
            case(sh, "print-format", vec![es(calln("print", a))]);
        }
    }
    // magnitude ladders: every decimal and binary order of magnitude, every digit count
    for k in -40i32..=40 {
        for m in [1.0f64, 3.0, 9.99, 1.0 / 3.0] {
            for sign in [1.0f64, -1.0] {
                let x = sign * m * 10f64.powi(k);
                case(sh, "magnitude", vec![es(calln("string", vec![float_expr(x)]))]);
                case(sh, "magnitude", vec![es(infix(calln("float", vec![calln("string", vec![float_expr(x)])]), Operator::Eq, float_expr(x)))]);
                case(sh, "magnitude", vec![es(calln("int", vec![float_expr(x)]))]);
                case(sh, "magnitude", vec![es(calln("print", vec![string("{} {}"), float_expr(x), array(vec![float_expr(x)])]))]);
            }
        }
    }
    for k in -70i32..=70 {
        for m in [1.0f64, 1.5, 1.0000000000000002] {
            let x = m * 2f64.powi(k);
            case(sh, "magnitude", vec![es(calln("string", vec![float_expr(x)]))]);
            case(sh, "magnitude", vec![es(infix(calln("float", vec![calln("string", vec![float_expr(x)])]), Operator::Eq, float_expr(x)))]);
            case(sh, "magnitude", vec![es(calln("int", vec![float_expr(-x)]))]);
        }
    }
    for k in 0..=18u32 {
        for off in [-1i64, 0, 1] {
            for sign in [1i64, -1] {
                let i = sign * (10i64.pow(k) + off);
                if i.abs() >= (1 << 60) {
                    continue;
                }
                case(sh, "magnitude", vec![es(calln("string", vec![lit_expr(i)]))]);
                case(sh, "magnitude", vec![es(infix(calln("int", vec![calln("string", vec![lit_expr(i)])]), Operator::Eq, lit_expr(i)))]);
                case(sh, "magnitude", vec![es(calln("float", vec![lit_expr(i)]))]);
                case(sh, "magnitude", vec![es(calln("print", vec![string("{}|{}"), lit_expr(i), array(vec![lit_expr(i), lit_expr(-i)])]))]);
            }
        }
    }
    // digit strings of every length (the range ends lie at 19 digits), fractions of every length
    for len in 1..=24usize {
        for first in ['1', '9'] {
            let digits: String = std::iter::once(first).chain((1..len).map(|i| (b'0' + (i % 10) as u8) as char)).collect();
            case(sh, "magnitude", vec![es(calln("int", vec![string(&digits)]))]);
            case(sh, "magnitude", vec![es(calln("int", vec![string(&format!("-{digits}"))]))]);
            case(sh, "magnitude", vec![es(calln("float", vec![string(&format!("0.{digits}"))]))]);
            case(sh, "magnitude", vec![es(calln("float", vec![string(&format!("{digits}.5"))]))]);
        }
    }
    // every short decimal text: i.ff for i <= 20, d.fff, dd.f, and k/100 as a float through string() and back
    for i in 0..=20u32 {
        for f in 0..100u32 {
            let t = format!("{i}.{f:02}");
            case(sh, "decimal-text", vec![es(infix(calln("float", vec![string(&t)]), Operator::Eq, flt(t.parse().unwrap())))]);
            case(sh, "decimal-text", vec![es(calln("string", vec![calln("float", vec![string(&format!("-{t}"))])]))]);
        }
    }
    for d in 0..10u32 {
        for f in 0..1000u32 {
            let t = format!("{d}.{f:03}");
            case(sh, "decimal-text", vec![es(infix(calln("float", vec![string(&t)]), Operator::Eq, flt(t.parse().unwrap())))]);
        }
    }
    for k in 0..=2000u32 {
        let x = k as f64 / 100.0;
        case(sh, "decimal-text", vec![es(infix(calln("float", vec![calln("string", vec![float_expr(x)])]), Operator::Eq, float_expr(x)))]);
        let y = k as f64 * 1.1;
        case(sh, "decimal-text", vec![es(infix(calln("float", vec![calln("string", vec![float_expr(y)])]), Operator::Eq, float_expr(y)))]);
    }
    // digit patterns: every integer up to 20 000, and every a*10^k + b (zeros in the middle, trailing zeros) for
    // a, b <= 12 and k <= 17, both signs, through string() and back; sums of tenths as floats
    for i in 0..=20_000i64 {
        case(sh, "digit-patterns", vec![es(calln("string", vec![lit_expr(i)]))]);
    }
    for k in 1..=17u32 {
        for a in 1..=12i64 {
            for b in 0..=12i64 {
                let v = a * 10i64.pow(k) + b;
                if v >= (1 << 60) {
                    continue;
                }
                for sign in [1i64, -1] {
                    case(sh, "digit-patterns", vec![es(array(vec![calln("string", vec![lit_expr(sign * v)]), infix(calln("int", vec![calln("string", vec![lit_expr(sign * v)])]), Operator::Eq, lit_expr(sign * v))]))]);
                }
                case(sh, "digit-patterns", vec![es(calln("float", vec![lit_expr(v)]))]);
                case(sh, "digit-patterns", vec![es(calln("int", vec![string(&format!("{v}"))]))]);
            }
        }
    }
    // sparse-digit numbers: every number of up to 18 digits with at most three non-zero digits from {1, 9}
    // (all the zero runs a hand-written formatter or parser can meet), both signs
    {
        let mut vals: Vec<i64> = vec![];
        for p1 in 0..18u32 {
            for d1 in [1i64, 9] {
                let a = d1 * 10i64.pow(p1);
                vals.push(a);
                for p2 in 0..p1 {
                    for d2 in [1i64, 9] {
                        let b = a + d2 * 10i64.pow(p2);
                        vals.push(b);
                        for p3 in 0..p2 {
                            for d3 in [1i64, 9] {
                                vals.push(b + d3 * 10i64.pow(p3));
                            }
                        }
                    }
                }
            }
        }
        for v in vals {
            if v >= (1 << 60) {
                continue;
            }
            case(sh, "digit-patterns", vec![es(array(vec![calln("string", vec![lit_expr(v)]), calln("string", vec![lit_expr(-v)]), infix(calln("int", vec![calln("string", vec![lit_expr(v)])]), Operator::Eq, lit_expr(v))]))]);
            case(sh, "digit-patterns", vec![es(calln("int", vec![string(&format!("-{v}"))]))]);
        }
    }
    for i in 0..=30i64 {
        for j in 0..=30i64 {
            let e = infix(flt(i as f64 / 10.0), Operator::Add, flt(j as f64 / 10.0));
            case(sh, "digit-patterns", vec![es(calln("string", vec![e.clone()]))]);
            case(sh, "digit-patterns", vec![es(calln("int", vec![infix(e, Operator::Multiply, flt(10.0))]))]);
        }
    }
    for k in 53..60u32 {
        for off in [1i64, 3, 5, 1001, 123_457] {
            let v = (1i64 << k) + off;
            case(sh, "digit-patterns", vec![es(array(vec![calln("float", vec![lit_expr(v)]), calln("string", vec![calln("float", vec![lit_expr(v)])]), calln("int", vec![calln("float", vec![lit_expr(v)])])]))]);
        }
    }
    for t in ["12.50", "-0", "007", "-007", "0.0", "-0.0", "00.5", "5.", ".5", "1152921504606846975", "1152921504606846976", "-1152921504606846976", "-1152921504606846977", "9223372036854775807", "9223372036854775808", " 12", "12 ", "1 2", "0x10", "1,5", "1.5.2", "--1", "+-1", "1e", "e1", "٣"] {
        for b in ["int", "float", "bool", "lengte", "string", "type"] {
            case(sh, "digit-patterns", vec![es(calln(b, vec![string(t)]))]);
        }
    }
    // nested arrays with quotes, braces and integral floats, printed and converted
    for v in [
        array(vec![array(vec![array(vec![flt(1.0), flt(-0.0), string("q\"q"), string("{}")]), string("a b")]), flt(2.5), boolean(false)]),
        array(vec![string(""), array(vec![]), array(vec![array(vec![])])]),
        array(vec![flt(1e15), flt(1e16), flt(1e17), flt(123456789012345680.0), flt(0.000001), flt(1e-7)]),
    ] {
        case(sh, "digit-patterns", vec![es(calln("string", vec![v.clone()]))]);
        case(sh, "digit-patterns", vec![es(calln("print", vec![string("{} {}"), v.clone(), v.clone()]))]);
        case(sh, "digit-patterns", vec![es(calln("print", vec![v.clone()]))]);
        case(sh, "digit-patterns", vec![es(array(vec![calln("lengte", vec![v.clone()]), calln("bool", vec![v.clone()]), calln("type", vec![v])]))]);
    }
    // an argument whose text contains a placeholder, followed by another placeholder
    for fmt in ["{} {}", "{}{}", "a{}b{}c", "{} {} {}", "{{}} {}", "{} {{}}"] {
        for a1 in [string("{}"), string("x{}y"), string("{"), string("}"), array(vec![string("{}")])] {
            case(sh, "digit-patterns", vec![es(calln("print", vec![string(fmt), a1.clone(), int(7), string("z")]))]);
            case(sh, "digit-patterns", vec![es(calln("print", vec![string(fmt), int(7), a1]))]);
        }
    }
    // print with N placeholders and N, N-1, N+1 arguments (the call instruction carries at most 255)
    for n in [1usize, 2, 3, 5, 7, 8, 9, 15, 16, 17, 31, 32, 33, 63, 64, 65, 127, 128, 129, 200, 253] {
        for delta in [-1i64, 0, 1] {
            let nargs = (n as i64 + delta).max(0) as usize;
            let mut a = vec![string(&"{}-".repeat(n))];
            a.extend((0..nargs).map(|i| if i % 2 == 0 { int(i as i64) } else { string(&format!("s{i}")) }));
            case(sh, "magnitude", vec![es(calln("print", a))]);
        }
    }
    // a first argument that is not a text but whose RENDERING contains placeholders (a list shows its texts
    // unquoted), with 0..3 further arguments; and such values as the further arguments (substituted text is not
    // scanned again)
    {
        let holders: Vec<Expr> = vec![
            array(vec![string("{}")]),
            array(vec![string("{}"), string("en {}")]),
            array(vec![array(vec![string("a{}b")]), int(1)]),
            array(vec![int(1), string("{} {}"), flt(1.5)]),
            array(vec![string("{"), string("}")]),
            array(vec![string("{}{}{}")]),
        ];
        for h in &holders {
            for nargs in 0..=3usize {
                let mut a = vec![h.clone()];
                a.extend((0..nargs).map(|i| if i % 2 == 0 { int(i as i64 + 1) } else { string("twee") }));
                case(sh, "print-first", vec![es(calln("print", a.clone()))]);
                case(sh, "print-first", vec![let_("l", h.clone()), es(calln("print", std::iter::once(id("l")).chain(a[1..].iter().cloned()).collect()))]);
            }
            case(sh, "print-first", vec![es(calln("print", vec![string("<{}> <{}>"), h.clone(), int(7)]))]);
            case(sh, "print-first", vec![es(calln("print", vec![h.clone(), h.clone(), string("{}")]))]);
        }
    }
    for v in &big {
        case(sh, "print-first", vec![es(calln("print", vec![v.clone(), int(1), string("x")]))]);
        case(sh, "print-first", vec![es(calln("print", vec![string("<{}> <{}>"), v.clone(), v.clone()]))]);
    }
}

fn replay(sh: &mut Shard, case: &Value) {
    sh.mine();
    if let (Some(b), Some(n), Some(p)) = (case["padded"]["builtin"].as_str(), case["padded"]["number"].as_str(), case["program"].as_str()) {
        check_padded(sh, b, n, p);
        return;
    }
    if let Some(p) = case["program"].as_str() {
        crate::common::differential_text(sh, "replay", p, None, opts());
    }
}

fn vacuity(m: &Merged) -> Option<String> {
    for fam in ["magnitude", "decimal-text", "digit-patterns", "arity-0", "unary", "idempotent", "binary", "ternary", "roundtrip-int", "roundtrip-float", "print-format", "print-first"] {
        if m.counters.get(&format!("family:{fam}")).copied().unwrap_or(0) == 0 {
            return Some(format!("family {fam} produced no case"));
        }
    }
    if m.counters.get("excluded:U11").copied().unwrap_or(0) * 4 > m.cases {
        return Some("more than a quarter of the cases fell under U11".into());
    }
    None
}
