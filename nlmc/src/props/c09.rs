//! C09 — names resolve lexically; undeclared names are rejected before anything runs (DESIGN 5, C09).

use super::Prop;
use crate::astx;
use crate::common::{differential, impl_end_text};
use crate::gen::{int, let_};
use crate::outcome::{run_ast, ImplEnd, ImplOutcome, RunOpts};
use crate::pool::Merged;
use crate::printer;
use crate::refint::{End, ErrKind};
use crate::shard::Shard;
use crate::slices;
use nederlang::verif::Stmt;
use serde_json::{json, Value};

pub fn prop() -> Prop {
    Prop {
        id: "C09",
        level: "exploration",
        rule: "every program of the scope slice (declarations with distinct literals so that the value read identifies the declaration resolved, assignments, prints, blocks, als, a one-shot loop, named functions f(p) in blocks and in functions, calls, over the names a, b, f, p) up to N nodes, plus the nested-function directed family and the block-function family (functions defined in top-level blocks / als branches / loop bodies nested to depth 3 with every subset of levels declaring the same name, reading and writing it, called inside the scope); for each base program the reference interpreter's outcome, and exhaustively: (r) every consistent renaming of one declaration and exactly the uses the model binds to it to a fresh name, (s) insertion of an unused `stel z = 0` before every statement of every statement list, and of a shadowing `stel a = 9` wherever no later mention of `a` follows in that list, both of which must leave value, output and error unchanged; (u) replacement of each single identifier occurrence by an undeclared name, which must give a reference error with EMPTY output; (e) there are exactly seven builtin names: every name of up to 3 lower-case letters and ~250 words a builtin could plausibly be called must be refused when called undeclared and must reach the user's function when declared; (d) an undeclared name in 11 kinds of use x 12 kinds of code that can never run (after antwoord / stop / volgende, in branches not taken, in loops that never run, in functions never called, after output, after a failing statement) must be refused all the same. Non-trivial = the base program declares at least one name and is defined by the model; distinct = distinct texts",
        assumptions: &["static resolution rules of refint::Resolver (DESIGN 4.2 Names) are the specification", "U1/U2/U6/U7 programs are excluded from the base set"],
        run,
        replay,
        vacuity,
    }
}

fn opts() -> RunOpts {
    RunOpts { budget: Some(20_000), ledger: false, trace: false, render: true }
}

fn same(a: &ImplOutcome, b: &ImplOutcome) -> bool {
    a.end == b.end && a.output == b.output
}

/// All variants of one base program. Returns the number of variant runs.
pub fn check_program(sh: &mut Shard, base: &[Stmt]) -> u64 {
    let mut runs = 0;
    let r = match differential(sh, "resolution", base, opts()) {
        Some(r) => r,
        None => return 0,
    };
    runs += 1;
    if matches!(r.model.end, End::Unspec(_) | End::Diverge) {
        return runs;
    }
    if r.verdict.is_some() {
        return runs; // already reported
    }
    let text = printer::program(base);
    let base_ast: Vec<Stmt> = base.to_vec();
    let reference_error = matches!(r.model.end, End::Error(crate::refint::MErr::Kind(ErrKind::Reference)));
    // (r) renaming
    if let Some(res) = astx::resolve(&base_ast) {
        if res.next_decl > 0 {
            sh.nontrivial(&text);
        }
        for d in 0..res.next_decl {
            let mut v = base_ast.clone();
            // resolve the clone itself: resolution tables are keyed by node address
            let vres = match astx::resolve(&v) {
                Some(x) => x,
                None => break,
            };
            astx::rename_decl(&mut v, &vres, d, "zq");
            let o = run_ast(&v, opts());
            runs += 1;
            sh.count("variants:rename");
            if !same(&o, &r.imp) {
                sh.violation(
                    "rename",
                    json!({"program": text, "variant": printer::program(&v), "transformation": format!("declaration #{d} and its uses renamed to zq")}),
                    format!("renaming changed the outcome: {} / {:?} became {} / {:?}", impl_end_text(&r.imp.end), r.imp.output, impl_end_text(&o.end), o.output),
                );
                return runs;
            }
        }
    }
    if !reference_error {
        // (s) padding declarations
        let mut nlists = 0;
        {
            let mut probe = base_ast.clone();
            astx::visit_lists_mut(&mut probe, &mut |_| nlists += 1);
        }
        for li in 0..nlists {
            // positions of list li
            let mut len = 0;
            {
                let mut probe = base_ast.clone();
                let mut k = 0;
                astx::visit_lists_mut(&mut probe, &mut |l| {
                    if k == li {
                        len = l.len();
                    }
                    k += 1;
                });
            }
            for pos in 0..len {
                for shadow in [false, true] {
                    let mut v = base_ast.clone();
                    let mut k = 0;
                    let mut applicable = true;
                    astx::visit_lists_mut(&mut v, &mut |l| {
                        if k == li {
                            if shadow {
                                if astx::mentions(&l[pos..], "a") {
                                    applicable = false;
                                } else {
                                    l.insert(pos, let_("a", int(9)));
                                }
                            } else {
                                l.insert(pos, let_("z", int(0)));
                            }
                        }
                        k += 1;
                    });
                    if !applicable {
                        continue;
                    }
                    // a shadowing declaration at the top level of a function body or of the program is
                    // visible to functions called later: only blocks are safe; keep it to inner lists
                    if shadow && li == 0 {
                        continue;
                    }
                    let o = run_ast(&v, opts());
                    runs += 1;
                    sh.count(if shadow { "variants:shadow" } else { "variants:pad" });
                    if !same(&o, &r.imp) {
                        sh.violation(
                            "padding",
                            json!({"program": text, "variant": printer::program(&v), "transformation": if shadow { "unused shadowing stel a = 9 inserted" } else { "unused stel z = 0 inserted" }}),
                            format!("an unused declaration changed the outcome: {} / {:?} became {} / {:?}", impl_end_text(&r.imp.end), r.imp.output, impl_end_text(&o.end), o.output),
                        );
                        return runs;
                    }
                }
            }
        }
        // (u) one occurrence undeclared
        let n = astx::count_ident_uses(&base_ast);
        for k in 0..n {
            let mut v = base_ast.clone();
            astx::replace_ident_use(&mut v, k, "undeclared_q");
            let o = run_ast(&v, opts());
            runs += 1;
            sh.count("variants:undeclared");
            let ok = o.end == ImplEnd::Error(ErrKind::Reference) && o.output.is_empty();
            if !ok {
                sh.violation(
                    "undeclared",
                    json!({"program": text, "variant": printer::program(&v), "transformation": format!("identifier occurrence #{k} replaced by an undeclared name")}),
                    format!("expected a reference error before any output, got {} after output {:?}", impl_end_text(&o.end), o.output),
                );
                return runs;
            }
        }
    }
    runs
}

/// Pairs of DIFFERENT names (or texts) that a shortcut could take for one another.
pub fn confusable_pairs() -> Vec<(String, String)> {
    let long = |c: &str, tail: &str| format!("{}{}", c.repeat(8), tail);
    let pairs: Vec<(String, String)> = vec![
            ("Aa".into(), "BB".into()),
            ("AaAa".into(), "BBBB".into()),
            ("AaBB".into(), "BBAa".into()),
            ("kamerAa".into(), "kamerBB".into()),
            ("az".into(), "bY".into()),
            ("ab".into(), "ba".into()),
            ("abc".into(), "acb".into()),
            ("abc".into(), "xyz".into()),
            ("ad".into(), "bc".into()),
            ("naam".into(), "Naam".into()),
            ("naam".into(), "NAAM".into()),
            ("a".into(), "A".into()),
            ("x1".into(), "x2".into()),
            ("x_1".into(), "x1".into()),
            ("_a".into(), "a_".into()),
            (long("a", "1"), long("a", "2")),
            (long("ab", "1"), long("ab", "2")),
            (long("abcd", "1"), long("abcd", "2")),
            (format!("1{}", "a".repeat(8)).replace('1', "b"), format!("c{}", "a".repeat(8))),
            (format!("x{}", "a".repeat(32)), format!("y{}", "a".repeat(32))),
            ("a".repeat(255), "a".repeat(256)),
            ("a".into(), "\u{430}".into()),
            ("e".into(), "\u{e9}".into()),
            ("\u{e9}".into(), "\u{ea}".into()),
            ("ss".into(), "\u{df}".into()),
            ("k".into(), "\u{212a}".into()),
            ("\u{3c9}".into(), "\u{3a9}".into()),
    ];
    pairs
}

fn run(sh: &mut Shard) {
    let tier = sh.cfg.tier;
    // slot-number ladders: many globals / nested block locals, each read back
    crate::ladders::run_family(sh, "scope", Some("scope"), false);
    for prog in slices::block_function_programs() {
        if !sh.mine() {
            continue;
        }
        sh.begin(&|| printer::program(&prog));
        sh.count("family:directed-block-functions");
        let n = check_program(sh, &prog);
        sh.add("runs", n);
    }
    // scope events x kinds of use: which declaration does each kind of use resolve to after each scope event
    slices::scope_event_programs(2, &mut |prog| {
        if !sh.mine() {
            return;
        }
        sh.begin(&|| printer::program(&prog));
        sh.count("family:scope-events");
        let n = check_program(sh, &prog);
        sh.add("runs", n);
    });
    // pairs of DIFFERENT names that a shortcut could take for one: equal under the usual string hashes (x31, x33,
    // sum, xor), anagrams, equal length, equal in the first or last 8 / 16 / 32 bytes, equal up to case, look-alike
    // letters of another script — both declared (each keeps its own value), and only one declared (the other is
    // refused), at top level, as parameters, in a block inside a function
    {
        use crate::gen::*;
        use nederlang::verif::Operator;
        let pairs = confusable_pairs();
        for (n1, n2) in &pairs {
            let progs: Vec<Vec<Stmt>> = vec![
                vec![let_(n1, int(1)), let_(n2, int(2)), es(assign(id(n1), infix(id(n1), Operator::Add, int(10)))), es(array(vec![id(n1), id(n2)]))],
                vec![let_(n2, int(2)), let_(n1, int(1)), es(array(vec![id(n1), id(n2)]))],
                vec![let_(n1, int(1)), print1(id(n1)), es(id(n2))],
                vec![let_(n2, int(2)), print1(id(n2)), es(id(n1))],
                vec![es(func("f", &[n1.as_str(), n2.as_str()], vec![es(iff(boolean(true), vec![let_("tussen", infix(id(n1), Operator::Multiply, int(10))), es(infix(id("tussen"), Operator::Add, id(n2)))], None))])), es(calln("f", vec![int(1), int(2)]))],
                vec![es(func("f", &[n1.as_str()], vec![es(iff(boolean(true), vec![let_(n2, int(10)), es(infix(id(n1), Operator::Add, id(n2)))], None))])), es(calln("f", vec![int(1)]))],
                vec![es(func("f", &[n1.as_str()], vec![es(id(n2))])), es(calln("f", vec![int(1)]))],
                vec![let_(n1, int(1)), Stmt::Block(vec![let_(n2, int(2)), print1(id(n1))]), es(id(n1))],
            ];
            for prog in progs {
                if !sh.mine() {
                    continue;
                }
                sh.begin(&|| printer::program(&prog));
                sh.count("family:confusable-names");
                let n = check_program(sh, &prog);
                sh.add("runs", n);
            }
        }
    }
    for prog in slices::nested_function_programs() {
        if !sh.mine() {
            continue;
        }
        sh.begin(&|| printer::program(&prog));
        sh.count("family:directed-nested");
        let n = check_program(sh, &prog);
        sh.add("runs", n);
    }
    // directed: a name declared twice in one scope with a function in between that reads / writes / is the
    // first one; the function is called before and after the second declaration, directly and through an alias
    {
        use crate::gen::*;
        use nederlang::verif::Operator;
        let bodies: Vec<Vec<Stmt>> = vec![
            vec![es(id("a"))],
            vec![es(assign(id("a"), infix(id("a"), Operator::Add, int(7)))), es(id("a"))],
            vec![print1(id("a")), es(int(0))],
        ];
        for body in &bodies {
            for named in [false, true] {
                for in_block in [false, true] {
                    // (how the name is declared the first and the second time: a variable, a named function
                    // statement, a variable holding a function literal)
                    for calls in 0..4 { for first in 0..3 { for second in 0..3 {
                        let decl = |kind: usize, v: i64| match kind {
                            0 => let_("a", int(v)),
                            1 => es(func("a", &[], vec![es(int(v))])),
                            _ => let_("a", func("", &[], vec![es(int(v))])),
                        };
                        let fdef = if named { es(func("f", &[], body.clone())) } else { let_("f", func("", &[], body.clone())) };
                        let mut p: Vec<Stmt> = vec![decl(first, 1), fdef, let_("g", id("f"))];
                        if calls & 1 != 0 {
                            p.push(print1(calln("f", vec![])));
                        }
                        p.push(decl(second, 10));
                        if second != 0 {
                            p.push(print1(calln("a", vec![])));
                        }
                        if calls & 2 != 0 {
                            p.push(print1(calln("g", vec![])));
                        }
                        p.push(print1(infix(infix(calln("f", vec![]), Operator::Multiply, int(100)), Operator::Add, id("a"))));
                        p.push(es(id("a")));
                        let prog = if in_block { vec![let_("outer", int(5)), Stmt::Block(p), es(id("outer"))] } else { p };
                        if !sh.mine() {
                            continue;
                        }
                        sh.begin(&|| printer::program(&prog));
                        sh.count("family:directed-redeclaration");
                        let n = check_program(sh, &prog);
                        sh.add("runs", n);
                    } } }
                }
            }
        }
        // the same for a recursive function that is re-declared while an alias of the old one is still in use
        for in_block in [false, true] {
            let p: Vec<Stmt> = vec![
                let_("f", func("", &["n"], vec![es(iff(infix(id("n"), Operator::Lt, int(1)), vec![Stmt::Return(int(0))], None)), es(infix(int(1), Operator::Add, calln("f", vec![infix(id("n"), Operator::Subtract, int(1))])))])),
                let_("g", id("f")),
                let_("f", func("", &["n"], vec![es(int(100))])),
                es(infix(calln("g", vec![int(3)]), Operator::Add, calln("f", vec![int(3)]))),
            ];
            let prog = if in_block { vec![Stmt::Block(p)] } else { p };
            if !sh.mine() {
                continue;
            }
            sh.begin(&|| printer::program(&prog));
            sh.count("family:directed-redeclaration");
            let n = check_program(sh, &prog);
            sh.add("runs", n);
        }
    }
    // an undeclared name ANYWHERE is refused before anything runs: also in code that can never run
    {
        use crate::gen::*;
        use nederlang::verif::{Expr, Operator};
        let uses: Vec<Stmt> = vec![
            es(id("zz")),
            print1(id("zz")),
            es(assign(id("zz"), int(1))),
            es(calln("zz", vec![])),
            es(array(vec![int(1), id("zz")])),
            let_("q", infix(int(1), Operator::Add, id("zz"))),
            es(index(id("arr"), id("zz"))),
            es(func("inner", &[], vec![es(id("zz"))])),
            es(iff(id("zz"), vec![], None)),
            es(whil(boolean(false), vec![es(id("zz"))])),
            Stmt::Return(id("zz")),
        ];
        type Tpl = fn(Stmt) -> Vec<Stmt>;
        let templates: Vec<(&str, Tpl)> = vec![
            ("after antwoord", |h| vec![es(func("f", &["x"], vec![Stmt::Return(id("x")), h])), es(calln("f", vec![int(1)]))]),
            ("after antwoord in both branches", |h| vec![es(func("f", &["x"], vec![es(iff(id("x"), vec![Stmt::Return(int(1))], Some(vec![Stmt::Return(int(2))]))), h])), es(calln("f", vec![boolean(true)]))]),
            ("after antwoord in an inner block", |h| vec![es(func("f", &[], vec![Stmt::Block(vec![Stmt::Return(int(1))]), h])), es(calln("f", vec![]))]),
            ("after stop", |h| vec![es(func("f", &[], vec![es(whil(boolean(true), vec![Stmt::Break, h])), es(int(1))])), es(calln("f", vec![]))]),
            ("after volgende", |h| vec![es(func("f", &[], vec![let_("i", int(0)), es(whil(infix(id("i"), Operator::Lt, int(2)), vec![es(op_assign("i", Operator::Add, int(1))), Stmt::Continue, h])), es(id("i"))])), es(calln("f", vec![]))]),
            ("in a branch not taken", |h| vec![es(func("f", &[], vec![es(iff(boolean(false), vec![h], None)), es(int(1))])), es(calln("f", vec![]))]),
            ("in the alternative not taken", |h| vec![es(func("f", &[], vec![es(iff(boolean(true), vec![es(int(1))], Some(vec![h]))), es(int(1))])), es(calln("f", vec![]))]),
            ("in a loop that never runs", |h| vec![es(func("f", &[], vec![es(whil(boolean(false), vec![h])), es(int(1))])), es(calln("f", vec![]))]),
            ("in a function that is never called", |h| vec![es(func("nooit", &[], vec![h, es(int(0))])), es(int(1))]),
            ("after output", |h| vec![print1(int(1)), es(func("f", &[], vec![print1(int(2)), h, es(int(0))])), es(calln("f", vec![]))]),
            ("after a statement that fails at run time", |h| vec![es(func("f", &[], vec![es(infix(int(1), Operator::Add, boolean(true))), h, es(int(0))])), es(calln("f", vec![]))]),
            ("after a top-level failure", |h| vec![es(infix(int(1), Operator::Add, boolean(true))), es(func("f", &[], vec![h, es(int(0))]))]),
        ];
        for (where_, tpl) in &templates {
            for u in &uses {
                if !sh.mine() {
                    continue;
                }
                let mut prog = vec![let_("arr", array(vec![int(1)]))];
                prog.extend(tpl(u.clone()));
                sh.begin(&|| printer::program(&prog));
                sh.count("family:undeclared-in-dead-code");
                let _ = where_;
                if let Some(r) = differential(sh, "undeclared", &prog, RunOpts { budget: Some(10_000), ledger: false, trace: false, render: true }) {
                    if !matches!(r.model.end, End::Error(_)) || !r.model.output.is_empty() {
                        sh.machinery(format!("the model does not refuse {} before any output", printer::program(&prog)));
                        return;
                    }
                    sh.nontrivial(&printer::program(&prog));
                    let _: Option<Expr> = None;
                }
            }
        }
    }
    // there are exactly seven builtin names: every other name is the user's. Every name of up to 3 lower-case
    // letters and ~250 words a builtin could plausibly be called (Dutch and English) must be refused when it
    // is called without a declaration, and must call the user's function when there is one
    {
        use crate::gen::*;
        use nederlang::verif::Operator;
        let builtins = ["print", "type", "bool", "int", "float", "string", "lengte"];
        let keywords = ["als", "anders", "zolang", "functie", "stel", "ja", "nee", "stop", "volgende", "antwoord"];
        let mut names: Vec<String> = Vec::new();
        for a in b'a'..=b'z' {
            names.push((a as char).to_string());
            for b in b'a'..=b'z' {
                names.push(format!("{}{}", a as char, b as char));
                for c in b'a'..=b'z' {
                    names.push(format!("{}{}{}", a as char, b as char, c as char));
                }
            }
        }
        for w in "toon druk drukaf druk_af afdrukken schrijf schrijven zeg laat_zien weergeven uitvoer echo puts println printf write writeln log say show display output \
                  soort typeof type_of typevan aard klasse kind class is_a \
                  getal geheel geheelgetal integer toint to_int naar_getal parseint parse_int number num nummer afronden round floor ceil trunc \
                  kommagetal komma decimaal tofloat to_float double real breuk reeel parsefloat \
                  waarheid boolean tobool to_bool logisch waar onwaar \
                  tekst str tostring to_string naar_tekst tekenreeks draad chr char repr format formatteer \
                  len length size grootte aantal count omvang lang \
                  invoer input lees read readline vraag prompt \
                  lijst array list vector reeks rij push pop append toevoegen voegtoe verwijder remove insert sorteer sort omgekeerd reverse bevat contains zoek find index indexof \
                  min max abs som sum gemiddelde mean wortel sqrt macht pow sin cos tan exp ln log10 willekeurig random rand tijd time klok clock nu now datum date slaap sleep wacht wait \
                  exit stoppen quit halt einde afsluiten assert controleer bewering fout error gooi throw raise probeer try vang catch \
                  range bereik van tot elk each foreach map filter reduce vouw fold zip enumerate keys values sleutels waarden \
                  upper lower hoofdletters kleine_letters trim strip split splits join voegsamen vervang replace begint_met eindigt_met starts_with ends_with substr substring deel slice \
                  null nul niets niks leeg none nil undefined void waarde value object dict map_ set verzameling tuple paar pair \
                  main hoofd start begin einde_ end import use gebruik laad load require module pakket package eval exec compile run voer_uit uitvoeren debug trace dump inspect help"
            .split_whitespace()
        {
            names.push(w.to_string());
        }
        names.sort();
        names.dedup();
        for name in names {
            if builtins.contains(&name.as_str()) || keywords.contains(&name.as_str()) {
                continue;
            }
            if !sh.mine() {
                continue;
            }
            sh.begin(&|| format!("the name {name} is the user's"));
            sh.count("family:names-are-the-users");
            // called without a declaration: refused before anything runs
            let p1 = vec![print1(int(1)), es(calln(&name, vec![int(1)]))];
            if let Some(r) = differential(sh, "undeclared", &p1, RunOpts { budget: Some(10_000), ledger: false, trace: false, render: true }) {
                if !matches!(r.model.end, End::Error(_)) || !r.model.output.is_empty() {
                    // a word the parser does not take for an identifier: outside this family
                    sh.count("names-not-identifiers");
                    continue;
                }
                sh.nontrivial(&name);
            }
            // declared by the user (as a function, and as a plain variable holding one inside a block): the user's is called
            let p2 = vec![es(func(&name, &["x"], vec![Stmt::Return(infix(id("x"), Operator::Multiply, int(2)))])), es(calln(&name, vec![int(21)]))];
            differential(sh, "shadowing", &p2, RunOpts { budget: Some(10_000), ledger: false, trace: false, render: true });
            let p3 = vec![Stmt::Block(vec![let_(&name, func("", &["x"], vec![es(infix(id("x"), Operator::Add, int(1)))])), print1(calln(&name, vec![int(1)]))])];
            differential(sh, "shadowing", &p3, RunOpts { budget: Some(10_000), ledger: false, trace: false, render: true });
        }
    }
    let sl = slices::scope_slice();
    slices::for_each_program(&sl, tier, sh, &mut |sh, prog| {
        if !sh.mine() {
            return sh.running();
        }
        let mut p: Vec<Stmt> = prog.to_vec();
        astx::renumber_lets(&mut p);
        sh.begin(&|| printer::program(&p));
        sh.count("family:scope");
        let n = check_program(sh, &p);
        sh.add("runs", n);
        if sh.index() % 30_011 == 0 {
            sh.sample(json!({"program": printer::program(&p), "variant_runs": n}));
        }
        sh.running()
    });
}

fn replay(sh: &mut Shard, case: &Value) {
    sh.mine();
    if let Some(p) = case["program"].as_str() {
        if let crate::common::Parsed::Ok(ast) = crate::common::parse_guarded(p) {
            check_program(sh, &ast);
        }
    }
}

fn vacuity(m: &Merged) -> Option<String> {
    for k in ["variants:rename", "variants:pad", "variants:shadow", "variants:undeclared"] {
        if m.counters.get(k).copied().unwrap_or(0) < 1000 {
            return Some(format!("fewer than 1000 {k}"));
        }
    }
    None
}
