//! C17 — a retained session behaves like one growing program (DESIGN 5, C17).

use super::Prop;
use crate::common::{impl_end_text, model_end_text, parse_guarded, Parsed};
use crate::outcome::{classify_err, panic_message, render_object, ImplEnd};
use crate::pool::Merged;
use crate::refint::{End, Interp, MErr, ModelOutcome};
use crate::shard::{hash64, Shard, Tier};
use nederlang::compiler::Compiler;
use nederlang::verif::{self, BlockStmt};
use nederlang::vm::VM;
use serde_json::{json, Value};
use std::collections::{HashSet, VecDeque};
use std::panic::{catch_unwind, AssertUnwindSafe};

pub fn prop() -> Prop {
    Prop {
        id: "C17",
        level: "model_checking",
        rule: "sessions on a REAL retained (Compiler, VM) pair, every line fed through the real parse -> compile_ast -> run: (1) all sessions of <= 3 lines over a 52-line alphabet (declarations, re-declarations, assignments, expressions over earlier globals, a loop, self-contained function definitions with calls, a block with a local, heap-valued lines, three parse failures, compile failures at every statement position, run-time failures after k completed assignments and inside a nested call); (2) crash points: for every session of <= 2 lines and every line of it, the injected failure after k instructions for EVERY k up to the line's length, followed by probe lines reading every global; (3) breadth-first search to depth d over a 14-line core alphabet with states merged on the fingerprint of compiler + VM + model environment. (6) failing-lines ladder: N consecutive lines that fail inside a nested call with operands pending (N around every power of two up to 4097 / 16 385: about 20 operands are pending when each fails, so 3 300 lines would fill the 65 535-slot stack if anything accumulated), then a declaration, a 5 000-deep recursion and a read-back. (5) session-length ladder: N lines each adding a global and new constants (integers, floats and strings, or a function per line), N around every power of two up to 1025, three failing lines in the middle, earlier and newest globals read back along the way. (4) long sessions, deviation-bounded: six ordinary ten-line sessions (declarations, re-declarations, blocks, loops, functions, heap values, output), every crash point of every one of their lines with the rest of the session as continuation, and every insertion of ONE or TWO lines from a 68-line deviation set (since round 22 with every kind of run-time failure at its own site: inside builtins, operators, indexing, calls, arithmetic limits) (three of them huge: code beyond 16-bit addressing) (parse / compile / run-time failures at several statement positions, in blocks, in functions, after output and after completed effects, misplaced stop, re-declaration, empty line) at every position: sessions of up to 12 lines. Oracle: a session model on the reference interpreter (a line that fails before running contributes nothing, a line that fails while running contributes exactly the effects it completed: the declarations of the failing statement and of those after it never happened, the names keep their earlier meaning or none), equality of every line's value/output/error kind; for an injected failure the state afterwards must equal the model after SOME prefix of the line's effects; sessions without failing lines must also agree with eval of the concatenated text. The shadow heap stays on across lines. (7) the REAL interactive prompt: the repository's command-line program (unoptimised and release build) fed the base sessions with every insertion of one deviation line (thorough: pairs) and sessions of 65 / 257 / 1 025 lines on standard input; after every prompt the line's output and value as the model has them, every failing line survived, the process ends with its input",
        assumptions: &[
            "calls to a function defined by an EARLIER line are outside the property (upstream limitation) and not in the alphabet",
            "results handed back by run() are not released by the harness in session mode (they may alias globals or constants)",
        ],
        run,
        replay,
        vacuity,
    }
}

pub const LINES: &[&str] = &[
    // declarations, assignments, expressions over earlier globals
    "stel a = 1",
    "stel b = a",
    "stel a = 5",
    "stel c = a + b",
    "a = a + 1",
    "b = 10",
    "a += 2",
    "a",
    "b",
    "a + b",
    "c",
    "a < b",
    // loop, function with call, block with local
    "stel i = 0; zolang i < 3 { i += 1; a += 1 } a",
    "functie f(x) { x * 2 } f(a)",
    "stel r = functie(n) { als n < 1 { antwoord 0 } n + r(n - 1) }; r(3)",
    "{ stel t = a; t + 1 }",
    "als a > 1 { b = 7 } anders { b = 8 } b",
    // heap-valued lines
    "stel s = \"x\"",
    "s",
    "lengte(s)",
    "stel l = [1.5, s]",
    "l[1]",
    "l[0] = 2.5",
    "s[0] = \"y\"",
    "print(l, s)",
    "stel fl = 0.5 + 0.25",
    "fl",
    "l = [l, fl]",
    "functie mk(x) { [x, 2.5] } l = mk(s); l",
    // a global's heap value handed out as a line's result, modified afterwards, then a collection
    "l",
    "l[0] = string(a); 0",
    "l[0]",
    "functie col() { stel q = \"zzz\"; 1 } col()",
    "stel m = [l, string(b)]",
    "m",
    // parse failures
    "stel = 1",
    "(1 +",
    "als ja {",
    // compile failures at each statement position / nesting
    "zz",
    "stel d = 1; zz; stel e = 2",
    "stel d = 1; stel e = zz",
    "zz; stel d = 1",
    "{ stel d = 1; zz }",
    "als ja { stel d = 1; zz }",
    "zolang nee { zz }",
    "functie g() { stel d = 1; zz } 1",
    "zolang nee { functie g2() { zz } }",
    "stop",
    "a = zz",
    "stel d = 3",
    "d",
    // run-time failures
    "a = a + 1; b = 20; 1 + ja; a = 99",
    "functie h(x) { x + ja } a = 7; h(1); a = 8",
    "stel n = 1; n / 0",
    "[1][5]",
    "stel q = 4; q / 0",
    "q",
    "stel w = [1]; w[0] = \"z\"; w[3]; w[0] = 5",
];

const CORE: &[&str] = &[
    "stel a = 1",
    "stel a = 5",
    "a = a + 1",
    "a",
    "stel s = \"x\"",
    "s",
    "stel l = [1.5, \"s\"]",
    "l",
    "l[0] = string(7); 0",
    "l[0]",
    "functie f(x) { stel q = \"zzz\"; [x, q] } f(2)",
    "stel d = 1; zz",
    "als ja { stel d = 1; zz }",
    "a = a + 1; 1 + ja; a = 99",
    "functie h(x) { x + ja } a = 7; h(1)",
    "(1 +",
];

const PROBES: &[&str] = &["a", "b", "c", "s", "l", "i", "n", "q", "w", "d"];

struct Real {
    compiler: Compiler,
    vm: VM,
}

#[derive(Clone, Debug, PartialEq)]
struct Step {
    end: ImplEnd,
    output: String,
    heap: Vec<String>,
    steps: u64,
}

impl Real {
    fn new() -> Self {
        Real { compiler: Compiler::new(), vm: VM::new() }
    }

    /// One line through the real pipeline; `budget` injects a failure after that many instructions.
    fn line(&mut self, ast: &Result<BlockStmt, String>, budget: Option<u64>) -> Step {
        verif::capture_start();
        verif::set_budget(Some(budget.unwrap_or(200_000)));
        let r = match ast {
            Err(_) => Ok(Err(nederlang::object::Error::SyntaxError("parse".into()))),
            Ok(ast) => {
                let (c, v) = (&mut self.compiler, &mut self.vm);
                catch_unwind(AssertUnwindSafe(|| {
                    let code = c.compile_ast(ast)?;
                    v.run(code)
                }))
            }
        };
        let steps = verif::steps();
        let output = verif::capture_take();
        let end = match r {
            Err(p) => ImplEnd::Panic(format!("{} [{}]", panic_message(p), crate::outcome::last_panic_loc())),
            Ok(Err(e)) => classify_err(&e),
            Ok(Ok(o)) => ImplEnd::Value(render_object(o)),
        };
        let heap: Vec<String> = verif::heap_events_take()
            .iter()
            .filter(|e| e.kind == "use-after-free" || e.kind == "double-free" || e.kind == "reachable-freed")
            .map(|e| format!("{}#{}", e.kind, e.serial))
            .collect();
        Step { end, output, heap, steps }
    }

    fn fingerprint(&self) -> String {
        format!("{} || {}", self.compiler.verif_fingerprint(), self.vm.verif_fingerprint())
    }
}

fn parse_all(lines: &[String]) -> Vec<Result<BlockStmt, String>> {
    lines
        .iter()
        .map(|l| match parse_guarded(l) {
            // (U9: a huge line that a FRESH compiler refuses on its own exceeds the instruction format; the model,
            // which has no such limits, treats it as a line that does not compile)
            Parsed::Ok(a) if l.len() > 30_000 && matches!(catch_unwind(AssertUnwindSafe(|| Compiler::new().compile_ast(&a).is_err())), Ok(true)) => Err("beyond the limits of the instruction format (U9)".to_string()),
            Parsed::Ok(a) => Ok(a),
            Parsed::Err(e) => Err(e),
            Parsed::Panic(p) => Err(format!("panic {p}")),
        })
        .collect()
}

fn agree(m: &ModelOutcome, s: &Step) -> Option<String> {
    if !s.heap.is_empty() {
        return Some(format!("heap discipline broken across lines: {:?}", s.heap));
    }
    match (&m.end, &s.end) {
        (End::Unspec(_), _) | (End::Diverge, _) => None,
        (_, ImplEnd::Panic(p)) => Some(format!("panic: {p}")),
        (_, ImplEnd::Breach(b)) => Some(format!("contract probe: {b}")),
        (_, ImplEnd::Budget) => Some("the line did not terminate".into()),
        (End::Value(mv), ImplEnd::Value(iv)) => {
            if m.output != s.output {
                return Some(format!("output {:?}, model {:?}", s.output, m.output));
            }
            match mv {
                Some(mv) if mv != iv => Some(format!("value {iv}, model {mv}")),
                _ => None,
            }
        }
        (End::Value(_), ImplEnd::Error(k)) => Some(format!("{} where the model yields {}", k.name(), model_end_text(&m.end))),
        (End::Error(_), ImplEnd::Value(v)) => Some(format!("value {v} where the model demands {}", model_end_text(&m.end))),
        (End::Error(me), ImplEnd::Error(k)) => {
            let ok = match me {
                MErr::Any => true,
                MErr::Kind(x) => x == k,
                MErr::Either(a, b) => a == k || b == k,
            };
            if !ok {
                Some(format!("{} where the model demands {}", k.name(), model_end_text(&m.end)))
            } else if m.output != s.output {
                Some(format!("output before the error {:?}, model {:?}", s.output, m.output))
            } else {
                None
            }
        }
    }
}

/// What the model says about a line that does not parse: an error, nothing changes.
fn model_line<'a>(m: &mut Interp<'a>, ast: &'a Result<BlockStmt, String>) -> ModelOutcome {
    match ast {
        Ok(a) => m.line(a),
        Err(_) => ModelOutcome { output: String::new(), end: End::Error(MErr::Any) },
    }
}

pub struct SessionResult {
    pub problem: Option<String>,
    pub key: u64,
    pub any_unspec: bool,
    /// some line (up to the one the problem was found at) mentions a name whose declaration belonged to a line
    /// that failed before the declaration completed
    pub touched_ghost: bool,
    pub all_ok: bool,
    pub steps: Vec<u64>,
}

/// Runs a whole session on a fresh real pair and on a fresh model, comparing line by line.
pub fn run_session(lines: &[String]) -> SessionResult {
    let asts = parse_all(lines);
    verif::reset();
    verif::ledger_start();
    let mut real = Real::new();
    let mut model = Interp::new();
    let mut problem = None;
    let mut any_unspec = false;
    let mut touched_ghost = false;
    let mut all_ok = true;
    let mut steps = Vec::new();
    let mut outputs = String::new();
    let mut last: Option<Step> = None;
    let (mut t_model, mut t_real) = (std::time::Duration::ZERO, std::time::Duration::ZERO);
    for (i, ast) in asts.iter().enumerate() {
        let t0 = std::time::Instant::now();
        if let Ok(a) = ast {
            if model.mentions_ghost(a) {
                touched_ghost = true;
            }
        }
        let m = model_line(&mut model, ast);
        t_model += t0.elapsed();
        let t0 = std::time::Instant::now();
        let _ = &t0;
        if matches!(m.end, End::Unspec(_) | End::Diverge) {
            // the meaning of the rest of the session is not fixed
            any_unspec = true;
            break;
        }
        let s = real.line(ast, None);
        t_real += t0.elapsed();
        steps.push(s.steps);
        if !matches!(s.end, ImplEnd::Value(_)) {
            all_ok = false;
        }
        if let Some(why) = agree(&m, &s) {
            problem = Some(format!("line {} ({:?}): {why}", i + 1, lines[i]));
            break;
        }
        outputs.push_str(&s.output);
        last = Some(s);
    }
    // (only a disagreement on a line can be the recorded finding; what is found after the session cannot)
    let touched_ghost = touched_ghost && problem.is_some();
    // sessions without failing lines behave like the one-shot evaluation of the concatenation
    // (not for sessions with a huge line: the concatenation exceeds the code-size limits that no single line does, U9)
    if problem.is_none() && !any_unspec && all_ok && !lines.is_empty() && lines.iter().map(|l| l.len()).sum::<usize>() < 30_000 {
        // (one statement per line: a line that ends in `}` must not swallow a `(` or `[` opening the next one)
        let text = lines.iter().filter(|l| !l.trim().is_empty()).map(|l| format!("{l};")).collect::<Vec<_>>().join("\n");
        let fp_before = real.fingerprint();
        let _ = fp_before;
        let one = crate::outcome::run_text(&text, crate::outcome::RunOpts { budget: Some(400_000), ledger: false, trace: false, render: true });
        if let (Some(l), ImplEnd::Value(v)) = (&last, &one.end) {
            if let ImplEnd::Value(lv) = &l.end {
                let tail_defined = parse_guarded(lines.last().unwrap()).ok_tail();
                if (tail_defined && lv != v) || one.output != outputs {
                    problem = Some(format!("the session ends with {lv} / output {outputs:?}, eval of the concatenated text gives {v} / output {:?}", one.output));
                }
            }
        } else if !matches!(one.end, ImplEnd::Value(_)) {
            problem = Some(format!("every line of the session succeeded, but eval of the concatenated text gives {}", impl_end_text(&one.end)));
        }
        // run_text reset the hooks: turn the ledger back on is pointless now, the session is over
    }
    if std::env::var_os("NLMC_TIME").is_some() {
        println!("{} lines: model {:?}, real {:?}", lines.len(), t_model, t_real);
    }
    if std::env::var_os("NLMC_FP").is_some() {
        println!("FP {:?}\n   real  {}\n   model {}", lines, real.fingerprint(), model.fingerprint());
    }
    let key = hash64(&(real.fingerprint(), model.fingerprint()));
    // the end of the session: the compiler goes first, the machine must still own everything it holds; then
    // the machine goes, and nothing may be released a second time
    let Real { compiler, vm } = real;
    let _ = verif::heap_events_take();
    drop(compiler);
    let after = vm.verif_fingerprint();
    if problem.is_none() && after.contains("DEAD<") {
        problem = Some(format!("after the compiler was dropped the machine holds a released value: {}", after.chars().take(300).collect::<String>()));
    }
    drop(vm);
    let bad: Vec<String> = verif::heap_events_take().iter().filter(|e| e.kind == "use-after-free" || e.kind == "double-free").map(|e| format!("{}#{}", e.kind, e.serial)).collect();
    if problem.is_none() && !bad.is_empty() {
        problem = Some(format!("dropping the compiler and then the machine at the end of the session: {bad:?}"));
    }
    verif::ledger_forget();
    SessionResult { problem, key, any_unspec, touched_ghost, all_ok, steps }
}

trait TailOk {
    fn ok_tail(&self) -> bool;
}
impl TailOk for Parsed {
    fn ok_tail(&self) -> bool {
        match self {
            Parsed::Ok(a) => crate::refint::tail_is_expression(a),
            _ => false,
        }
    }
}

/// Crash points of line `j` of a session: injected failure after k instructions for every k, then probes.
fn crash_points(sh: &mut Shard, lines: &[String], j: usize, n: u64) {
    let mut all: Vec<String> = lines.to_vec();
    for p in PROBES {
        all.push(p.to_string());
    }
    let asts = parse_all(&all);
    // how many effects does line j have in the model?
    let effects = {
        let mut m = Interp::new();
        let mut e = 0;
        for (i, a) in asts.iter().enumerate().take(j + 1) {
            let o = model_line(&mut m, a);
            if matches!(o.end, End::Unspec(_) | End::Diverge) {
                return;
            }
            if i == j {
                e = m.effects();
            }
        }
        e
    };
    for k in 0..n {
        sh.count("abort-points");
        verif::reset();
        verif::ledger_start();
        let mut real = Real::new();
        let mut obs: Vec<Step> = Vec::new();
        for (i, a) in asts.iter().enumerate() {
            let s = real.line(a, if i == j { Some(k) } else { None });
            obs.push(s);
        }
        drop(real);
        verif::ledger_forget();
        if obs[j].end != ImplEnd::Budget {
            // the line ended by itself before instruction k
            break;
        }
        // the model after SOME prefix of the line's effects must explain everything observed
        let mut explained = false;
        let mut last_why = String::new();
        let mut touched_ghost = false;
        for e in 0..=effects {
            let mut m = Interp::new();
            let mut ok = true;
            for (i, a) in asts.iter().enumerate() {
                if i == j {
                    m.effect_limit = Some(e);
                }
                if let Ok(t) = a {
                    if m.mentions_ghost(t) {
                        touched_ghost = true;
                    }
                }
                let mo = model_line(&mut m, a);
                m.effect_limit = None;
                if i == j {
                    // the output of the cut line is what the model printed up to that effect
                    if mo.output != obs[j].output || !obs[j].heap.is_empty() {
                        ok = false;
                        last_why = format!("cut line printed {:?}, model prefix {e} prints {:?}", obs[j].output, mo.output);
                        break;
                    }
                    continue;
                }
                if matches!(mo.end, End::Unspec(_) | End::Diverge) {
                    // reading a variable whose declaration did not run: unspecified, accept. A probe only
                    // reads; after any other unspecified line the model's state no longer says what later
                    // lines must see, so the comparison of this candidate prefix ends here.
                    if PROBES.contains(&all[i].as_str()) {
                        continue;
                    }
                    break;
                }
                if let Some(why) = agree(&mo, &obs[i]) {
                    ok = false;
                    last_why = format!("line {} ({:?}) after the cut: {why}", i + 1, all[i]);
                    break;
                }
            }
            if ok {
                explained = true;
                break;
            }
        }
        if !explained && touched_ghost && super::c11::known_predicate(sh, GHOST_PREDICATE) {
            // the recorded finding KF-C17-01: a line after the cut mentions a name whose declaration the cut prevented
            continue;
        }
        if !explained {
            sh.violation(
                "crash-point",
                json!({"session": lines, "failing_line": j + 1, "abort_after_instructions": k, "probes": PROBES}),
                format!("no prefix of the line's effects explains the session after the injected failure; closest: {last_why}"),
            );
            return;
        }
    }
}

/// Matcher of the recorded finding KF-C17-01: the session mentions, at or before the line on which model and
/// implementation part, a name whose top-level declaration belonged to a line that failed before the
/// declaration completed (and that no later line declared again).
const GHOST_PREDICATE: &str = "mention-of-a-name-whose-declaration-failed";

fn session_case(sh: &mut Shard, family: &str, lines: &[String]) -> Option<SessionResult> {
    if !sh.mine() {
        return None;
    }
    let l2 = lines.to_vec();
    sh.begin(&|| l2.join(" ⏎ "));
    sh.count(&format!("family:{family}"));
    sh.count("traces_validated_against_impl");
    sh.count("transitions");
    let r = run_session(lines);
    if r.any_unspec {
        sh.count("excluded:unspecified-line");
    } else {
        sh.nontrivial(&lines.join("\n"));
    }
    if let Some(why) = &r.problem {
        if r.touched_ghost && super::c11::known_predicate(sh, GHOST_PREDICATE) {
            // the recorded finding KF-C17-01
        } else if !crate::common::known_input(sh, &lines.join("\n")) {
            sh.violation("session", json!({"session": lines}), why.clone());
        }
    }
    Some(r)
}

/// Ordinary ten-line sessions (declarations, re-declarations, blocks, loops, self-contained functions, heap
/// values, output) used as the default behaviour around which deviations are enumerated.
const BASES: &[&[&str]] = &[
    &[
        "stel a = 1",
        "stel b = a + 1",
        "a = a + b",
        "stel s = \"x\"",
        "stel l = [1.5, s]",
        "functie f(x) { [x, a] } f(b)",
        "l[0] = string(a); 0",
        "stel i = 0; zolang i < 3 { i += 1; a += 1 } a",
        "b = lengte(l) + a",
        "[a, b, s, l]",
    ],
    &[
        "stel a = 1",
        "stel a = 2",
        "{ stel t = a; a = t * 2 } a",
        "stel c = [a]",
        "c[0] = c[0] + 1; c",
        "stel b = als a > 3 { \"groot\" } anders { \"klein\" }",
        "print(\"{} {}\", a, b)",
        "functie g(x, y) { stel z = x + y; z * 2 } a = g(a, 1)",
        "stel a = [b, c]",
        "lengte(a) + lengte(b)",
    ],
    &[
        "stel n = 0",
        "stel acc = []",
        "zolang n < 3 { n += 1; acc = [acc, n] } n",
        "functie diep(x) { als lengte(x) == 0 { antwoord 0 } 1 + diep(x[0]) } diep(acc)",
        "stel w = \"héé\"",
        "w[1] = \"e\"; w",
        "stel k = 2.5",
        "k = k * 2.0; k",
        "n = n + lengte(w)",
        "[n, k, w, acc]",
    ],
    &[
        "stel p = 10",
        "functie tel(x) { x + 1 } p = tel(p)",
        "stel q = [p, [p, \"s\"]]",
        "q[1] = q; lengte(q)",
        "stel r = ja",
        "r = !r; r",
        "als r { p = 0 } anders { p = p + 1 } p",
        "stel m = 0; zolang ja { m += 1; als m > 4 { stop } } m",
        "stel t = \"{} en {}\"; print(t, p, m); t",
        "[p, r, m]",
    ],
    // globals read from inside function bodies (anonymous functions called on the spot, a named one), among
    // them a name no line ever declares
    &[
        "stel a = 1",
        "functie() { a }()",
        "stel b = [a, 2]",
        "functie() { b[0] + a }()",
        "a = a + 1",
        "functie leesa() { a } leesa()",
        "functie() { spook }()",
        "stel a = 10",
        "functie() { a + lengte(b) }()",
        "[a, b]",
    ],
    // the same small literals ([], "", [[]], 0.5) evaluated by one line after the other, used and dropped, with
    // function returns (collections) in between
    &[
        "lengte([])",
        "functie nul() { 0 } nul()",
        "stel e = []; stel v = [[7, 7, 7]]; lengte(e)",
        "lengte(\"\") + lengte([]) + lengte([[]])",
        "functie een() { [] } lengte(een())",
        "stel e2 = []; stel w = [\"a\", 2.5, 0.5]; [lengte(e2), lengte(w)]",
        "functie nul2() { 0.5 } nul2(); lengte(\"\") + lengte([0.5])",
        "[[], [[]], \"\", 0.5]",
        "functie g() { [[], 0.5] } stel x = g(); lengte(x[0])",
        "[e, e2, x, v]",
    ],
];

/// Lines that deviate from the ordinary: failures at parse, compile (at several statement positions, inside
/// blocks and functions) and run time (after completed effects, inside calls, after output), misplaced
/// keywords, and re-declarations.
const DEVIATIONS_FIXED: &[&str] = &[
    "(1 +",
    "zz",
    "stel d = 1; zz",
    "stel d = 1; stel e = 2.5; stel g2 = \"t\"; zz",
    "{ stel d = 1; zz }",
    "als ja { stel d = \"t\"; zz }",
    "functie hh() { stel z = 1.5; zz } 1",
    // compile failures in every nesting context: a function inside a block / branch / loop body, a block
    // inside a function, a function inside a function
    "als ja { stel ff = functie(n) { n * zz }; ff(2) }",
    "{ functie gg() { zz } }",
    "zolang nee { stel hh2 = functie() { zz } }",
    "functie uit() { als ja { stel q9 = 1; zz } } 1",
    "functie uit2() { functie in2() { zz } } 1",
    "stop",
    "stel d = 1; 1 + ja; stel e = 2",
    "stel d = [1.5, \"dd\"]; d[5]",
    "functie h(x) { stel y = [x, \"loc\"]; y + ja } stel d = 7; h(1)",
    "print(\"voor\"); 1 + ja",
    "stel d = 0; zolang ja { d += 1; als d > 2 { [1][9] } }",
    "stel a = 100",
    "stel nieuw = \"n\"; nieuw",
    // compile failures while a loop is open (in its condition, in its body, in a loop inside a function), and every
    // misplaced keyword
    "stel lus1 = 0; zolang lus1 < 3 { lus1 = lus1 + zz }",
    "zolang zz { }",
    "functie flus() { zolang ja { zz } } 1",
    // failing lines that RE-declare a name earlier lines declared (once or twice)
    "stel a = 3; zz",
    "stel b = 1; stel a = 2; zz",
    "stel a = 3; 1 + ja",
    "stel n = 5; stel p = 6; zz",
    // lines that end / start in a space the language does not know (the prompt hands the line to the parser as
    // it is: these are refused), and a line of nothing else
    "1 + 1\u{a0}",
    "a\u{3000}",
    "\u{2003}",
    "\u{a0}a + 1",
    "a + 1\u{200b}",
    "a + 1 \t \r",
    // failing lines that declare a name AND read it from inside a function body
    "stel a = 3; functie() { a }(); zz",
    "stel spook = 5; functie() { spook }(); zz",
    "{ stel spook = 5; functie() { spook }() }; zz",
    "stel a = 3; functie() { a }(); 1 + ja",
    "volgende",
    "volgende; a = 7",
    "antwoord 5",
    "als ja { stop }",
    // lines that succeed but are unusual: empty blocks in every position
    "als ja { }",
    "zolang nee { }",
    "{ }",
    "als nee { } anders { }; functie leeg() { } leeg()",
    "",
    // every KIND of run-time failure, each at its own site in the machine: inside a builtin (bad text, wrong type,
    // wrong number of arguments, with other arguments and operands pending), an operator on a heap value, an index
    // out of range / of the wrong type (read and write), a call of something that is no function, a call with the
    // wrong number of arguments, a zero divisor, a result out of range, a recursion that fills the stack
    "int(\"12x\")",
    "stel d = \"12x\"; lengte(d); int(d)",
    "lengte(5)",
    "lengte()",
    "string(1, 2)",
    "float([1])",
    "[1, \"k\", int(\"zz\")]",
    "lengte(string(int(\"zz\")))",
    "print(\"{} {}\", 1, int(\"q\"))",
    "\"a\" - 1",
    "[1] + 1",
    "\"abc\"[7]",
    "[1][\"a\"]",
    "stel d = [1]; d[9] = 1",
    "stel d = 5; d(1)",
    "functie w(x) { x } w(1, 2)",
    "1 / 0",
    "stel d = 0; 7 % d",
    "1152921504606846975 + 1",
];
/// how many of the fixed deviation lines are the run-time failure kinds at the end of the list
const RUNTIME_KINDS: usize = 19;

/// The fixed deviation lines plus five HUGE lines (code that does not fit 16-bit addressing, or comes within a
/// few bytes of it): a declaration of a list of 22 000 elements, 16 400 statements, a line whose code ends just
/// below 64 KiB followed by a read (these succeed); a function whose body ends beyond 64 KiB and a function
/// behind 64 KiB of code (these are refused while a function is being compiled).
fn deviations() -> &'static [String] {
    static CELL: std::sync::OnceLock<Vec<String>> = std::sync::OnceLock::new();
    CELL.get_or_init(|| {
        let mut v: Vec<String> = DEVIATIONS_FIXED.iter().map(|s| s.to_string()).collect();
        v.push(format!("stel reus = [{}0]; lengte(reus)", "0, ".repeat(21_999)));
        v.push(format!("stel veel = 1; {}veel", "1; ".repeat(16_400)));
        v.push(format!("stel bijna = [{}0]; lengte(bijna)", "0, ".repeat(16_370)));
        // a function whose body ends beyond 64 KiB, and a small function behind 64 KiB of code: both refused,
        // from inside a function context
        v.push(format!("functie reus() {{ {}1 }} reus()", "1; ".repeat(16_400)));
        v.push(format!("stel voor = 1; {}functie achter() {{ voor }} achter()", "1; ".repeat(16_400)));
        v
    })
}

/// Sessions of up to 12 lines: every base session, every crash point of every one of its lines (with the rest
/// of the session as continuation), and every insertion of one or two deviation lines at every position.
fn long_sessions(sh: &mut Shard) {
    for base in BASES {
        let lines: Vec<String> = base.iter().map(|s| s.to_string()).collect();
        if let Some(r) = session_case(sh, "long-base", &lines) {
            if r.problem.is_none() && !r.any_unspec {
                for (j, st) in r.steps.iter().enumerate() {
                    if *st > 0 && *st <= 600 {
                        crash_points(sh, &lines, j, *st);
                    }
                }
            } else if r.any_unspec {
                sh.machinery(format!("a base session is not defined by the model: {lines:?}"));
                return;
            }
        }
        let n = lines.len();
        for p1 in 0..=n {
            for (d1i, d1) in deviations().iter().enumerate() {
                let mut one = lines.clone();
                one.insert(p1, d1.to_string());
                // the crash points of the line right after the deviation
                if let Some(r) = session_case(sh, "long-1-deviation", &one) {
                    if p1 < n && r.problem.is_none() && !r.any_unspec {
                        if let Some(st) = r.steps.get(p1 + 1) {
                            if *st > 0 && *st <= 600 {
                                crash_points(sh, &one, p1 + 1, *st);
                            }
                        }
                    }
                }
                for p2 in p1..=n {
                    for (d2i, d2) in deviations().iter().enumerate() {
                        if p2 == p1 && d2i < d1i {
                            continue;
                        }
                        // (the huge lines are paired with the failing re-declarations and compile failures only)
                        // (and so are the run-time failure kinds)
                        let huge = |i: usize| i >= DEVIATIONS_FIXED.len() - RUNTIME_KINDS;
                        if (huge(d1i) || huge(d2i)) && !(huge(d1i) && d2i < 8) && !(huge(d2i) && d1i < 8) {
                            continue;
                        }
                        let mut two = one.clone();
                        two.insert(p2 + 1, d2.to_string());
                        session_case(sh, "long-2-deviations", &two);
                    }
                }
                if !sh.running() {
                    return;
                }
            }
        }
    }
}

/// Session-length ladder: N lines each bringing a new global, a new integer, float and string constant
/// (the retained compiler's tables keep growing), for N around every power of two; a failing line of each
/// kind in the middle; every 64th line and the last ones read the first, the middle and the newest global back.
fn session_ladder(sh: &mut Shard) {
    let tier = sh.cfg.tier;
    let kmax = if tier == Tier::Quick { 10 } else { 12 };
    let mut sizes: Vec<usize> = vec![3, 5, 6, 10, 100, 300];
    for k in 2..=kmax {
        let n = 1usize << k;
        sizes.extend([n - 1, n, n + 1]);
    }
    sizes.sort();
    sizes.dedup();
    for n in sizes {
        for flavour in 0..3 {
            let mut lines: Vec<String> = Vec::new();
            for i in 0..n {
                lines.push(match flavour {
                    0 => format!("stel v{i} = {}", 1000 + i),
                    1 => format!("stel v{i} = [{i}.5, \"s{i}\"]"),
                    _ => format!("functie f{i}(x) {{ x + {i} }} stel v{i} = f{i}({i})"),
                });
                if i == n / 2 {
                    lines.push("stel kapot = 1; zz".to_string());
                    lines.push("(1 +".to_string());
                    lines.push(format!("v{i} = v{i}; 1 + ja"));
                }
                if i % 64 == 63 || i + 2 >= n {
                    lines.push(format!("[v0, v{}, v{i}]", i / 2));
                }
            }
            session_case(sh, "session-ladder", &lines);
            if !sh.running() {
                return;
            }
        }
    }
}

/// Failing-lines ladder: N lines in a row that fail at run time inside a nested call with operands pending
/// (what such a line leaves on the machine's stack and frame list must not accumulate), N around every power
/// of two and across 65 536, followed by lines that need a clean machine: a declaration, a deep recursion,
/// a read-back.
fn failing_lines_ladder(sh: &mut Shard) {
    let tier = sh.cfg.tier;
    // (a failing line leaves about 20 operands behind if nothing clears them: 3 300 such lines would fill the
    // 65 535-slot stack; the cost of a session grows with the square of its length — one function constant per line)
    let mut sizes: Vec<usize> = vec![1, 2, 3, 10, 100, 1000, 3000, 3300, 3500];
    for k in 2..=(if tier == Tier::Quick { 12 } else { 14 }) {
        let n = 1usize << k;
        sizes.extend([n - 1, n, n + 1]);
    }
    sizes.sort();
    sizes.dedup();
    for n in sizes {
        for flavour in 0..2 {
            // (anonymous functions applied on the spot: a named one would add a global per line)
            let failing = if flavour == 0 {
                "[1, 2, 3, 4, 5, 6, 7, 8, 9, 10, 11, 12, 13, 14, (functie(x) { [x, \"s\", 1 + (2 + (x + ja))] })(2), 3]"
            } else {
                "teller = 0; [1, 2, 3, 4, 5, 6, 7, 8, 9, 10, 11, 12, 13, 14, (functie(x) { zolang ja { teller += 1; als teller > 2 { [1][9] } } })(1)]"
            };
            let mut lines: Vec<String> = vec!["stel houd = [1.5, \"vast\"]".to_string(), "stel teller = 0".to_string()];
            lines.extend(std::iter::repeat(failing.to_string()).take(n));
            lines.push("stel na = 41".to_string());
            lines.push("functie r(k) { als k == 0 { antwoord 0 } 1 + r(k - 1) } r(5000)".to_string());
            lines.push("[na + 1, houd]".to_string());
            session_case(sh, "failing-lines-ladder", &lines);
            if !sh.running() {
                return;
            }
        }
    }
}

/// What the model says the interactive prompt prints for a session: per line the output of its `print` calls,
/// then the line's value (nothing for null; None where the value is not specified: U4, U5, or a failing line
/// shows nothing). None as a whole when some line is unspecified.
fn repl_expectation(lines: &[String]) -> Option<Vec<(String, Option<String>, bool)>> {
    let asts = parse_all(lines);
    let mut model = Interp::new();
    let mut out = Vec::new();
    let mut touched = false;
    for ast in asts.iter() {
        if let Ok(a) = ast {
            if model.mentions_ghost(a) {
                touched = true;
            }
        }
        let m = model_line(&mut model, ast);
        match &m.end {
            End::Unspec(_) | End::Diverge => return None,
            End::Error(_) => out.push((m.output.clone(), Some(String::new()), touched)),
            End::Value(None) => out.push((m.output.clone(), None, touched)),
            End::Value(Some(_)) => out.push((m.output.clone(), model.last_shown.clone(), touched)),
        }
    }
    Some(out)
}

/// The REAL interactive prompt: the repository's command-line program, started without a file (unoptimised and
/// release build), is fed a session on its standard input, one line at a time, and its standard output is
/// compared with the session model: after every prompt `>>> ` the line's printed output and its value (nothing
/// for null and for a failing line, whose error goes to standard error), the process survives every failing
/// line and ends when the input ends. Sessions: the base sessions, every insertion of one deviation line at
/// every position (thorough: also every pair at two positions of the first base), sessions of up to 1 025 lines.
pub fn repl_sessions(sh: &mut Shard, class: &str, only: Option<&[String]>, compare_values: bool) {
    use std::io::Write;
    use std::process::{Command, Stdio};
    let (Ok(dev), Ok(rel)) = (std::env::var("NLMC_CLI_DEV"), std::env::var("NLMC_CLI_REL")) else {
        sh.machinery("the command-line builds (NLMC_CLI_DEV / NLMC_CLI_REL) are missing: run through /verif/check".to_string());
        return;
    };
    let tier = sh.cfg.tier;
    let mut sessions: Vec<Vec<String>> = Vec::new();
    sessions.push(vec![]);
    sessions.push(vec!["".to_string()]);
    for base in BASES {
        let lines: Vec<String> = base.iter().map(|s| s.to_string()).collect();
        sessions.push(lines.clone());
        for p in 0..=lines.len() {
            for d in deviations() {
                let mut one = lines.clone();
                one.insert(p, d.to_string());
                sessions.push(one);
            }
        }
    }
    if tier != Tier::Quick {
        let lines: Vec<String> = BASES[0].iter().map(|s| s.to_string()).collect();
        for p1 in 0..=lines.len() {
            for d1 in deviations() {
                for p2 in p1..=lines.len() {
                    for d2 in deviations() {
                        let mut two = lines.clone();
                        two.insert(p1, d1.to_string());
                        two.insert(p2 + 1, d2.to_string());
                        sessions.push(two);
                    }
                }
            }
        }
    }
    for n in [65usize, 257, 1025] {
        let mut lines = vec!["stel teller = 0".to_string()];
        for i in 0..n {
            lines.push(match i % 4 {
                0 => "teller = teller + 1; teller".to_string(),
                1 => format!("stel v{i} = [teller, \"s{i}\"]; print(\"{{}}\", v{i})"),
                2 => "onbekend".to_string(),
                _ => "(1 +".to_string(),
            });
        }
        lines.push("teller".to_string());
        sessions.push(lines);
    }
    // a session with a line that is not text (not UTF-8): the line is reported, the session goes on
    if only.is_none() && sh.mine() {
        sh.begin(&|| "interactive prompt: a line that is not UTF-8".to_string());
        sh.count("family:repl-sessions");
        for (bname, exe) in [("unoptimised", &dev), ("release", &rel)] {
            let spawned = Command::new("sh").arg("-c").arg("exec timeout -s KILL 20 \"$0\"").arg(exe).stdin(Stdio::piped()).stdout(Stdio::piped()).stderr(Stdio::piped()).spawn();
            if let Ok(mut child) = spawned {
                {
                    let mut stdin = child.stdin.take().expect("stdin");
                    let _ = stdin.write_all(b"stel a = 1\n\xff\xfe\na + 1\n\"\xc3\"\na + 2\n");
                }
                if let Ok(out) = child.wait_with_output() {
                    let stdout = String::from_utf8_lossy(&out.stdout).to_string();
                    if out.status.code() != Some(0) || !stdout.contains("2\n") || !stdout.contains("3\n") {
                        sh.violation(
                            class,
                            json!({"repl_bytes": "stel a = 1 / ff fe / a + 1 / \" c3 \" / a + 2", "build": bname}),
                            format!("the {bname} prompt did not survive a line that is not UTF-8: {:?}, output {stdout:?}, stderr {:?}", out.status, String::from_utf8_lossy(&out.stderr).chars().take(200).collect::<String>()),
                        );
                    }
                }
            }
        }
    }
    // an input that can not be read at all (standard input is a directory): the prompt says so and ends
    if only.is_none() && sh.mine() {
        sh.begin(&|| "interactive prompt: standard input is a directory".to_string());
        sh.count("family:repl-sessions");
        for (bname, exe) in [("unoptimised", &dev), ("release", &rel)] {
            if let Ok(dir) = std::fs::File::open("/") {
                let out = Command::new("timeout").args(["-s", "KILL", "20"]).arg(exe).stdin(Stdio::from(dir)).stdout(Stdio::piped()).stderr(Stdio::piped()).output();
                if let Ok(out) = out {
                    use std::os::unix::process::ExitStatusExt;
                    if out.status.code() != Some(0) || out.status.signal().is_some() {
                        sh.violation(
                            class,
                            json!({"repl_stdin": "a directory", "build": bname}),
                            format!("the {bname} prompt did not end by itself when its input could not be read: {:?} after {} bytes of output", out.status, out.stdout.len()),
                        );
                    }
                }
            }
        }
    }
    if let Some(o) = only {
        sessions = vec![o.to_vec()];
    }
    for lines in sessions {
        if !sh.mine() && only.is_none() {
            continue;
        }
        let l2 = lines.clone();
        sh.begin(&|| format!("interactive prompt: {}", l2.join(" ⏎ ")));
        sh.count("family:repl-sessions");
        let Some(expect) = repl_expectation(&lines) else {
            sh.count("repl-session-unspecified");
            continue;
        };
        sh.nontrivial(&("repl", &lines));
        let input: String = lines.iter().map(|l| format!("{l}\n")).collect();
        for (bname, exe) in [("unoptimised", &dev), ("release", &rel)] {
            let spawned = Command::new("sh")
                .arg("-c")
                .arg("ulimit -s 8192; ulimit -v 4000000; exec timeout -s KILL 20 \"$0\"")
                .arg(exe)
                .stdin(Stdio::piped())
                .stdout(Stdio::piped())
                .stderr(Stdio::piped())
                .spawn();
            let mut child = match spawned {
                Ok(c) => c,
                Err(e) => {
                    sh.machinery(format!("cannot start {exe}: {e}"));
                    return;
                }
            };
            {
                let mut stdin = child.stdin.take().expect("stdin");
                let _ = stdin.write_all(input.as_bytes());
                // dropped here: end of input
            }
            // (the outputs are small; a prompt that spins at the end of input is cut off by the time limit and its
            // output, however long, is read to the end first)
            let out = match child.wait_with_output() {
                Ok(o) => o,
                Err(e) => {
                    sh.machinery(format!("cannot wait for {exe}: {e}"));
                    return;
                }
            };
            sh.count("transitions");
            use std::os::unix::process::ExitStatusExt;
            let stdout = String::from_utf8_lossy(&out.stdout).to_string();
            let stderr_head: String = String::from_utf8_lossy(&out.stderr).chars().take(300).collect();
            let desc = json!({"repl_session": lines, "build": bname});
            let timed_out = out.status.code() == Some(137) || out.status.signal() == Some(9);
            if timed_out {
                sh.violation(class, desc, format!("the {bname} prompt did not end within 20 s after its input ended ({} bytes of output; it keeps prompting)", stdout.len()));
                break;
            }
            if out.status.code() != Some(0) {
                sh.violation(class, desc, format!("the {bname} prompt ended with {:?} in the middle of the session; stderr: {stderr_head:?}", out.status));
                break;
            }
            // after every prompt: the line's output, then its value
            let chunks: Vec<&str> = stdout.split(">>> ").collect();
            let mut why: Option<String> = None;
            let mut ghost_so_far = false;
            if !chunks[0].is_empty() {
                why = Some(format!("output before the first prompt: {:?}", chunks[0]));
            } else if chunks.len() < lines.len() + 1 {
                why = Some(format!("{} prompts for {} lines", chunks.len() - 1, lines.len()));
            } else if compare_values {
                for (i, (printed, shown, touched)) in expect.iter().enumerate() {
                    ghost_so_far = *touched;
                    let chunk = chunks[i + 1];
                    let Some(rest) = chunk.strip_prefix(printed.as_str()) else {
                        why = Some(format!("line {} ({:?}) printed {chunk:?}, the model prints {printed:?} first", i + 1, lines[i]));
                        break;
                    };
                    let ok = match shown {
                        Some(t) if t.is_empty() => rest.is_empty(),
                        Some(t) => rest == format!("{t}\n"),
                        // not specified: nothing, or one line
                        None => rest.is_empty() || (rest.ends_with('\n') && !rest[..rest.len() - 1].contains('\n')),
                    };
                    if !ok {
                        why = Some(format!("line {} ({:?}): after its output the prompt showed {rest:?}, the model's value shows as {shown:?}", i + 1, lines[i]));
                        break;
                    }
                }
                // whatever follows the last line's chunk: prompts only
                if why.is_none() && chunks[lines.len() + 1..].iter().any(|c| !c.trim().is_empty()) {
                    why = Some(format!("output after the end of the input: {:?}", &chunks[lines.len() + 1..]));
                }
            }
            if let Some(w) = why {
                if ghost_so_far && super::c11::known_predicate(sh, GHOST_PREDICATE) {
                    // the recorded finding KF-C17-01
                    break;
                }
                sh.violation(class, desc, format!("{bname} prompt: {w}"));
                break;
            }
        }
    }
}

fn run(sh: &mut Shard) {
    let tier = sh.cfg.tier;
    repl_sessions(sh, "repl", None, true);
    failing_lines_ladder(sh);
    session_ladder(sh);
    long_sessions(sh);
    if !sh.running() {
        return;
    }
    let n = LINES.len();
    // (1) all sessions of <= 3 lines (grouped by first line)
    for len in 1..=3usize {
        let per_first = (n as u64).pow(len as u32 - 1);
        sh.group_mode = true;
        for first in 0..n {
            if !sh.want_group(per_first) {
                continue;
            }
            for code in 0..per_first {
                let mut idx = vec![first];
                let mut c = code;
                for _ in 1..len {
                    idx.push((c % n as u64) as usize);
                    c /= n as u64;
                }
                let lines: Vec<String> = idx.iter().map(|i| LINES[*i].to_string()).collect();
                if let Some(r) = session_case(sh, "all-sessions", &lines) {
                    if sh.index() % 10_007 == 0 {
                        sh.sample(json!({"session": lines, "instructions_per_line": r.steps}));
                    }
                    // (2) crash points for sessions of <= 2 lines
                    if len <= 2 && r.problem.is_none() && !r.any_unspec {
                        for (j, st) in r.steps.iter().enumerate() {
                            if *st > 0 && *st <= 300 {
                                crash_points(sh, &lines, j, *st);
                            }
                        }
                    }
                }
                if !sh.running() {
                    sh.group_mode = false;
                    return;
                }
            }
        }
        sh.group_mode = false;
    }
    // (3) BFS with state merging over the core alphabet
    let depth = if tier == Tier::Quick { 6 } else { 9 };
    let cap: usize = if tier == Tier::Quick { 400_000 } else { 2_000_000 };
    let mut seen: HashSet<u64> = HashSet::new();
    let mut frontier: VecDeque<Vec<usize>> = VecDeque::new();
    frontier.push_back(vec![]);
    let mut prefix_counter = 0u64;
    let mut completed_depth = 0;
    'bfs: while let Some(h) = frontier.pop_front() {
        if h.len() >= depth {
            continue;
        }
        completed_depth = completed_depth.max(h.len());
        for (li, _) in CORE.iter().enumerate() {
            let mut h2 = h.clone();
            h2.push(li);
            if h2.len() == 2 {
                prefix_counter += 1;
                if prefix_counter % sh.nshards != sh.shard {
                    continue;
                }
            }
            let lines: Vec<String> = h2.iter().map(|i| CORE[*i].to_string()).collect();
            sh.mine();
            sh.begin(&|| lines.join(" ⏎ "));
            sh.count("family:bfs");
            sh.count("transitions");
            sh.count("traces_validated_against_impl");
            let r = run_session(&lines);
            if let Some(why) = &r.problem {
                sh.violation("session", json!({"session": lines}), why.clone());
                continue;
            }
            if r.any_unspec {
                continue;
            }
            if seen.insert(r.key) {
                sh.count("states");
                sh.nontrivial(&r.key);
                frontier.push_back(h2);
                if seen.len() >= cap {
                    sh.caps_hit.push("bfs-state-cap".into());
                    break 'bfs;
                }
            }
            if !sh.running() {
                return;
            }
        }
    }
    sh.max("bfs-depth-completed", completed_depth as u64 + 1);
}

fn replay(sh: &mut Shard, case: &Value) {
    if let Some(a) = case["repl_session"].as_array() {
        let lines: Vec<String> = a.iter().filter_map(|x| x.as_str().map(|s| s.to_string())).collect();
        repl_sessions(sh, "repl", Some(&lines), true);
        return;
    }
    sh.mine();
    let lines: Vec<String> = case["session"].as_array().map(|a| a.iter().filter_map(|x| x.as_str().map(|s| s.to_string())).collect()).unwrap_or_default();
    println!("session:");
    for l in &lines {
        println!("  >>> {l}");
    }
    if let Some(j) = case["failing_line"].as_u64() {
        let k = case["abort_after_instructions"].as_u64().unwrap_or(0);
        println!("injected failure in line {j} after {k} instructions");
        crash_points(sh, &lines, j as usize - 1, k + 1);
    } else {
        let r = run_session(&lines);
        match r.problem {
            Some(why) => {
                println!("disagreement: {why}");
                sh.violation("session", case.clone(), why);
            }
            None => println!("real pair and session model agree on every line"),
        }
    }
}

fn vacuity(m: &Merged) -> Option<String> {
    if m.counters.get("family:all-sessions").copied().unwrap_or(0) < 10_000 {
        return Some("fewer than 10 000 sessions".into());
    }
    if m.counters.get("family:long-2-deviations").copied().unwrap_or(0) < 10_000 {
        return Some("fewer than 10 000 long sessions with two deviations".into());
    }
    if m.counters.get("abort-points").copied().unwrap_or(0) < 5_000 {
        return Some("fewer than 5 000 abort points".into());
    }
    if m.counters.get("states").copied().unwrap_or(0) < 100 {
        return Some("the session search merged into fewer than 100 states".into());
    }
    None
}

/// Experiment (not a check): breadth-first search over the line alphabet in `path`, printing the number of
/// new states per depth; used to design alphabets whose state space closes (`nlmc exp17 <file> <depth>`).
pub fn exp_bfs(path: &str, depth: usize) {
    let alphabet: Vec<String> = std::fs::read_to_string(path).unwrap_or_default().lines().filter(|l| !l.trim().is_empty()).map(|l| l.to_string()).collect();
    let mut seen: HashSet<u64> = HashSet::new();
    let mut frontier: Vec<Vec<usize>> = vec![vec![]];
    for d in 1..=depth {
        let mut next = Vec::new();
        let mut problems = 0;
        let mut unspec = 0;
        for h in &frontier {
            for li in 0..alphabet.len() {
                let mut h2 = h.clone();
                h2.push(li);
                let lines: Vec<String> = h2.iter().map(|i| alphabet[*i].clone()).collect();
                let r = run_session(&lines);
                if let Some(p) = &r.problem {
                    problems += 1;
                    if problems <= 3 {
                        println!("  problem: {lines:?}: {p}");
                    }
                    continue;
                }
                if r.any_unspec {
                    unspec += 1;
                    continue;
                }
                if seen.insert(r.key) {
                    next.push(h2);
                }
            }
        }
        println!("depth {d}: {} new states ({} total), {problems} problems, {unspec} unspecified", next.len(), seen.len());
        if next.is_empty() {
            println!("fixpoint: every session over this alphabet, of any length, reaches one of {} states", seen.len());
            break;
        }
        frontier = next;
    }
}
