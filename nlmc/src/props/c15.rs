//! C15 — the value encoding is lossless and collision-free (DESIGN 5, C15).
//! Runs through the public constructors and accessors only; executed in both build profiles.

use super::c06::lattice;
use super::Prop;
use crate::pool::Merged;
use crate::shard::Shard;
use nederlang::object::{FromString, FromVec, Object, Type};
use nederlang::verif::{self, GC};
use serde_json::{json, Value};
use std::panic::{catch_unwind, AssertUnwindSafe};

pub fn prop() -> Prop {
    Prop {
        id: "C15",
        level: "exploration",
        rule: "through the public constructors and accessors, in BOTH build profiles (release-like and debug-assertion/overflow-check): every integer of the boundary lattice (round trip, tag, immediacy); ~9 000 ordinary integers (multiples of 2^31 / 2^32 with offsets, round decimals, a fixed multiplicative sequence) incl. equality between neighbours; 4 256 more float bit patterns, each also compared with 25 neighbours (1-3 units in the last place, single mantissa bits, relative and absolute offsets of 2^-52 .. 2^-40): equal exactly when IEEE says so; seven more function descriptors; strings of 100..1000 bytes differing at every single position; both booleans and null; all 81 (entry offset, local count) pairs from two 9-value boundary sets; 112 float bit patterns (sign x 7 exponents x 4 mantissas, compared by bits); all strings of <= 3 characters over {a, é, 😀, NUL}; strings and integer arrays of every length around each power of two up to 65 537; all arrays of depth <= 2 and width <= 2 over four element values; alignment of every heap box; strings of 7..65 bytes against a copy and against a copy with one byte changed at every position; strings and arrays changed in place through the mutable accessors (7 edits x every small string: equal to a fresh value of the new content, different from the old); and the complete 200 x 200 cross product of a fixed 200-value set: == holds iff same type and same content (NaN excepted) and never panics for scalars, text and functions. A case = one value or one pair; all are non-trivial; distinct = distinct case descriptions",
        assumptions: &["heap values are created through a GC obtained from the facade re-export (verif::GC)", "array == array is outside the property (scalars, text and functions only)"],
        run,
        replay,
        vacuity,
    }
}

fn profile() -> &'static str {
    if cfg!(debug_assertions) {
        "dev"
    } else {
        "rel"
    }
}

fn check(sh: &mut Shard, what: String, ok: bool, detail: impl FnOnce() -> String) {
    sh.mine();
    sh.begin(&|| what.clone());
    sh.count(&format!("checks:{}", profile()));
    sh.nontrivial(&format!("{}:{what}", profile()));
    if !ok {
        sh.violation("encoding", json!({"profile": profile(), "case": what}), detail());
    }
}

fn guarded<T>(f: impl FnOnce() -> T) -> Result<T, String> {
    catch_unwind(AssertUnwindSafe(f)).map_err(|p| crate::outcome::panic_message(p))
}

fn float_patterns() -> Vec<u64> {
    let mut v = Vec::new();
    for sign in [0u64, 1] {
        for exp in [0u64, 1, 1022, 1023, 1024, 2046, 2047] {
            for man in [0u64, 1, 1 << 51, (1 << 52) - 1] {
                v.push(sign << 63 | exp << 52 | man);
            }
        }
    }
    v
}

fn strings3() -> Vec<String> {
    let alpha = ["a", "é", "😀", "\0"];
    let mut v = vec![String::new()];
    let mut frontier = vec![String::new()];
    for _ in 0..3 {
        let mut next = Vec::new();
        for f in &frontier {
            for a in alpha {
                next.push(format!("{f}{a}"));
            }
        }
        v.extend(next.iter().cloned());
        frontier = next;
    }
    v
}

#[derive(Clone, Debug, PartialEq)]
enum Spec {
    Null,
    Bool(bool),
    Int(i64),
    Func(u32, u16),
    Float(u64),
    Str(String),
}

fn build(s: &Spec, gc: &mut GC) -> Object {
    match s {
        Spec::Null => Object::null(),
        Spec::Bool(b) => Object::bool(*b),
        Spec::Int(i) => Object::int(*i as isize),
        Spec::Func(ip, n) => Object::function(*ip, *n),
        Spec::Float(bits) => Object::float(f64::from_bits(*bits), gc),
        Spec::Str(t) => Object::string(t.as_str(), gc),
    }
}

fn spec_equal(a: &Spec, b: &Spec) -> bool {
    match (a, b) {
        (Spec::Float(x), Spec::Float(y)) => f64::from_bits(*x) == f64::from_bits(*y),
        _ => a == b,
    }
}

fn run(sh: &mut Shard) {
    // the whole space is small: one worker does all of it
    if sh.shard != 0 {
        return;
    }
    let mut gc = GC::new();
    let lat = lattice(sh.cfg.tier, sh.cfg.seed);
    // integers
    for i in &lat {
        let r = guarded(|| {
            let o = Object::int(*i as isize);
            (o.as_int() as i64, o.tag(), o.is_heap_allocated())
        });
        check(sh, format!("int {i}"), matches!(&r, Ok((v, Type::Int, false)) if v == i), || format!("read back {r:?}"));
    }
    // ordinary integers: every multiple of 2^32 and of 2^31 in the range with small offsets, the i32 / u32
    // borders on both sides of zero, round decimals, and 4 096 values from a fixed multiplicative sequence
    // (a complete, fixed set: every member is checked); also equality and inequality between neighbours
    {
        let mut ord: Vec<i64> = Vec::new();
        let max = (1i64 << 60) - 1;
        for m in -40i64..=40 {
            for off in [-2i64, -1, 0, 1, 2, 12345] {
                ord.push(m * (1 << 31) + off);
                ord.push(m * (1 << 32) + off);
                ord.push(m * 3 * (1 << 32) + off);
            }
        }
        for k in 0..=17u32 {
            for m in [1i64, 3, 7, 9] {
                ord.push(m * 10i64.pow(k));
                ord.push(-m * 10i64.pow(k));
            }
        }
        let mut x: u64 = 0x9E37_79B9_7F4A_7C15;
        for _ in 0..4096 {
            x = x.wrapping_mul(6364136223846793005).wrapping_add(1442695040888963407);
            let v = (x >> 3) as i64 % max;
            ord.push(v);
            ord.push(-v);
        }
        ord.retain(|v| *v >= -max - 1 && *v <= max);
        ord.sort();
        ord.dedup();
        for w in ord.windows(2) {
            let (a, b) = (w[0], w[1]);
            let r = guarded(|| {
                let (oa, ob) = (Object::int(a as isize), Object::int(b as isize));
                (oa.as_int() as i64, oa.tag(), oa.is_heap_allocated(), oa == ob, oa != ob, oa == Object::int(a as isize))
            });
            check(sh, format!("ordinary int {a} (next {b})"), matches!(&r, Ok((v, Type::Int, false, false, true, true)) if *v == a), || format!("{r:?}"));
        }
    }
    // floats: 4 096 bit patterns from a fixed multiplicative sequence, and every pattern whose low 3 or high
    // exponent bits are all set for a handful of exponents
    {
        let mut pats: Vec<u64> = Vec::new();
        let mut x: u64 = 0xD1B5_4A32_D192_ED03;
        for _ in 0..4096 {
            x = x.wrapping_mul(6364136223846793005).wrapping_add(1442695040888963407);
            pats.push(x);
        }
        for exp in [0u64, 1, 0x3FE, 0x3FF, 0x400, 0x7FD, 0x7FE, 0x7FF] {
            for mant in [0u64, 1, 7, 8, 0xF, 0x7_FFFF_FFFF_FFF8, 0xF_FFFF_FFFF_FFFF, 0x8_0000_0000_0000, 0x8_0000_0000_0007, 0x1234_5678_9ABC] {
                for sign in [0u64, 1] {
                    pats.push((sign << 63) | (exp << 52) | mant);
                }
            }
        }
        for bits in pats {
            let r = guarded(|| {
                let o = Object::float(f64::from_bits(bits), &mut gc);
                (o.as_f64().to_bits(), o.tag(), o.is_heap_allocated(), verif::addr(o) & 7)
            });
            check(sh, format!("float bits {bits:016x}"), matches!(&r, Ok((b, Type::Float, true, 0)) if *b == bits), || format!("{r:?}"));
            // neighbours: the patterns 1, 2 and 3 units in the last place away, the one with the lowest mantissa
            // bit of each byte flipped, and the value times (1 +- 2^-52 .. 2^-40): equal exactly when IEEE says so
            let x = f64::from_bits(bits);
            let mut others: Vec<u64> = vec![bits.wrapping_add(1), bits.wrapping_sub(1), bits.wrapping_add(2), bits.wrapping_sub(3), bits ^ 0x100, bits ^ 0x1_0000, bits ^ 0x1_0000_0000];
            for k in [52, 51, 50, 48, 44, 40] {
                let e = (2.0f64).powi(-k);
                others.push((x * (1.0 + e)).to_bits());
                others.push((x * (1.0 - e)).to_bits());
                others.push((x + e).to_bits());
            }
            for ob in others {
                let y = f64::from_bits(ob);
                let want = x == y;
                let r = guarded(|| {
                    let a = Object::float(x, &mut gc);
                    let b = Object::float(y, &mut gc);
                    (a == b, a != b, b == a)
                });
                check(sh, format!("float {bits:016x} == neighbour {ob:016x}"), matches!(r, Ok((e, ne, e2)) if e == want && ne != want && e2 == want), || format!("== / != / reversed == gave {r:?}, IEEE says {want}"));
            }
        }
    }
    // function descriptors beyond the boundary pairs
    for (off, n) in [(40_000u32, 300u16), (32_768, 256), (65_535, 65_535), (33_000, 1_000), (70_000, 257), (1 << 20, 40_000), (12_345, 54_321)] {
        let r = guarded(|| {
            let o = Object::function(off, n);
            (o.as_function(), o.tag(), o.is_heap_allocated())
        });
        check(sh, format!("function ({off}, {n})"), matches!(&r, Ok(([a, b], Type::Function, false)) if *a == off && *b == n as u32), || format!("{r:?}"));
    }
    // long strings differing in one byte far from both ends
    for len in [100usize, 129, 257, 1000] {
        let base: String = (0..len).map(|i| (b'a' + (i % 26) as u8) as char).collect();
        for p in 0..len {
            let mut other = base.clone().into_bytes();
            other[p] = b'Z';
            let other = String::from_utf8(other).unwrap();
            let r = guarded(|| {
                let a = Object::string(base.as_str(), &mut gc);
                let b = Object::string(other.as_str(), &mut gc);
                (a == b, a != b)
            });
            check(sh, format!("strings of {len} bytes differing at byte {p}"), matches!(r, Ok((false, true))), || format!("{r:?}"));
        }
    }
    // immediates
    let r = guarded(|| (Object::null().tag(), Object::null().is_heap_allocated()));
    check(sh, "null".into(), matches!(r, Ok((Type::Null, false))), || format!("{r:?}"));
    for b in [false, true] {
        let r = guarded(|| (Object::bool(b).as_bool(), Object::bool(b).tag(), Object::bool(b).is_heap_allocated()));
        check(sh, format!("bool {b}"), matches!(&r, Ok((v, Type::Bool, false)) if *v == b), || format!("{r:?}"));
    }
    // function descriptors
    let offs: [u32; 9] = [0, 1, 2, 0xFFFF, 0x1_0000, 0x7FFF_FFFF, 0x8000_0000, 0xFFFF_FFFE, 0xFFFF_FFFF];
    let cnts: [u16; 9] = [0, 1, 2, 255, 256, 0x7FFF, 0x8000, 0xFFFE, 0xFFFF];
    for ip in offs {
        for n in cnts {
            let r = guarded(|| {
                let o = Object::function(ip, n);
                (o.as_function(), o.tag(), o.is_heap_allocated())
            });
            check(sh, format!("function {ip}/{n}"), matches!(&r, Ok(([a, b], Type::Function, false)) if *a == ip && *b == n as u32), || format!("{r:?}"));
        }
    }
    // floats
    for bits in float_patterns() {
        let r = guarded(|| {
            let o = Object::float(f64::from_bits(bits), &mut gc);
            (o.as_f64().to_bits(), o.tag(), o.is_heap_allocated(), verif::addr(o) & 7)
        });
        check(sh, format!("float bits {bits:016x}"), matches!(&r, Ok((b, Type::Float, true, 0)) if *b == bits), || format!("{r:?}"));
    }
    // strings
    for s in strings3() {
        let r = guarded(|| {
            let o = Object::string(s.as_str(), &mut gc);
            (o.as_str().to_string(), o.tag(), o.is_heap_allocated(), verif::addr(o) & 7)
        });
        check(sh, format!("string {s:?}"), matches!(&r, Ok((t, Type::String, true, 0)) if *t == s), || format!("{r:?}"));
    }
    // length ladders: strings and arrays of every length around each power of two (one wide character at a
    // position that walks with the length), content and length read back exactly
    let mut lens: Vec<usize> = vec![0, 1, 5, 6, 10, 100, 1000];
    for k in 1..=16 {
        let n = 1usize << k;
        lens.extend([n - 1, n, n + 1]);
    }
    lens.sort();
    lens.dedup();
    for len in lens {
        for wide in [None, Some('é'), Some('😀')] {
            let text: String = (0..len).map(|i| if wide.is_some() && i == len / 3 { wide.unwrap() } else { (b'a' + (i % 26) as u8) as char }).collect();
            let r = guarded(|| {
                let o = Object::string(text.as_str(), &mut gc);
                (o.as_str() == text, o.as_str().len(), o.tag(), o.is_heap_allocated(), verif::addr(o) & 7)
            });
            check(sh, format!("string of {len} characters, wide {wide:?}"), matches!(&r, Ok((true, n, Type::String, true, 0)) if *n == text.len()), || format!("{r:?}"));
        }
        let r = guarded(|| {
            let elems: Vec<Object> = (0..len).map(|i| Object::int(i as isize - 3)).collect();
            let o = Object::array(elems, &mut gc);
            let v = o.as_vec();
            (v.len(), v.iter().enumerate().all(|(i, x)| x.tag() == Type::Int && x.as_int() == i as isize - 3), o.tag(), o.is_heap_allocated(), verif::addr(o) & 7)
        });
        check(sh, format!("array of {len} integers"), matches!(&r, Ok((n, true, Type::Array, true, 0)) if *n == len), || format!("{r:?}"));
    }
    // arrays of depth <= 2, width <= 2 over four element values
    let elems: Vec<Spec> = vec![Spec::Null, Spec::Int(-7), Spec::Str("é".into()), Spec::Float(1.5f64.to_bits())];
    let mut shapes: Vec<Vec<Spec>> = vec![vec![]];
    for a in &elems {
        shapes.push(vec![a.clone()]);
        for b in &elems {
            shapes.push(vec![a.clone(), b.clone()]);
        }
    }
    for (si, shape) in shapes.iter().enumerate() {
        for outer in 0..3 {
            // outer 0: flat; 1: [flat]; 2: [flat, flat]
            let r = guarded(|| {
                let inner_objs: Vec<Object> = shape.iter().map(|s| build(s, &mut gc)).collect();
                let inner = Object::array(inner_objs.clone(), &mut gc);
                let o = match outer {
                    0 => inner,
                    1 => Object::array(vec![inner], &mut gc),
                    _ => Object::array(vec![inner, inner], &mut gc),
                };
                let flat = if outer == 0 { o } else { o.as_vec()[0] };
                let same = flat.as_vec().len() == inner_objs.len()
                    && flat.as_vec().iter().zip(&inner_objs).all(|(x, y)| verif::render(*x) == verif::render(*y) && x.tag() == y.tag());
                (same, o.tag(), o.is_heap_allocated(), verif::addr(o) & 7, if outer == 2 { verif::addr(o.as_vec()[0]) == verif::addr(o.as_vec()[1]) } else { true })
            });
            check(sh, format!("array shape {si} nesting {outer}"), matches!(&r, Ok((true, Type::Array, true, 0, true))), || format!("{r:?}"));
        }
    }
    // the 200 x 200 cross product
    let mut set: Vec<Spec> = vec![Spec::Null, Spec::Bool(false), Spec::Bool(true)];
    let step = (lat.len() / 60).max(1);
    for i in lat.iter().step_by(step).take(60) {
        set.push(Spec::Int(*i));
    }
    for ip in [0u32, 1, 8, 0xFFFF, 0x1_0000, 0xFFFF_FFFF] {
        for n in [0u16, 1, 8, 0xFFFF] {
            set.push(Spec::Func(ip, n));
        }
    }
    for bits in float_patterns().into_iter().step_by(2) {
        set.push(Spec::Float(bits));
    }
    for s in strings3() {
        if set.len() >= 200 {
            break;
        }
        set.push(Spec::Str(s));
    }
    set.truncate(200);
    if set.len() != 200 {
        sh.machinery(format!("the cross-product set has {} values, not 200", set.len()));
        return;
    }
    sh.add("cross-product-side", set.len() as u64);
    let objs: Vec<Object> = set.iter().map(|s| build(s, &mut gc)).collect();
    // fresh copies of the heap values so that equal content at different addresses is compared too
    let objs2: Vec<Object> = set.iter().map(|s| build(s, &mut gc)).collect();
    for (i, a) in set.iter().enumerate() {
        for (j, b) in set.iter().enumerate() {
            let want = spec_equal(a, b);
            let r = guarded(|| (objs[i] == objs2[j], objs[i] != objs2[j]));
            check(sh, format!("{a:?} == {b:?}"), matches!(r, Ok((e, ne)) if e == want && ne != want), || format!("== and != gave {r:?}, expected {want}"));
        }
    }
    // values changed IN PLACE through the public mutable accessors carry their new content and nothing of the
    // old: they equal a fresh value of the new content (both ways) and differ from a fresh one of the old
    // (texts of EVERY length up to 70 bytes and around 100 / 128 / 256 / 1000, plain and with wide characters;
    // and every way of having LOOKED at the value before the edit: never, compared with an equal one, with a
    // different one of the same length, with one of another length, asked for its text)
    let mut texts: Vec<String> = strings3().into_iter().chain(["foobar".to_string(), "ééééééé".to_string(), "a".repeat(40)]).collect();
    for len in (0..=70usize).chain([99, 100, 127, 128, 129, 255, 256, 257, 1000]) {
        texts.push((0..len).map(|i| (b'a' + (i % 26) as u8) as char).collect());
        if len % 2 == 0 && len > 0 {
            texts.push("é".repeat(len / 2));
        }
    }
    type Edit = fn(&mut String);
    let edits: Vec<(&str, Edit)> = vec![
        ("push x", |t| t.push('x')),
        ("pop", |t| {
            t.pop();
        }),
        ("replace the first character by d", |t| {
            if let Some(c) = t.chars().next() {
                t.replace_range(0..c.len_utf8(), "d");
            }
        }),
        ("replace the first character by 😀", |t| {
            if let Some(c) = t.chars().next() {
                t.replace_range(0..c.len_utf8(), "😀");
            }
        }),
        ("clear and refill", |t| {
            t.clear();
            t.push_str("nieuw");
        }),
        ("insert é at the front", |t| t.insert(0, 'é')),
        ("two edits that cancel", |t| {
            t.push('q');
            t.pop();
        }),
    ];
    for t in &texts {
        for (ename, edit) in &edits {
          for looked in 0..5u8 {
            let mut expected = t.clone();
            edit(&mut expected);
            let r = guarded(|| {
                let mut o = Object::string(t.as_str(), &mut gc);
                // the value is looked at before it is edited (whatever that remembers must not outlive the edit)
                match looked {
                    1 => {
                        let same = Object::string(t.as_str(), &mut gc);
                        assert!(o == same && !(o != same), "equal before the edit");
                    }
                    2 => {
                        let mut d = t.clone().into_bytes();
                        if let Some(l) = d.last_mut() {
                            *l = b'~';
                        }
                        let diff = Object::string(String::from_utf8_lossy(&d).as_ref(), &mut gc);
                        let _ = o == diff;
                        let _ = diff == o;
                    }
                    3 => {
                        let longer = Object::string(format!("{t}+").as_str(), &mut gc);
                        assert!(o != longer, "a longer text differs");
                    }
                    4 => {
                        let _ = o.as_str().len();
                        let _ = format!("{o}");
                    }
                    _ => {}
                }
                edit(o.as_string_mut());
                let fresh = Object::string(expected.as_str(), &mut gc);
                let old = Object::string(t.as_str(), &mut gc);
                (o.as_str() == expected, o == fresh, fresh == o, o != fresh, o == old, o.tag())
            });
            let same_as_old = expected == *t;
            check(
                sh,
                format!("string {t:?} edited in place ({ename}; looked at before: {looked})"),
                matches!(&r, Ok((true, true, true, false, eq_old, Type::String)) if *eq_old == same_as_old),
                || format!("(content, == fresh, fresh ==, != fresh, == old, tag) = {r:?}; the new content is {expected:?}"),
            );
          }
        }
    }
    // longer strings (around the machine-word sizes): equal copies are equal, a change of ONE character at any
    // position makes them different
    for len in [7usize, 8, 9, 15, 16, 17, 18, 20, 23, 24, 25, 31, 32, 33, 40, 47, 48, 49, 64, 65] {
        let base: String = (0..len).map(|i| (b'a' + (i % 26) as u8) as char).collect();
        let r = guarded(|| {
            let a = Object::string(base.as_str(), &mut gc);
            let b = Object::string(base.as_str(), &mut gc);
            (a == b, a != b)
        });
        check(sh, format!("two copies of a string of {len} bytes"), matches!(r, Ok((true, false))), || format!("{r:?}"));
        for p in 0..len {
            let mut other: Vec<u8> = base.clone().into_bytes();
            other[p] = b'Z';
            let other = String::from_utf8(other).unwrap();
            let r = guarded(|| {
                let a = Object::string(base.as_str(), &mut gc);
                let b = Object::string(other.as_str(), &mut gc);
                (a == b, a != b, b == a)
            });
            check(sh, format!("strings of {len} bytes differing at byte {p}"), matches!(r, Ok((false, true, false))), || format!("{r:?}"));
        }
    }
    for len in 0..4usize {
        for at in 0..len {
            let r = guarded(|| {
                let mut o = Object::array((0..len).map(|i| Object::int(i as isize)).collect::<Vec<_>>(), &mut gc);
                o.as_vec_mut()[at] = Object::int(99);
                o.as_vec_mut().push(Object::bool(true));
                let v = o.as_vec();
                (v.len(), v[at].tag() == Type::Int && v[at].as_int() == 99, v[len].tag() == Type::Bool, o.tag())
            });
            check(sh, format!("array of {len} changed in place at {at}"), matches!(&r, Ok((n, true, true, Type::Array)) if *n == len + 1), || format!("{r:?}"));
        }
    }
    drop(gc);
}

fn replay(sh: &mut Shard, case: &Value) {
    println!("re-running the whole encoding check in profile {}; recorded case: {}", profile(), case);
    let mut probe = Shard::new("C15", sh.cfg.clone(), 0, 1);
    probe.known.clear();
    run(&mut probe);
    sh.violations.extend(probe.violations);
}

fn vacuity(m: &Merged) -> Option<String> {
    for p in ["rel", "dev"] {
        if m.counters.get(&format!("checks:{p}")).copied().unwrap_or(0) < 40_000 {
            return Some(format!("profile {p} ran fewer than 40 000 checks"));
        }
    }
    None
}
