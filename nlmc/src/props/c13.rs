//! C13 — arrays and strings: shared by reference, indexed exactly, measured in characters (DESIGN 5, C13).

use super::Prop;
use crate::common::{differential, model_end_text};
use crate::gen::*;
use crate::outcome::RunOpts;
use crate::pool::Merged;
use crate::printer;
use crate::refint::End;
use crate::shard::{Shard, Tier};
use nederlang::verif::{Expr, Operator, Stmt};
use serde_json::{json, Value};

pub fn prop() -> Prop {
    Prop {
        id: "C13",
        level: "exploration",
        rule: "(1) all sequences up to depth d of array/string operations over three names: declare an array (length 0-3) or a string (0-3 characters drawn from 1-, 2-, 3- and 4-byte code points), alias, nest, read at the boundary indices, write, lengte, pass to a function that writes, each followed by a dump of every name through every alias, rendered as one program and compared with the reference interpreter; (2) the complete index sweep: every length 0..6 x every index -(len+2)..(len+2) x {get, set, set with a wrong-typed value, failed access followed by a re-read of every element} on arrays and on strings of every character-width mix; every value type as index and as stored value; (2d) ~5 000 code points, each as the middle character of a string: measured, read from both ends, replaced, written back; (2c) strings through a function one after the other (pairs of different strings of the same length class, wide characters before the indices); the sweep, the ladders, this family and the self-consistency family run TWICE, with the shadow heap and without it (freed memory is then really reused); (2b) length ladders: strings and arrays of every length around each power of two up to 257, strings in every pattern 'ASCII with one 2-, 3- or 4-byte character at position p' and all-wide: every index read from the front and the back in a loop, writes around the wide character and at both ends dumped through an alias; (3) self-consistency where the model is silent (an element of a string replaced by zero or several characters, 16 strings x every index x 9 replacements x a second replacement): the printed text, lengte and character-by-character reading from both ends must describe the same string and the first index outside it must be refused. Non-trivial = the program performs at least one indexed access and is defined by the model; distinct = distinct texts",
        assumptions: &["string aliasing and non-character replacement are unspecified (U8) and excluded", "reference semantics of arrays and code-point indexing of strings as in refint (DESIGN 4.2)"],
        run,
        replay,
        vacuity,
    }
}

thread_local! {
    /// The shadow heap quarantines freed boxes, so an address is never used twice under it. The second pass of
    /// the check runs WITHOUT it: freed memory is really reused, and whatever the implementation remembers by
    /// address shows.
    static LEDGER: std::cell::Cell<bool> = std::cell::Cell::new(true);
}

fn ledger() -> bool {
    LEDGER.with(|c| c.get())
}

fn opts() -> RunOpts {
    RunOpts { budget: Some(50_000), ledger: ledger(), trace: false, render: true }
}

const NAMES: [&str; 3] = ["x", "y", "z"];

fn dump() -> Vec<Stmt> {
    NAMES.iter().map(|n| es(calln("print", vec![string("{} {}"), id(n), calln("lengte", vec![id(n)])]))).collect()
}

/// The operation menu (independent of the state: ill-typed or undeclared uses are legitimate cases too).
fn menu() -> Vec<Vec<Stmt>> {
    let mut v: Vec<Vec<Stmt>> = Vec::new();
    let arrays: Vec<Expr> = vec![array(vec![]), array(vec![int(1)]), array(vec![int(1), int(2), int(3)])];
    let strings = ["", "a", "é€", "😀aé"];
    for (ni, n) in NAMES.iter().enumerate() {
        if ni < 2 {
            for a in &arrays {
                v.push(vec![let_(n, a.clone())]);
            }
            for s in strings {
                v.push(vec![let_(n, string(s))]);
            }
        }
        for m in NAMES {
            if m != *n {
                v.push(vec![let_(n, id(m))]);
                v.push(vec![let_(n, array(vec![id(m), id(m)]))]);
            }
        }
        for i in [0i64, -1, 1, 3, -4] {
            v.push(vec![es(calln("print", vec![index(id(n), int_lit(i))]))]);
            v.push(vec![es(assign(index(id(n), int_lit(i)), int(9)))]);
            v.push(vec![es(assign(index(id(n), int_lit(i)), string("ß")))]);
        }
        v.push(vec![es(assign(index(index_safe(n), int(0)), int(8)))]);
        v.push(vec![es(calln("w", vec![id(n)]))]);
        v.push(vec![es(calln("ws", vec![id(n)]))]);
    }
    v
}

/// `n[0]` as the target of a nested write is not expressible (no chained indexing): write through a temporary.
fn index_safe(n: &str) -> Expr {
    id(n)
}

fn prelude() -> Vec<Stmt> {
    vec![
        es(func("w", &["p"], vec![es(assign(index(id("p"), int(0)), int(7)))])),
        es(func("ws", &["p"], vec![es(assign(index(id("p"), int_lit(-1)), string("€")))])),
        let_("x", array(vec![int(5), int(6)])),
        let_("y", string("abc")),
        let_("z", id("x")),
    ]
}

fn sequences(sh: &mut Shard, depth: usize) {
    let ops = menu();
    let n = ops.len() as u64;
    sh.add("menu-size", n);
    // sequences of exactly `len` operations; grouped by first operation for sharding
    for len in 1..=depth {
        let per_first = n.pow(len as u32 - 1);
        sh.group_mode = true;
        for first in 0..ops.len() {
            if !sh.want_group(per_first) {
                continue;
            }
            for code in 0..per_first {
                if !sh.mine() {
                    continue;
                }
                let mut prog = prelude();
                let mut idx = vec![first];
                let mut c = code;
                for _ in 1..len {
                    idx.push((c % n) as usize);
                    c /= n;
                }
                for i in &idx {
                    prog.extend(ops[*i].iter().cloned());
                    prog.extend(dump());
                }
                sh.begin(&|| printer::program(&prog));
                sh.count("family:sequences");
                if let Some(r) = differential(sh, "sequences", &prog, opts()) {
                    if !matches!(r.model.end, End::Unspec(_) | End::Diverge) {
                        sh.nontrivial(&printer::program(&prog));
                    }
                    if sh.index() % 30_011 == 0 {
                        sh.sample(json!({"program": printer::program(&prog), "model": model_end_text(&r.model.end)}));
                    }
                }
                if !sh.running() {
                    sh.group_mode = false;
                    return;
                }
            }
        }
        sh.group_mode = false;
    }
}

fn sweep(sh: &mut Shard) {
    let chars = ["a", "é", "€", "😀"];
    // sequences under test: arrays of length 0..6 and strings of length 0..6 in several width mixes
    let mut subjects: Vec<(Expr, usize, bool)> = Vec::new();
    for len in 0..=6usize {
        subjects.push((array((0..len).map(|i| int(10 + i as i64)).collect()), len, false));
        for rot in 0..4 {
            let s: String = (0..len).map(|i| chars[(i + rot) % 4]).collect();
            subjects.push((string(&s), len, true));
        }
        subjects.push((string(&"😀".repeat(len)), len, true));
    }
    let reread = |len: usize| -> Vec<Stmt> {
        let mut v: Vec<Stmt> = (0..len).map(|i| es(calln("print", vec![index(id("s"), int(i as i64))]))).collect();
        v.push(es(calln("print", vec![id("s"), calln("lengte", vec![id("s")])])));
        v
    };
    for (subj, len, is_str) in &subjects {
        let l = *len as i64;
        for i in -(l + 2)..=(l + 2) {
            let good: Expr = if *is_str { string("ß") } else { int(99) };
            let bad: Expr = if *is_str { int(99) } else { array(vec![]) };
            let mut cases: Vec<Vec<Stmt>> = vec![
                vec![let_("s", subj.clone()), es(calln("print", vec![index(id("s"), int_lit(i))]))],
                vec![let_("s", subj.clone()), es(assign(index(id("s"), int_lit(i)), good.clone()))],
                vec![let_("s", subj.clone()), es(assign(index(id("s"), int_lit(i)), bad.clone()))],
                // through a function and an alias
                vec![
                    let_("s", subj.clone()),
                    let_("t", array(vec![id("s")])),
                    es(func("wr", &["p", "k", "v"], vec![es(assign(index(id("p"), id("k")), id("v")))])),
                    es(calln("wr", vec![id("s"), int_lit(i), good.clone()])),
                ],
                vec![es(index(subj.clone(), int_lit(i)))],
            ];
            // a string changed in place IS its new content: equal to a literal of it, different from the old one
            if *is_str {
                if let Expr::String { value: orig } = subj {
                    let cs: Vec<char> = orig.chars().collect();
                    let at = if i < 0 { i + l } else { i };
                    if at >= 0 && at < l {
                        let mut e = cs.clone();
                        e[at as usize] = 'ß';
                        let expected: String = e.into_iter().collect();
                        cases.push(vec![
                            let_("s", subj.clone()),
                            es(assign(index(id("s"), int_lit(i)), good.clone())),
                            es(calln(
                                "print",
                                vec![
                                    infix(id("s"), Operator::Eq, string(&expected)),
                                    infix(string(&expected), Operator::Eq, id("s")),
                                    infix(id("s"), Operator::Neq, string(&expected)),
                                    infix(id("s"), Operator::Eq, string(orig)),
                                    infix(id("s"), Operator::Lte, string(&expected)),
                                ],
                            )),
                        ]);
                    }
                }
            }
            for c in cases.iter_mut() {
                // a failed access must leave the sequence unchanged: re-read everything afterwards
                // (the re-read only runs if the access succeeded; the failing variant is checked by
                // catching the state BEFORE in a second program below)
                let ok_tail = reread(*len);
                let mut with_tail = c.clone();
                if matches!(c[0], Stmt::Let(..)) {
                    with_tail.extend(ok_tail);
                }
                if !sh.mine() {
                    continue;
                }
                sh.begin(&|| printer::program(&with_tail));
                sh.count("family:sweep");
                if let Some(r) = differential(sh, "sweep", &with_tail, opts()) {
                    if !matches!(r.model.end, End::Unspec(_) | End::Diverge) {
                        sh.nontrivial(&printer::program(&with_tail));
                    }
                }
            }
            // unchanged after a failed access: perform the access inside a function whose failure is
            // observed by a sibling evaluation of the same sequence... the language has no error handling,
            // so instead: the access as the LAST statement, preceded by a dump; and a second program that
            // only dumps. Their outputs must agree (checked by the model comparison of each).
        }
        // every value type as index and as stored value
        let values: Vec<Expr> = vec![iff(boolean(false), vec![], None), boolean(true), int(0), flt(0.0), string("0"), array(vec![int(0)]), func("", &[], vec![])];
        for v in &values {
            for prog in [
                vec![let_("s", subj.clone()), let_("k", v.clone()), es(calln("print", vec![index(id("s"), id("k"))]))],
                vec![let_("s", subj.clone()), let_("k", v.clone()), es(assign(index(id("s"), id("k")), int(1)))],
                vec![let_("s", subj.clone()), let_("k", v.clone()), es(assign(index(id("s"), int(0)), id("k"))), es(calln("print", vec![id("s")]))],
                vec![let_("k", v.clone()), es(calln("print", vec![index(id("k"), int(0))]))],
                vec![let_("k", v.clone()), es(calln("print", vec![calln("lengte", vec![id("k")])]))],
            ] {
                if !sh.mine() {
                    continue;
                }
                sh.begin(&|| printer::program(&prog));
                sh.count("family:sweep-types");
                if let Some(r) = differential(sh, "sweep", &prog, opts()) {
                    if !matches!(r.model.end, End::Unspec(_) | End::Diverge) {
                        sh.nontrivial(&printer::program(&prog));
                    }
                }
            }
        }
    }
    // unchanged after failure, observed from the caller: the failing access happens in a callee that
    // received the sequence; the caller's own alias is dumped first and the run then ends with the error
    for (subj, len, is_str) in &subjects {
        let l = *len as i64;
        for i in [-(l + 1), l] {
            for writes_first in [false, true] {
                let good: Expr = if *is_str { string("ß") } else { int(99) };
                let mut prog = vec![let_("s", subj.clone()), let_("t", id("s"))];
                if writes_first && *len > 0 {
                    prog.push(es(assign(index(id("s"), int(0)), good.clone())));
                }
                prog.push(es(calln("print", vec![id("t")])));
                prog.push(es(assign(index(id("s"), int_lit(i)), good.clone())));
                if !sh.mine() {
                    continue;
                }
                sh.begin(&|| printer::program(&prog));
                sh.count("family:sweep-failing");
                differential(sh, "sweep", &prog, opts());
            }
        }
    }
}

fn consistency_one(sh: &mut Shard, prefix: &str) {
    use crate::outcome::{run_text, ImplEnd};
    use crate::refint::ErrKind;
    let prefix = prefix.to_string();
    let p1 = format!("{prefix} print(s); print(lengte(s))");
    sh.begin(&|| p1.clone());
    sh.count("family:self-consistency");
    let o = run_text(&p1, opts());
    match &o.end {
        ImplEnd::Value(_) => {}
        ImplEnd::Error(_) => {
            sh.count("replacement-refused");
            return;
        }
        other => {
            sh.violation("self-consistency", json!({"program": p1, "prefix": prefix}), format!("{}", crate::common::impl_end_text(other)));
            return;
        }
    }
    sh.nontrivial(&p1);
    sh.outcome(&o.output);
    let mut lines = o.output.lines();
    let (text, len_line) = (lines.next().unwrap_or("").to_string(), lines.next().unwrap_or("").to_string());
    let cs: Vec<char> = text.chars().collect();
    let n = cs.len();
    if len_line != n.to_string() {
        sh.violation("self-consistency", json!({"program": p1, "prefix": prefix}), format!("the string prints as {text:?} ({n} characters) but lengte says {len_line}"));
        return;
    }
    // every character read back, in three orders (whatever the implementation remembers between two reads
    // must not depend on the order): front-and-back alternating, descending, ascending after one read at the end
    let orders: Vec<Vec<i64>> = vec![
        (0..n as i64).flat_map(|j| [j, -j - 1]).collect(),
        (0..n as i64).rev().collect(),
        (if n > 0 { Some(n as i64 - 1) } else { None }).into_iter().chain(0..n as i64).collect(),
        (0..n as i64).map(|j| -j - 1).collect(),
    ];
    for order in orders {
        let mut p2 = prefix.clone();
        let mut expect = String::new();
        for j in &order {
            p2.push_str(&format!(" print(s[{j}]);"));
            let at = if *j < 0 { (n as i64 + j) as usize } else { *j as usize };
            expect.push_str(&format!("{}\n", cs[at]));
        }
        p2.push_str(" lengte(s)");
        let o2 = run_text(&p2, opts());
        if !matches!(o2.end, ImplEnd::Value(_)) || o2.output != expect {
            sh.violation(
                "self-consistency",
                json!({"program": p2, "prefix": prefix}),
                format!("the string prints as {text:?} but reading it character by character gives {:?} ({})", o2.output, crate::common::impl_end_text(&o2.end)),
            );
            return;
        }
    }
    for j in [n as i64, -(n as i64) - 1] {
        let p3 = format!("{prefix} s[{j}]");
        let o3 = run_text(&p3, opts());
        if !matches!(o3.end, ImplEnd::Error(ErrKind::Index)) {
            sh.violation("self-consistency", json!({"program": p3, "prefix": prefix}), format!("index {j} of a string of {n} characters gives {} instead of an index error", crate::common::impl_end_text(&o3.end)));
        }
    }
}

/// Where the reference model is silent (U8: an element of a string replaced by text that is not exactly
/// one character) the string must still be *measured and indexed by character*: whatever text the
/// replacement produced (as print shows it), `lengte` is its number of characters, s[j] / s[-j] is its
/// j-th character from the front / back, and the first index outside it is refused. No expected text is
/// assumed, only the agreement of the three views of the same string.
fn self_consistency(sh: &mut Shard) {
    let chars = ["a", "é", "€", "😀"];
    let reps = ["", "ab", "éa", "aé", "€", "a€b", "😀", "éé", "😀😀"];
    let mut subjects: Vec<String> = Vec::new();
    for len in 1..=4usize {
        for rot in 0..4 {
            subjects.push((0..len).map(|i| chars[(i + rot) % 4]).collect());
        }
    }
    for subj in &subjects {
        let n0 = subj.chars().count() as i64;
        for i in -n0..n0 {
            for rep in reps {
                for rep2 in ["", "é", "xy"] {
                    if !sh.mine() {
                        continue;
                    }
                    // an optional second replacement at the front, after the first one changed the offsets
                    let second = if rep2.is_empty() { String::new() } else { format!(" s[0] = \"{rep2}\";") };
                    let prefix = format!("stel s = \"{subj}\"; s[{i}] = \"{rep}\";{second}");
                    consistency_one(sh, &prefix);
                    // the same after a read at every index (what a read leaves behind must not survive the write)
                    if rep2.is_empty() {
                        for before in 0..n0 {
                            let prefix = format!("stel s = \"{subj}\"; stel vooraf = s[{before}]; s[{i}] = \"{rep}\";");
                            consistency_one(sh, &prefix);
                            // ... and with reads of ANOTHER string in between (nothing remembered about one string
                            // may be applied to another)
                            let prefix = format!("stel s = \"{subj}\"; stel u = \"ö€x😀y\"; stel vooraf = [s[{before}], u[3]]; s[{i}] = \"{rep}\"; stel tussen = [u[1], u[4]];");
                            consistency_one(sh, &prefix);
                        }
                    }
                }
            }
        }
    }
}

/// Length ladders: strings and arrays of every length around each power of two up to 257 (1025 thorough);
/// strings in every width pattern "ASCII with ONE wide character (2, 3 or 4 bytes) at position p" for every p,
/// plus all-wide; one program reads every index from the front and from the back, others write at the
/// positions around p and at both ends and dump the result through an alias. Compared with the model.
fn length_ladder(sh: &mut Shard) {
    let tier = sh.cfg.tier;
    let mut lens: Vec<usize> = Vec::new();
    for k in 3..=(if tier == Tier::Quick { 8 } else { 10 }) {
        let n = 1usize << k;
        lens.extend([n - 1, n, n + 1]);
    }
    lens.extend([10, 12, 20, 24, 40, 48, 100]);
    lens.sort();
    let ascii = |i: usize| (b'a' + (i % 26) as u8) as char;
    for len in lens {
        // (description, text)
        let mut subjects: Vec<String> = vec![(0..len).map(ascii).collect()];
        for wide in ['é', '€', '😀'] {
            subjects.push(std::iter::repeat(wide).take(len).collect());
            let step = if tier == Tier::Quick && len > 70 { 1 + len / 64 } else { 1 };
            // every position near a multiple of 8 bytes, and (short strings / thorough) every position
            for p in 0..len {
                let near = (0..=3).any(|d| (p + d) % 8 == 0 || (p + 8 - d) % 8 == 0);
                if !(near || p % step == 0 || len <= 70) {
                    continue;
                }
                subjects.push((0..len).map(|i| if i == p { wide } else { ascii(i) }).collect());
            }
        }
        for text in &subjects {
            if !sh.mine() {
                continue;
            }
            let wide_at = text.chars().position(|c| !c.is_ascii()).unwrap_or(0) as i64;
            let l = len as i64;
            // reads of every index, front and back, in a loop (the index is a variable)
            let read_all = vec![
                let_("s", string(text)),
                let_("t", id("s")),
                let_("i", int(0)),
                let_("out", array(vec![])),
                es(whil(
                    infix(id("i"), Operator::Lt, calln("lengte", vec![id("s")])),
                    vec![
                        es(calln("print", vec![string("{}{}"), index(id("s"), id("i")), index(id("t"), infix(infix(int(0), Operator::Subtract, id("i")), Operator::Subtract, int(1)))])),
                        es(op_assign("i", Operator::Add, int(1))),
                    ],
                )),
                es(calln("lengte", vec![id("s")])),
            ];
            let _ = &read_all[3];
            sh.begin(&|| format!("length ladder: {} characters, wide character at {wide_at}", len));
            sh.count("family:length-ladder");
            if let Some(r) = differential(sh, "length-ladder", &read_all, RunOpts { budget: Some(2_000_000), ledger: ledger(), trace: false, render: true }) {
                if !matches!(r.model.end, End::Unspec(_) | End::Diverge) {
                    sh.nontrivial(&(len, text));
                }
            }
            // writes around the wide character and at both ends, each followed by a dump through an alias
            let mut targets: Vec<i64> = vec![0, l - 1, -1, -l, wide_at - 1, wide_at, wide_at + 1, wide_at + 2];
            targets.retain(|i| *i >= -l && *i < l);
            targets.sort();
            targets.dedup();
            for rep in ["#", "ß"] {
                let mut prog = vec![let_("s", string(text)), let_("t", array(vec![id("s")]))];
                for i in &targets {
                    prog.push(es(assign(index(id("s"), int_lit(*i)), string(rep))));
                    prog.push(es(calln("print", vec![index(id("t"), int(0))])));
                }
                prog.push(es(calln("lengte", vec![id("s")])));
                sh.count("family:length-ladder");
                differential(sh, "length-ladder", &prog, RunOpts { budget: Some(2_000_000), ledger: ledger(), trace: false, render: true });
            }
        }
        // arrays: read every element in a loop, write at both ends and in the middle, grow by nesting
        if sh.mine() {
            let l = len as i64;
            let prog = vec![
                let_("a", array((0..len).map(|i| int(1000 + i as i64)).collect())),
                let_("b", id("a")),
                let_("i", int(0)),
                let_("sum", int(0)),
                es(whil(
                    infix(id("i"), Operator::Lt, calln("lengte", vec![id("a")])),
                    vec![
                        es(op_assign("sum", Operator::Add, infix(index(id("a"), id("i")), Operator::Multiply, infix(id("i"), Operator::Add, int(1))))),
                        es(op_assign("sum", Operator::Subtract, index(id("b"), infix(infix(int(0), Operator::Subtract, id("i")), Operator::Subtract, int(1))))),
                        es(op_assign("i", Operator::Add, int(1))),
                    ],
                )),
                es(assign(index(id("a"), int(0)), string("eerste"))),
                es(assign(index(id("a"), int_lit(-1)), string("laatste"))),
                es(assign(index(id("b"), int(l / 2)), array(vec![id("a")]))),
                es(calln("print", vec![id("sum"), index(id("b"), int(0)), index(id("b"), int(l - 1)), calln("lengte", vec![index(id("a"), int(l / 2))]), calln("lengte", vec![id("b")])])),
                es(index(id("a"), int(l))),
            ];
            sh.begin(&|| format!("length ladder: array of {len}"));
            sh.count("family:length-ladder");
            if differential(sh, "length-ladder", &prog, RunOpts { budget: Some(2_000_000), ledger: ledger(), trace: false, render: true }).is_some() {
                sh.nontrivial(&("array", len));
            }
        }
    }
}

/// Strings through a function, one after the other: `teken(s1, i)` then `teken(s2, j)` then `teken(s1, k)` for
/// pairs of DIFFERENT strings of the same length class (so that the second lands where the first was freed),
/// with wide characters before the indices; literals, so each call works on a fresh copy that dies at the return.
fn strings_one_after_the_other(sh: &mut Shard) {
    let mk = |len: usize, wide_at: Option<usize>, wide: char, shift: usize| -> String { (0..len).map(|i| if Some(i) == wide_at { wide } else { (b'a' + ((i + shift) % 26) as u8) as char }).collect() };
    for len in [6usize, 12, 30, 45, 70] {
        let subjects: Vec<String> = vec![
            mk(len, None, 'x', 0),
            mk(len, None, 'x', 3),
            mk(len, Some(0), '😀', 0),
            mk(len, Some(1), 'é', 1),
            mk(len, Some(len / 2), '€', 2),
            mk(len, Some(len - 2), '😀', 4),
        ];
        for s1 in &subjects {
            for s2 in &subjects {
                if s1 == s2 {
                    continue;
                }
                for (i, j) in [(1usize, 1usize), (2, 4), (len / 2 + 1, len / 2 + 2), (len - 1, len - 1), (3, len - 1), (len - 1, 0)] {
                    if !sh.mine() {
                        continue;
                    }
                    let prog = vec![
                        es(func("teken", &["s", "i"], vec![Stmt::Return(index(id("s"), id("i")))])),
                        let_("a", calln("teken", vec![string(s1), int(i as i64)])),
                        let_("b", calln("teken", vec![string(s2), int(j as i64)])),
                        let_("c", calln("teken", vec![string(s1), int(j as i64)])),
                        let_("d", calln("teken", vec![string(s2), int_lit(-(i as i64))])),
                        es(array(vec![id("a"), id("b"), id("c"), id("d")])),
                    ];
                    sh.begin(&|| printer::program(&prog));
                    sh.count("family:one-after-the-other");
                    if let Some(r) = differential(sh, "sequences", &prog, opts()) {
                        if !matches!(r.model.end, End::Unspec(_) | End::Diverge) {
                            sh.nontrivial(&(ledger(), printer::program(&prog)));
                        }
                    }
                }
            }
        }
    }
}

/// A string that was LOOKED AT before it is edited in place: whatever an observation remembers about a value
/// (a length, a position, a digest) must not outlive the edit. For every length of a ladder (every length up to
/// 70, then around 100 / 128 / 256 / 1000), plain and with wide characters: one of 8 observations (compared
/// with an equal literal, with a different one of the same length, with a longer one, measured, read at the
/// front / back, converted, printed), then a one-character replacement at the front / middle / back (same
/// width and different width), then everything observed again.
fn looked_at_then_edited(sh: &mut Shard) {
    let tier = sh.cfg.tier;
    let lens: Vec<usize> = (1..=70usize).chain([99, 100, 127, 128, 129, 255, 256, 257, 1000]).collect();
    for len in lens {
        for wide in [None, Some('é'), Some('😀')] {
            let text: String = (0..len).map(|i| if wide.is_some() && i % 5 == 2 { wide.unwrap() } else { (b'a' + (i % 26) as u8) as char }).collect();
            if wide.is_some() && len < 3 {
                continue;
            }
            let mut other = text.chars().collect::<Vec<_>>();
            let last = other.len() - 1;
            other[last] = '~';
            let other: String = other.into_iter().collect();
            let l = len as i64;
            let mut targets = vec![0i64, l / 2, l - 1];
            targets.dedup();
            for look in 0..9usize {
                for &at in &targets {
                    for rep in ["#", "ß"] {
                        if tier == Tier::Quick && len > 70 && rep == "ß" && look % 2 == 1 {
                            continue;
                        }
                        if !sh.mine() {
                            continue;
                        }
                        let looked: Vec<Stmt> = match look {
                            0 => vec![],
                            1 => vec![let_("eerder", infix(id("s"), Operator::Eq, string(&text)))],
                            2 => vec![let_("eerder", infix(id("s"), Operator::Eq, string(&other)))],
                            3 => vec![let_("eerder", infix(id("s"), Operator::Neq, string(&format!("{text}+"))))],
                            4 => vec![let_("eerder", calln("lengte", vec![id("s")]))],
                            5 => vec![let_("eerder", index(id("s"), int(l - 1)))],
                            6 => vec![let_("eerder", index(id("s"), int_lit(-l)))],
                            7 => vec![let_("eerder", calln("string", vec![id("s")]))],
                            _ => vec![es(calln("print", vec![id("s")])), let_("eerder", infix(id("s"), Operator::Eq, id("s")))],
                        };
                        let mut expected: Vec<char> = text.chars().collect();
                        expected[at as usize] = rep.chars().next().unwrap();
                        let expected: String = expected.into_iter().collect();
                        // (no alias: whether two names share one string is U8)
                        let mut prog = vec![let_("s", string(&text))];
                        prog.extend(looked);
                        prog.push(es(assign(index(id("s"), int(at)), string(rep))));
                        prog.push(es(calln(
                            "print",
                            vec![
                                string("{} {} {} {} {} {} {}"),
                                infix(id("s"), Operator::Eq, string(&expected)),
                                infix(string(&expected), Operator::Eq, id("s")),
                                infix(id("s"), Operator::Eq, string(&text)),
                                infix(id("s"), Operator::Neq, string(&expected)),
                                calln("lengte", vec![id("s")]),
                                index(id("s"), int(at)),
                                index(id("s"), int_lit(-1)),
                            ],
                        )));
                        prog.push(es(id("s")));
                        sh.begin(&|| format!("looked at ({look}) then edited at {at} with {rep:?}: {len} characters, wide {wide:?}"));
                        sh.count("family:looked-at-then-edited");
                        if let Some(r) = differential(sh, "sweep", &prog, RunOpts { budget: Some(2_000_000), ledger: ledger(), trace: false, render: true }) {
                            if !matches!(r.model.end, End::Unspec(_) | End::Diverge) {
                                sh.nontrivial(&(ledger(), len, look, at, rep, wide.is_some()));
                            } else {
                                sh.count("looked-at-unspecified");
                            }
                        }
                    }
                }
            }
        }
    }
}

/// An element taken out of a text is a text of its own: for every text of 1..4 characters (plain and wide) and
/// every valid index, the element is kept (in a name, a list, passed to a function), then the text or the
/// element is edited in place, and both are read.
fn element_taken_out(sh: &mut Shard) {
    let texts = ["a", "é", "😀", "ab", "aé", "éa", "abc", "é😀a", "abcd"];
    for t in texts {
        let n = t.chars().count() as i64;
        for i in (-n)..n {
            for variant in 0..5 {
                if !sh.mine() {
                    continue;
                }
                let take = index(id("s"), int_lit(i));
                let prog: Vec<Stmt> = match variant {
                    0 => vec![let_("s", string(t)), let_("c", take), es(assign(index(id("s"), int(0)), string("#"))), es(array(vec![id("c"), id("s")]))],
                    1 => vec![let_("s", string(t)), let_("c", take), es(assign(index(id("c"), int(0)), string("#"))), es(array(vec![id("c"), id("s")]))],
                    2 => vec![let_("s", string(t)), let_("l", array(vec![take, index(id("s"), int_lit(i))])), es(assign(index(id("s"), int_lit(-1)), string("ß"))), es(array(vec![id("l"), id("s")]))],
                    3 => vec![
                        es(func("bewerk", &["x"], vec![es(assign(index(id("x"), int(0)), string("#"))), es(id("x"))])),
                        let_("s", string(t)),
                        let_("r", calln("bewerk", vec![take])),
                        es(array(vec![id("r"), id("s")])),
                    ],
                    _ => vec![let_("s", string(t)), let_("c", take), let_("d", index(id("c"), int(0))), es(assign(index(id("c"), int(0)), string("1"))), es(assign(index(id("d"), int(0)), string("2"))), es(array(vec![id("c"), id("d"), id("s")]))],
                };
                sh.begin(&|| printer::program(&prog));
                sh.count("family:element-taken-out");
                if let Some(r) = differential(sh, "sweep", &prog, opts()) {
                    if !matches!(r.model.end, End::Unspec(_) | End::Diverge) {
                        sh.nontrivial(&(ledger(), printer::program(&prog)));
                    } else {
                        sh.count("element-taken-out-unspecified");
                    }
                }
            }
        }
    }
}

/// Every code point of the C08 list as the middle character of a three-character string: it is ONE character
/// for `lengte`, for reading from both ends and for replacement, whatever its width or purpose.
fn code_point_sweep(sh: &mut Shard) {
    for c in super::c08::code_points() {
        if c == '"' || c == '\\' || c == '\n' || c == '\r' {
            continue;
        }
        if !sh.mine() {
            continue;
        }
        let prog = vec![
            let_("s", string(&format!("a{c}b"))),
            es(calln("print", vec![string("{} {} {} {}"), calln("lengte", vec![id("s")]), infix(index(id("s"), int(1)), Operator::Eq, string(&c.to_string())), infix(index(id("s"), int_lit(-2)), Operator::Eq, string(&c.to_string())), infix(index(id("s"), int(2)), Operator::Eq, string("b"))])),
            es(assign(index(id("s"), int(1)), string("x"))),
            es(assign(index(id("s"), int(0)), string(&c.to_string()))),
            es(array(vec![calln("lengte", vec![id("s")]), infix(id("s"), Operator::Eq, string(&format!("{c}xb"))), calln("lengte", vec![string(&format!("{c}{c}"))])])),
        ];
        sh.begin(&|| format!("code point U+{:04X}", c as u32));
        sh.count("family:code-points");
        if let Some(r) = differential(sh, "sweep", &prog, opts()) {
            if !matches!(r.model.end, End::Unspec(_) | End::Diverge) {
                sh.nontrivial(&(c as u32));
            }
        }
    }
}

fn run(sh: &mut Shard) {
    let tier = sh.cfg.tier;
    code_point_sweep(sh);
    // second pass first: the cheap families again without the shadow heap (real address reuse)
    LEDGER.with(|c| c.set(false));
    element_taken_out(sh);
    looked_at_then_edited(sh);
    strings_one_after_the_other(sh);
    length_ladder(sh);
    sweep(sh);
    self_consistency(sh);
    LEDGER.with(|c| c.set(true));
    element_taken_out(sh);
    looked_at_then_edited(sh);
    strings_one_after_the_other(sh);
    // a literal evaluated again is pristine, whatever its earlier value went through
    for prog in crate::slices::literal_pristine_programs() {
        if !sh.mine() {
            continue;
        }
        sh.begin(&|| printer::program(&prog));
        sh.count("family:literal-pristine");
        if let Some(r) = differential(sh, "sequences", &prog, opts()) {
            if !matches!(r.model.end, End::Unspec(_) | End::Diverge) {
                sh.nontrivial(&printer::program(&prog));
            } else {
                sh.count("literal-pristine-unspecified");
            }
        }
    }
    length_ladder(sh);
    sweep(sh);
    self_consistency(sh);
    sequences(sh, if tier == Tier::Quick { 3 } else { 4 });
}

fn replay(sh: &mut Shard, case: &Value) {
    sh.mine();
    if let Some(prefix) = case["prefix"].as_str() {
        consistency_one(sh, prefix);
    } else if let Some(p) = case["program"].as_str() {
        crate::common::differential_text(sh, "replay", p, None, opts());
    }
}

fn vacuity(m: &Merged) -> Option<String> {
    for fam in ["sweep", "sweep-types", "code-points", "one-after-the-other", "length-ladder", "self-consistency", "sequences"] {
        if m.counters.get(&format!("family:{fam}")).copied().unwrap_or(0) < 100 {
            return Some(format!("family {fam} produced fewer than 100 cases"));
        }
    }
    if m.counters.get("excluded:U8").copied().unwrap_or(0) * 2 > m.cases {
        return Some("more than half of the cases were excluded as U8".into());
    }
    None
}
