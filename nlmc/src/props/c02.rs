//! C02 — execution never leaves the interpreter's own memory (DESIGN 5, C02).

use super::Prop;
use crate::bcmc::{self, OpInfo};
use crate::common::{parse_guarded, Parsed};
use crate::pool::Merged;
use crate::printer;
use crate::shard::{Shard, Tier};
use crate::slices;
use nederlang::compiler::{Bytecode, Compiler};
use nederlang::verif::{self, BlockStmt};
use nederlang::vm::VM;
use serde_json::{json, Value};
use std::collections::HashMap;
use std::panic::{catch_unwind, AssertUnwindSafe};

pub fn prop() -> Prop {
    Prop {
        id: "C02",
        level: "model_checking",
        rule: "for every accepted input among (a) all programs of the C01 slice grammars, (b) all token strings of length <= 4 over the full vocabulary, (c) all single-token edits and truncations of the corpus: the real compiler's bytecode is turned into an abstract stack machine (states = (context, ip, height above the frame base), contexts = program entry and every function constant) and ALL its reachable states are explored, both directions of every conditional jump; checked in every state: ip inside the code and on an instruction boundary, valid opcode, operands inside the code, enough operands above the locals for every pop, constant / local slot / builtin numbers in range, jump targets inside the code, paths end in Halt (program) or Return (function), code reachable from different contexts disjoint. Conformance: every program is also run on the real VM with the contract probes on, and every concrete step (ip, height) must be a state of the abstract graph",
        assumptions: &[
            "the 45-row stack-effect table in bcmc.rs (bound to vm.rs by the conformance replay of every program's concrete trace)",
            "probe sites (fetch, operands, pop, Call, CallBuiltin) are the unchecked accesses of the VM; an out-of-contract access elsewhere would only be seen by its consequences",
            "a Call's callee is any function context; argument count <= local slots is checked by the VM at run time",
        ],
        run,
        replay,
        vacuity,
    }
}

const BUDGET: u64 = 20_000;

pub struct Checked {
    pub states: u64,
    pub transitions: u64,
    pub growing: usize,
    pub compiled: bool,
}

/// Compile `ast` with the real compiler, explore the abstract machine, run with probes and embed the trace.
pub fn check_ast(sh: &mut Shard, ops: &HashMap<u8, OpInfo>, family: &str, text: &str, ast: &BlockStmt) -> Checked {
    let none = Checked { states: 0, transitions: 0, growing: 0, compiled: false };
    let compiled = catch_unwind(AssertUnwindSafe(|| Compiler::new().compile_ast(ast)));
    let bc: Bytecode = match compiled {
        Ok(Ok(bc)) => bc,
        Ok(Err(_)) => {
            sh.count("rejected-by-compiler");
            return none;
        }
        Err(_) => {
            sh.count("compiler-panicked");
            return none;
        }
    };
    sh.count("compiled");
    let g = bcmc::explore(&bc, ops);
    if !g.unknown_opcode_names.is_empty() {
        sh.machinery(format!("opcodes without a stack-effect row: {:?}", g.unknown_opcode_names));
        return none;
    }
    let nstates = g.states.len() as u64;
    sh.add("states", nstates);
    sh.add("transitions", g.transitions);
    sh.max("states-per-program", nstates);
    sh.add("contexts", g.contexts.len() as u64);
    if !g.growing.is_empty() {
        sh.count("programs-with-growing-cycle");
        if std::env::var("NLMC_DEBUG_GROWING").is_ok() {
            eprintln!("GROWING {family}: {text}");
        }
    }
    let dis = || bcmc::disassemble(&bc, ops);
    if let Some(f) = g.findings.first() {
        if !crate::common::known_input(sh, text) {
            sh.violation(
                "static",
                json!({"family": family, "program": text, "bytecode": dis(), "state": {"context": if f.ctx == usize::MAX { "main".to_string() } else { format!("function constant {}", f.ctx) }, "ip": f.ip, "path": f.path}}),
                format!("{}: {}", f.kind, f.detail),
            );
        }
        // do not execute code that the static pass already found unsafe
        return Checked { states: nstates, transitions: g.transitions, growing: g.growing.len(), compiled: true };
    }
    // conformance: the concrete run must stay inside the abstract graph, and no probe may fire
    let dis_text = dis();
    verif::reset();
    verif::capture_start();
    verif::set_budget(Some(BUDGET));
    verif::trace_start();
    let r = catch_unwind(AssertUnwindSafe(|| VM::new().run(bc)));
    let trace = verif::trace_take();
    let breaches = verif::breaches_take();
    let _ = verif::capture_take();
    sh.count("traces_validated_against_impl");
    sh.add("concrete-steps", trace.len() as u64);
    if let Some(b) = breaches.first() {
        sh.violation(
            "probe",
            json!({"family": family, "program": text, "bytecode": dis_text}),
            format!("contract probe fired at run time: {}@{} {}", b.site, b.ip, b.detail),
        );
    }
    if let Err(p) = &r {
        let _ = p;
        sh.count("vm-panicked");
    }
    for t in &trace {
        let ctx = match bcmc::context_of(&g, t.ip as usize) {
            Some(c) => c,
            None => {
                sh.violation(
                    "conformance",
                    json!({"family": family, "program": text, "bytecode": dis_text}),
                    format!("the VM executed the instruction at {} which no path of the bytecode reaches", t.ip),
                );
                break;
            }
        };
        let h = t.sp.saturating_sub(t.bp);
        if !g.states.contains(&(ctx, t.ip, h)) {
            if !g.growing.is_empty() {
                // a stack-growing cycle (C11's finding): heights beyond the explored ones exist by construction
                sh.count("concrete-states-above-a-growing-cycle");
                continue;
            }
            sh.violation(
                "conformance",
                json!({"family": family, "program": text, "bytecode": dis_text}),
                format!(
                    "the VM was at ip {} with {} slots above its frame base, which is not a state of the abstract stack machine (the stack discipline of the VM and of the bytecode disagree)",
                    t.ip, h
                ),
            );
            break;
        }
    }
    Checked { states: nstates, transitions: g.transitions, growing: g.growing.len(), compiled: true }
}

fn text_case(sh: &mut Shard, ops: &HashMap<u8, OpInfo>, family: &str, text: &str) {
    if !sh.mine() {
        return;
    }
    let t = text.to_string();
    sh.begin(&|| t.clone());
    sh.count(&format!("family:{family}"));
    match parse_guarded(text) {
        Parsed::Ok(ast) => {
            let c = check_ast(sh, ops, family, text, &ast);
            if c.compiled {
                sh.nontrivial(text);
                if sh.index() % 300_007 == 0 {
                    sh.sample(json!({"family": family, "program": text, "abstract_states": c.states}));
                }
            }
        }
        _ => sh.count("rejected-by-parser"),
    }
}

fn run(sh: &mut Shard) {
    let tier = sh.cfg.tier;
    let ops = bcmc::optable();
    // size ladders: operands across the 8- and 16-bit boundaries
    crate::ladders::each(tier, None, &mut |l| {
        if sh.mine() {
            let (fam, m) = (l.family, l.m);
            sh.begin(&|| format!("ladder {fam} m={m}"));
            sh.count("family:ladders");
            let text = printer::program(&l.prog);
            let c = check_ast(sh, &ops, "ladder", &text, &l.prog);
            if c.compiled {
                sh.nontrivial(&format!("{fam}:{m}"));
            }
        }
        sh.running()
    });
    // (a) the slices
    for sl in slices::slices() {
        let name = sl.name;
        slices::for_each_program(&sl, tier, sh, &mut |sh, prog| {
            if !sh.mine() {
                return sh.running();
            }
            let text = printer::program(prog);
            sh.begin(&|| text.clone());
            sh.count(&format!("family:slice-{name}"));
            let ast: BlockStmt = prog.to_vec();
            let c = check_ast(sh, &ops, name, &text, &ast);
            if c.compiled {
                sh.nontrivial(&text);
                if sh.index() % 300_007 == 0 {
                    sh.sample(json!({"family": name, "program": text, "abstract_states": c.states, "transitions": c.transitions}));
                }
            }
            sh.running()
        });
    }
    // sibling control templates (C11): loops around two statements inside a function, all paths
    super::c11::sibling_templates(&mut |prog| {
        if sh.mine() {
            let text = printer::program(prog);
            sh.begin(&|| text.clone());
            sh.count("family:sibling-templates");
            let c = check_ast(sh, &ops, "sibling-templates", &text, &prog.to_vec());
            if c.compiled {
                sh.nontrivial(&text);
            }
        }
        sh.running()
    });
    // the offset sweep (C11): every operand byte value of the jumps and slots of 36 small control programs, every jump target below 1 500 (4 200)
    super::c11::offset_sweep(if sh.cfg.tier == crate::shard::Tier::Quick { 1_500 } else { 4_200 }, &mut |prog| {
        if sh.mine() {
            let text = printer::program(prog);
            sh.begin(&|| text.clone());
            sh.count("family:offset-sweep");
            let c = check_ast(sh, &ops, "offset-sweep", &text, &prog.to_vec());
            if c.compiled {
                sh.nontrivial(&text);
            }
        }
        sh.running()
    });
    // exits across function boundaries (C11), all paths of whatever the compiler accepts
    super::c11::exit_scopes(&mut |prog| {
        if sh.mine() {
            let text = printer::program(prog);
            sh.begin(&|| text.clone());
            sh.count("family:exit-scopes");
            let c = check_ast(sh, &ops, "exit-scopes", &text, &prog.to_vec());
            if c.compiled {
                sh.nontrivial(&text);
            }
        }
        sh.running()
    });
    // deep control chains (C11), all paths
    super::c11::deep_chains(if tier == Tier::Quick { 4 } else { 5 }, &mut |prog| {
        if sh.mine() {
            let text = printer::program(prog);
            sh.begin(&|| text.clone());
            sh.count("family:deep-chains");
            let c = check_ast(sh, &ops, "deep-chains", &text, &prog.to_vec());
            if c.compiled {
                sh.nontrivial(&text);
            }
        }
        sh.running()
    });
    // nesting templates: every ordered pair / triple of constructs
    for depth in 1..=(if tier == Tier::Quick { 2 } else { 3 }) {
        crate::compose::for_each(depth, &mut |_, prog| {
            if !sh.mine() {
                return sh.running();
            }
            let text = printer::program(prog);
            sh.begin(&|| text.clone());
            sh.count("family:compose");
            let ast: BlockStmt = prog.to_vec();
            if check_ast(sh, &ops, "compose", &text, &ast).compiled {
                sh.nontrivial(&text);
            }
            sh.running()
        });
    }
    // directed: functions nested in functions
    for prog in slices::nested_function_programs() {
        if !sh.mine() {
            continue;
        }
        let text = printer::program(&prog);
        sh.begin(&|| text.clone());
        sh.count("family:directed-nested");
        if check_ast(sh, &ops, "directed-nested", &text, &prog).compiled {
            sh.nontrivial(&text);
        }
    }
    // (c) edits and truncations of the corpus
    super::c05::for_each_edit(&mut |family, text| {
        text_case(sh, &ops, family, text);
        sh.running()
    });
    // (b) token strings
    let lmax = if tier == Tier::Quick { 4 } else { 5 };
    let vocab = super::c05::VOCAB;
    for len in 1..=lmax {
        let rest = len - 1;
        let per_first = (vocab.len() as u64).pow(rest as u32);
        sh.group_mode = true;
        for first in vocab {
            if !sh.want_group(per_first) {
                continue;
            }
            for code in 0..per_first {
                let mut text = first.to_string();
                let mut div = per_first;
                for _ in 0..rest {
                    div /= vocab.len() as u64;
                    text.push(' ');
                    text.push_str(vocab[((code / div) % vocab.len() as u64) as usize]);
                }
                text_case(sh, &ops, "tokens", &text);
                if !sh.running() {
                    sh.group_mode = false;
                    return;
                }
            }
        }
        sh.group_mode = false;
    }
}

fn replay(sh: &mut Shard, case: &Value) {
    sh.mine();
    let ops = bcmc::optable();
    if let Some(text) = case["program"].as_str() {
        match parse_guarded(text) {
            Parsed::Ok(ast) => {
                let bc = Compiler::new().compile_ast(&ast);
                if let Ok(bc) = &bc {
                    println!("program: {text}\nbytecode: {}", bcmc::disassemble(bc, &ops));
                }
                check_ast(sh, &ops, "replay", text, &ast);
            }
            _ => println!("program: {text}\n does not parse any more"),
        }
    }
}

fn vacuity(m: &Merged) -> Option<String> {
    if m.counters.get("compiled").copied().unwrap_or(0) < 10_000 {
        return Some("fewer than 10 000 inputs compiled".into());
    }
    if m.counters.get("contexts").copied().unwrap_or(0) <= m.counters.get("compiled").copied().unwrap_or(0) {
        return Some("no program with a function context was explored".into());
    }
    if m.counters.get("concrete-steps").copied().unwrap_or(0) == 0 {
        return Some("no concrete trace was embedded".into());
    }
    None
}
