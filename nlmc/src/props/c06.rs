//! C06 — operators are exact over the whole value range (DESIGN 5, C06).

use super::Prop;
use crate::common::{differential, differential_text};
use crate::gen::*;
use crate::outcome::{run_text, ImplEnd, RunOpts};
use crate::pool::Merged;
use crate::printer;
use crate::refint::{INT_MAX, INT_MIN};
use crate::shard::{hash64, Shard, Tier};
use nederlang::verif::{Expr, Operator, Stmt};
use serde_json::{json, Value};

pub fn prop() -> Prop {
    Prop {
        id: "C06",
        level: "exploration",
        rule: "complete cross products: integer boundary lattice (0, ±1, ±2, ±7, ±2^k, ±(2^k±1), k<=60, both range ends, two seed-rotated values) squared x 11 operators x 4 syntactic forms (literal op literal; variable op literal, literal op variable and variable op variable inside a function; the fused opcodes are selected by the middle two); 66 ordinary integers (round decimals, values between 2^31 and 2^32, factors around the square root of the range limit) squared x 11 operators x 4 forms, and against every float in both orders; three-operand chains `x op1 c1 op2 c2` and `c1 op1 x op2 c2` (13 x incl. the range ends, 15 constants squared, 5 x 5 arithmetic operators; x a local and a global); all-literal expressions of two and three range-end constants as the operand of a local; the same chains over 15 x 14² floats and 4 x 4 operators (nothing may be regrouped); 26 float values squared x 11 operators; 110 neighbouring floats (values 0, 1 and 2 units in the last place around 11 magnitudes, both signs) squared x 6 comparisons x 2 forms, and arithmetic results against the literal next to them; all string pairs of length <=2 over {a,b,é,😀} x 6 comparisons; strings of 3..33 characters (around the machine-word sizes) that differ at one position, at two positions in opposite directions (every pair of positions), by a wide character, or by being a prefix, x 6 comparisons x 2 forms; all 7x7 type pairs x 13 operators; what consumes the result (13 consumers: branch and loop conditions, negation, && / ||, element, argument, store, return) of both fused forms for every type and 24 lattice integers x 4 literals x 13 operators; !(x op y) for every float pair and every type pair x 6 comparisons; order axioms over all triples of 40-value subsets read through the interpreter. A case is one program; it is non-trivial if it parsed back to the generated tree and the reference model defines its outcome (not Ux); distinct = distinct program texts",
        assumptions: &[
            "the reference model's operator table (refint::infix: i64 checked arithmetic within the 61-bit range, Rust f64, str ordering) is the specification",
            "operand values outside the enumerated lattices are not covered",
        ],
        run,
        replay,
        vacuity,
    }
}

fn opts() -> RunOpts {
    RunOpts { budget: Some(10_000), ledger: false, trace: false, render: true }
}

pub fn lattice(tier: Tier, seed: u64) -> Vec<i64> {
    let mut v: Vec<i64> = vec![0, 1, -1, 2, -2, 7, -7, INT_MIN, INT_MAX];
    let offs: &[i64] = if tier == Tier::Quick { &[-1, 0, 1] } else { &[-3, -2, -1, 0, 1, 2, 3] };
    for k in 0..=60u32 {
        let p = 1i128 << k;
        for o in offs {
            for s in [1i128, -1] {
                let x = s * (p + *o as i128);
                if x >= INT_MIN as i128 && x <= INT_MAX as i128 {
                    v.push(x as i64);
                }
            }
        }
    }
    // two seed-rotated members (the lattice is still enumerated completely)
    for j in 1..=2u64 {
        let h = hash64(&(seed, j, "c06-lattice"));
        let x = (h % (1u64 << 61)) as i128 + INT_MIN as i128;
        v.push(x as i64);
    }
    v.sort();
    v.dedup();
    v
}

/// The lattice value as source-spellable syntax.
pub fn lit_expr(v: i64) -> Expr {
    if v == INT_MIN {
        infix(neg(int(INT_MAX)), Operator::Subtract, int(1))
    } else {
        int_lit(v)
    }
}

pub fn float_values() -> Vec<f64> {
    let mut v = vec![
        0.0,
        f64::from_bits(1),
        f64::MIN_POSITIVE,
        1.0,
        1.5,
        0.1,
        9007199254740992.0,
        f64::MAX,
        f64::INFINITY,
        3.0,
        0.5,
        1e19,
    ];
    let mut neg: Vec<f64> = v.iter().map(|x| -x).collect();
    v.append(&mut neg);
    v.push(f64::NAN);
    v
}

/// Immediate neighbours: values one and two units in the last place apart, at several magnitudes
/// (equality and ordering must tell them apart: IEEE-754 comparison has no tolerance).
pub fn float_neighbours() -> Vec<f64> {
    let mut v = Vec::new();
    for base in [1.0f64, 0.3, 0.1, 1.5, 123456.789, 1e-300, 1e300, 4503599627370496.0, 0.1 + 0.2, 2.0, 1e16] {
        let b = base.to_bits();
        for bits in [b - 2, b - 1, b, b + 1, b + 2] {
            v.push(f64::from_bits(bits));
            v.push(-f64::from_bits(bits));
        }
    }
    v.sort_by(|a, b| a.total_cmp(b));
    v.dedup_by(|a, b| a.to_bits() == b.to_bits());
    v
}

/// A float value as an expression (infinities and NaN have no literal).
pub fn float_expr(f: f64) -> Expr {
    let maxlit = || flt(f64::MAX);
    if f.is_nan() {
        return infix(
            infix(maxlit(), Operator::Multiply, flt(2.0)),
            Operator::Subtract,
            infix(maxlit(), Operator::Multiply, flt(2.0)),
        );
    }
    if f.is_infinite() {
        let inf = infix(maxlit(), Operator::Multiply, flt(2.0));
        return if f > 0.0 { inf } else { neg(inf) };
    }
    if f.is_sign_negative() {
        neg(flt(-f))
    } else {
        flt(f)
    }
}

fn ops11() -> Vec<Operator> {
    let mut v = ARITH_OPS.to_vec();
    v.extend(CMP_OPS.iter().cloned());
    v
}

fn type_values() -> Vec<(&'static str, Expr)> {
    vec![
        ("null", iff(boolean(false), vec![es(int(1))], None)),
        ("bool", boolean(true)),
        ("int", int(1)),
        ("float", flt(1.5)),
        ("string", string("a")),
        ("array", array(vec![int(1)])),
        ("function", func("", &[], vec![])),
    ]
}

fn strings2() -> Vec<String> {
    let alpha = ["a", "b", "é", "😀"];
    let mut v = vec![String::new()];
    for a in alpha {
        v.push(a.to_string());
    }
    for a in alpha {
        for b in alpha {
            v.push(format!("{a}{b}"));
        }
    }
    v
}

fn run_case(sh: &mut Shard, family: &str, prog: &[Stmt]) {
    if !sh.mine() {
        return;
    }
    let p2 = prog.to_vec();
    sh.begin(&|| printer::program(&p2));
    sh.count(&format!("family:{family}"));
    if let Some(r) = differential(sh, "operator", prog, opts()) {
        if !matches!(r.model.end, crate::refint::End::Unspec(_)) {
            let text = printer::program(prog);
            sh.nontrivial(&text);
            if sh.index() % 200_003 == 0 {
                sh.sample(json!({"family": family, "program": text, "model": crate::common::model_end_text(&r.model.end)}));
            }
        }
        if let crate::refint::End::Error(_) = r.model.end {
            sh.count("expected:error");
        }
    }
}

/// Evaluates `text` and returns Some(bool) if the interpreter answered with a bool.
fn ask(text: &str) -> Option<bool> {
    match run_text(text, opts()).end {
        ImplEnd::Value(v) if v == "ja" => Some(true),
        ImplEnd::Value(v) if v == "nee" => Some(false),
        _ => None,
    }
}

/// Order axioms over a value set, observed through the interpreter only.
fn axioms(sh: &mut Shard, kind: &str, vals: &[Expr]) {
    if !sh.mine() {
        return;
    }
    sh.begin(&|| format!("order axioms over {} {kind} values", vals.len()));
    sh.count("family:axioms");
    let n = vals.len();
    let t: Vec<String> = vals.iter().map(|e| format!("({})", printer::expr_text(e))).collect();
    let mut lt = vec![vec![false; n]; n];
    let mut bad: Option<String> = None;
    for i in 0..n {
        for j in 0..n {
            let q = |op: &str| ask(&format!("{} {op} {}", t[i], t[j]));
            let (l, le, g, ge, e, ne) = (q("<"), q("<="), q(">"), q(">="), q("=="), q("!="));
            sh.add("axiom-evaluations", 6);
            match (l, le, g, ge, e, ne) {
                (Some(l), Some(le), Some(g), Some(ge), Some(e), Some(ne)) => {
                    lt[i][j] = l;
                    // exactly one of <, ==, > (total order, == iff neither < nor >)
                    if (l as u8 + e as u8 + g as u8) != 1 {
                        bad = Some(format!("trichotomy fails for {} and {}: < {l}, == {e}, > {g}", t[i], t[j]));
                    }
                    if le != (l || e) || ge != (g || e) || ne == e {
                        bad = Some(format!("derived comparisons inconsistent for {} and {}", t[i], t[j]));
                    }
                    if i == j && (l || g || !e) {
                        bad = Some(format!("irreflexivity fails for {}", t[i]));
                    }
                }
                _ => bad = Some(format!("a comparison of {} and {} did not yield a bool", t[i], t[j])),
            }
        }
    }
    if bad.is_none() {
        'o: for i in 0..n {
            for j in 0..n {
                if lt[i][j] && lt[j][i] {
                    bad = Some(format!("antisymmetry fails for {} and {}", t[i], t[j]));
                    break 'o;
                }
                for k in 0..n {
                    if lt[i][j] && lt[j][k] && !lt[i][k] {
                        bad = Some(format!("transitivity fails: {} < {} < {} but not {} < {}", t[i], t[j], t[k], t[i], t[k]));
                        break 'o;
                    }
                }
            }
        }
        sh.add("axiom-triples", (n * n * n) as u64);
    }
    sh.nontrivial(&format!("axioms:{kind}"));
    if let Some(why) = bad {
        let values: Vec<String> = t.clone();
        sh.violation("order-axioms", json!({"axioms": kind, "values": values}), why);
    }
}

fn axiom_sets(tier: Tier, seed: u64) -> Vec<(&'static str, Vec<Expr>)> {
    let lat = lattice(tier, seed);
    // 40 integers spread over the lattice, both ends included
    let mut ints: Vec<i64> = Vec::new();
    let step = (lat.len() as f64 / 38.0).max(1.0);
    let mut x = 0.0;
    while (x as usize) < lat.len() && ints.len() < 38 {
        ints.push(lat[x as usize]);
        x += step;
    }
    ints.push(INT_MAX);
    ints.push(0);
    ints.sort();
    ints.dedup();
    let floats: Vec<f64> = float_values().into_iter().filter(|f| !f.is_nan() && !(*f == 0.0 && f.is_sign_negative())).collect();
    vec![
        ("int", ints.into_iter().map(lit_expr).collect()),
        ("float", floats.into_iter().map(float_expr).collect()),
        ("string", strings2().iter().map(|s| string(s)).collect()),
    ]
}

fn run(sh: &mut Shard) {
    let (tier, seed) = (sh.cfg.tier, sh.cfg.seed);
    let ops = ops11();
    // F5/F4 first (simplest): bool truth tables and cross-type table
    for a in [false, true] {
        for b in [false, true] {
            for op in LOGIC_OPS.iter() {
                run_case(sh, "bool-table", &[es(infix(boolean(a), op.clone(), boolean(b)))]);
            }
        }
    }
    // the SAME value on both sides (one object, not two equal ones): through one name, an alias, a list element,
    // a parameter passed twice, at top level and in a function — for every float (NaN: `x == x` is nee), every
    // boundary integer, strings, and one value of every type
    {
        let mut vals: Vec<Expr> = float_values().into_iter().chain(float_neighbours().into_iter().take(12)).map(float_expr).collect();
        vals.extend(lattice(Tier::Quick, seed).into_iter().filter(|v| v.abs() <= 2 || v.abs() >= (1i64 << 58)).map(lit_expr));
        vals.extend(strings2().into_iter().take(8).map(|t| string(&t)));
        vals.push(string("een tekst die lang genoeg is om niet klein te zijn"));
        vals.extend(type_values().into_iter().map(|(_, e)| e));
        let mut all_ops = ops.clone();
        all_ops.extend(LOGIC_OPS.iter().cloned());
        for v in &vals {
            for op in &all_ops {
                run_case(sh, "same-operand", &[let_("x", v.clone()), es(infix(id("x"), op.clone(), id("x")))]);
                run_case(sh, "same-operand", &[let_("x", v.clone()), let_("y", id("x")), es(infix(id("x"), op.clone(), id("y")))]);
                run_case(sh, "same-operand", &[let_("l", array(vec![v.clone()])), es(infix(index(id("l"), int(0)), op.clone(), index(id("l"), int(0))))]);
                run_case(sh, "same-operand", &[es(func("f", &["p", "q"], vec![es(infix(id("p"), op.clone(), id("q")))])), let_("x", v.clone()), es(calln("f", vec![id("x"), id("x")]))]);
                run_case(sh, "same-operand", &[es(call(func("", &[], vec![let_("x", v.clone()), es(prefix(Operator::Not, infix(id("x"), op.clone(), id("x"))))]), vec![]))]);
            }
        }
    }
    // every operator in its `variable op literal` forms (both orders, compound) on the variable in slot number S,
    // for S around every power of two up to 4 096 and every S up to 300: a local of a function with S + 1
    // variables, and the global number S (the value identifies the slot: slot k holds 1000 + k)
    {
        let mut slots: Vec<usize> = (0..=300).collect();
        for k in 9..=12 {
            let n = 1usize << k;
            slots.extend([n - 2, n - 1, n, n + 1]);
        }
        for s_no in slots {
            let decls: Vec<Stmt> = (0..=s_no).map(|k| let_(&format!("l{k}"), int(1000 + k as i64))).collect();
            let x = format!("l{s_no}");
            let mut uses: Vec<Expr> = Vec::new();
            // (every operator at the slots next to a power of two, two of them elsewhere)
            let near = s_no < 3 || (s_no + 2).is_power_of_two() || (s_no + 1).is_power_of_two() || s_no.is_power_of_two() || (s_no - 1).is_power_of_two();
            for (i, op) in ops.iter().enumerate() {
                if near || i == s_no % ops.len() || i == 0 {
                    uses.push(infix(id(&x), op.clone(), int(7)));
                    uses.push(infix(int(7), op.clone(), id(&x)));
                }
            }
            let mut body = decls.clone();
            body.push(es(op_assign(&x, Operator::Add, int(5))));
            body.push(es(array(uses.clone())));
            run_case(sh, "slot-numbers", &[es(call(func("", &[], body.clone()), vec![]))]);
            run_case(sh, "slot-numbers", &body);
        }
    }
    let tv = type_values();
    let mut all_ops = ops.clone();
    all_ops.extend(LOGIC_OPS.iter().cloned());
    for (_, a) in &tv {
        for (_, b) in &tv {
            if matches!(a, Expr::Function { .. }) {
                // a function literal cannot stand left of an operator: go through a variable
                for op in &all_ops {
                    run_case(sh, "cross-type", &[let_("f", a.clone()), es(infix(id("f"), op.clone(), b.clone()))]);
                }
                continue;
            }
            for op in &all_ops {
                run_case(sh, "cross-type", &[es(infix(a.clone(), op.clone(), b.clone()))]);
                // and through variables (same values, generic opcodes on globals)
                run_case(
                    sh,
                    "cross-type",
                    &[let_("x", a.clone()), let_("y", b.clone()), es(infix(id("x"), op.clone(), id("y")))],
                );
            }
        }
    }
    // every type as the variable of a fused variable-op-literal / literal-op-variable form inside a function
    for (_, a) in &tv {
        for lit in [0i64, 1, 7] {
            for op in &all_ops {
                run_case(
                    sh,
                    "cross-type-local",
                    &[es(call(func("", &["x"], vec![es(infix(id("x"), op.clone(), int(lit)))]), vec![a.clone()]))],
                );
                run_case(
                    sh,
                    "cross-type-local",
                    &[es(call(func("", &["x"], vec![es(infix(int(lit), op.clone(), id("x")))]), vec![a.clone()]))],
                );
                run_case(
                    sh,
                    "cross-type-local",
                    &[es(call(func("", &[], vec![let_("x", a.clone()), es(infix(id("x"), op.clone(), int(lit)))]), vec![]))],
                );
            }
        }
    }
    // what CONSUMES the result: the same fused forms (every type and a reduced integer lattice as the variable)
    // with the comparison / sum used as a condition, negated, combined, stored, returned, passed, as an element
    {
        let consumers = |e: Expr| -> Vec<Vec<Stmt>> {
            vec![
                vec![es(iff(e.clone(), vec![es(int(1))], Some(vec![es(int(2))])))],
                vec![es(iff(e.clone(), vec![es(int(1))], None))],
                vec![es(iff(prefix(Operator::Not, e.clone()), vec![es(int(1))], Some(vec![es(int(2))])))],
                vec![let_("n", int(0)), es(whil(e.clone(), vec![es(assign(id("n"), infix(id("n"), Operator::Add, int(1)))), es(iff(infix(id("n"), Operator::Gt, int(2)), vec![Stmt::Break], None))])), es(id("n"))],
                vec![es(iff(boolean(true), vec![es(e.clone())], None))],
                vec![es(infix(e.clone(), Operator::And, boolean(true)))],
                vec![es(infix(boolean(false), Operator::Or, e.clone()))],
                vec![es(iff(infix(e.clone(), Operator::And, boolean(true)), vec![es(int(1))], Some(vec![es(int(2))])))],
                vec![es(array(vec![e.clone(), int(5)]))],
                vec![es(calln("type", vec![e.clone()]))],
                vec![let_("r", e.clone()), es(id("r"))],
                vec![Stmt::Return(e.clone())],
                vec![es(iff(e.clone(), vec![Stmt::Return(int(1))], None)), es(int(2))],
            ]
        };
        let lat = lattice(sh.cfg.tier, sh.cfg.seed);
        let step = (lat.len() / 24).max(1);
        let xs: Vec<Expr> = tv.iter().map(|(_, a)| a.clone()).chain(lat.iter().step_by(step).map(|v| lit_expr(*v))).collect();
        for a in &xs {
            for lit in [0i64, 1, 7, 1 << 40] {
                for op in &all_ops {
                    for e in [infix(id("x"), op.clone(), int(lit)), infix(int(lit), op.clone(), id("x"))] {
                        for body in consumers(e) {
                            run_case(sh, "consumers", &[es(call(func("", &["x"], body), vec![a.clone()]))]);
                        }
                    }
                }
            }
        }
    }
    // prefix operators on every type
    for (_, a) in &tv {
        for op in [Operator::Subtract, Operator::Not] {
            run_case(sh, "prefix", &[let_("x", a.clone()), es(prefix(op.clone(), id("x")))]);
        }
    }
    // F3 strings
    let ss = strings2();
    for a in &ss {
        for b in &ss {
            for op in CMP_OPS.iter() {
                run_case(sh, "string", &[es(infix(string(a), op.clone(), string(b)))]);
            }
        }
    }
    // F3b longer strings: lengths around the machine-word sizes, pairs that differ at TWO positions in opposite
    // directions (the first difference must decide), at one position, or by being a prefix; wide characters too
    {
        let base: Vec<char> = "abcdefghijklmnopqrstuvwxyzabcdefghijklmnopqrstuvwxyz".chars().collect();
        let mut pairs: Vec<(String, String)> = Vec::new();
        for len in [3usize, 4, 5, 7, 8, 9, 15, 16, 17, 24, 31, 32, 33] {
            let positions: Vec<usize> = (0..len).filter(|p| len <= 17 || *p < 2 || *p + 2 >= len || (p % 8 <= 1 || p % 8 == 7)).collect();
            let mk = |edits: &[(usize, char)]| -> String {
                let mut v: Vec<char> = base[..len].to_vec();
                for (p, c) in edits {
                    v[*p] = *c;
                }
                v.into_iter().collect()
            };
            for (i, d1) in positions.iter().enumerate() {
                pairs.push((mk(&[(*d1, 'B')]), mk(&[])));
                pairs.push((mk(&[(*d1, 'é')]), mk(&[(*d1, '€')])));
                for d2 in &positions[i + 1..] {
                    pairs.push((mk(&[(*d1, 'y'), (*d2, 'B')]), mk(&[(*d1, 'B'), (*d2, 'y')])));
                    pairs.push((mk(&[(*d1, 'é'), (*d2, 'B')]), mk(&[(*d1, 'z'), (*d2, '😀')])));
                }
            }
            for k in 0..len {
                pairs.push((base[..k].iter().collect(), mk(&[])));
            }
            pairs.push((mk(&[]), mk(&[])));
        }
        for (a, b) in &pairs {
            for (x, y) in [(a, b), (b, a)] {
                for op in CMP_OPS.iter() {
                    run_case(sh, "string-long", &[es(infix(string(x), op.clone(), string(y)))]);
                    run_case(
                        sh,
                        "string-long",
                        &[es(call(func("", &["p", "q"], vec![es(infix(id("p"), op.clone(), id("q")))]), vec![string(x), string(y)]))],
                    );
                }
            }
        }
    }
    // F2b neighbouring floats: every pair of values at most a few units in the last place apart (and every
    // pair across magnitudes), all operators; and equality of an arithmetic result with the literal next to it
    {
        let nb = float_neighbours();
        for a in &nb {
            for b in &nb {
                for op in CMP_OPS.iter() {
                    run_case(sh, "float-neighbours", &[es(infix(float_expr(*a), op.clone(), float_expr(*b)))]);
                    run_case(sh, "float-neighbours", &[let_("x", float_expr(*a)), let_("y", float_expr(*b)), es(infix(id("x"), op.clone(), id("y")))]);
                }
            }
        }
        for (l, r) in [
            (infix(flt(0.1), Operator::Add, flt(0.2)), flt(0.3)),
            (infix(flt(0.1), Operator::Multiply, flt(3.0)), flt(0.3)),
            (infix(flt(1.0), Operator::Divide, flt(3.0)), flt(0.3333333333333333)),
            (infix(flt(1.1), Operator::Multiply, flt(1.1)), flt(1.21)),
            (infix(flt(100.0), Operator::Subtract, flt(99.9)), flt(0.1)),
            (infix(infix(flt(0.1), Operator::Add, flt(0.2)), Operator::Add, flt(0.3)), infix(flt(0.1), Operator::Add, infix(flt(0.2), Operator::Add, flt(0.3)))),
        ] {
            for op in CMP_OPS.iter() {
                run_case(sh, "float-neighbours", &[es(infix(l.clone(), op.clone(), r.clone()))]);
                run_case(sh, "float-neighbours", &[es(call(func("", &["p", "q"], vec![es(infix(id("p"), op.clone(), id("q")))]), vec![l.clone(), r.clone()]))]);
            }
        }
    }
    // F2c an operator applied to the RESULT of a comparison: !(x op y) for every float pair (NaN and both zeros
    // included) and every type pair; the negation of a comparison is not the opposite comparison
    {
        let fv = float_values();
        for a in &fv {
            for b in &fv {
                for op in CMP_OPS.iter() {
                    run_case(sh, "negated-comparison", &[es(prefix(Operator::Not, infix(float_expr(*a), op.clone(), float_expr(*b))))]);
                    run_case(
                        sh,
                        "negated-comparison",
                        &[es(call(func("", &["p", "q"], vec![es(iff(prefix(Operator::Not, infix(id("p"), op.clone(), id("q"))), vec![es(int(1))], Some(vec![es(int(2))])))]), vec![float_expr(*a), float_expr(*b)]))],
                    );
                }
            }
        }
        for (_, a) in &tv {
            for (_, b) in &tv {
                for op in CMP_OPS.iter() {
                    run_case(sh, "negated-comparison", &[let_("x", a.clone()), let_("y", b.clone()), es(prefix(Operator::Not, infix(id("x"), op.clone(), id("y"))))]);
                }
            }
        }
    }
    // F2 floats
    let fv = float_values();
    for a in &fv {
        for b in &fv {
            for op in &ops {
                run_case(
                    sh,
                    "float",
                    &[let_("x", float_expr(*a)), let_("y", float_expr(*b)), es(infix(id("x"), op.clone(), id("y")))],
                );
            }
        }
        run_case(sh, "float", &[es(neg(float_expr(*a)))]);
        // the very same object on both sides
        for op in &ops {
            run_case(sh, "float-self", &[let_("x", float_expr(*a)), es(infix(id("x"), op.clone(), id("x")))]);
            run_case(
                sh,
                "float-self",
                &[es(call(func("", &["p", "q"], vec![es(infix(id("p"), op.clone(), id("q")))]), vec![float_expr(*a), float_expr(*a)]))],
            );
            run_case(
                sh,
                "float-self",
                &[let_("x", float_expr(*a)), es(call(func("", &["p", "q"], vec![es(infix(id("p"), op.clone(), id("q")))]), vec![id("x"), id("x")]))],
            );
        }
    }
    for a in &ss {
        for op in CMP_OPS.iter() {
            run_case(sh, "string-self", &[let_("x", string(a)), es(infix(id("x"), op.clone(), id("x")))]);
        }
    }
    // integer literals around and beyond the range ends: in range they denote themselves, outside they are refused
    for k in 57..=64u32 {
        for off in [-2i128, -1, 0, 1, 2] {
            let v = (1i128 << k) + off;
            if v < 0 || v > u64::MAX as i128 {
                continue;
            }
            let text = v.to_string();
            for prog in [text.clone(), format!("-{text}"), format!("stel x = {text}; x + 0"), format!("functie(p) {{ p - {text} }}(0)"), format!("{text} == {text}")] {
                if !sh.mine() {
                    continue;
                }
                let t = prog.clone();
                sh.begin(&|| t.clone());
                sh.count("family:int-literal-range");
                match crate::common::parse_guarded(&prog) {
                    crate::common::Parsed::Ok(_) => {
                        if let Some(r) = differential_text(sh, "operator", &prog, None, opts()) {
                            if !matches!(r.model.end, crate::refint::End::Unspec(_)) {
                                sh.nontrivial(&prog);
                            }
                        }
                    }
                    crate::common::Parsed::Err(_) => {
                        // refused by the parser: fine iff the value is out of range
                        if v <= INT_MAX as i128 {
                            sh.violation("operator", json!({"program": prog}), format!("the in-range literal {text} was refused"));
                        }
                        sh.nontrivial(&prog);
                    }
                    crate::common::Parsed::Panic(p) => sh.violation("operator", json!({"program": prog}), format!("panic: {p}")),
                }
            }
        }
    }
    // F6 order axioms
    for (kind, vals) in axiom_sets(tier, seed) {
        axioms(sh, kind, &vals);
    }
    // F1b ordinary (non-boundary) integers: round decimals, values between 2^31 and 2^32, factors whose product
    // lies just below / at / above the range limit, multiples and non-multiples; every pair, every operator,
    // four forms (literals; local op literal; literal op local; local op local)
    {
        let mut ord: Vec<i64> = vec![
            3, 5, 8, 10, 12, 100, 255, 1000, 1001, 1024, 12345, 65535, 99999, 1_000_000, 16_777_217, 123_456_789, 2_147_483_647, 2_147_483_648, 3_000_000_000, 4_294_967_295, 4_294_967_296,
            4_294_967_297, 10_000_000_000, 1_000_000_000_000, 9_007_199_254_740_993, 1_000_000_000_000_000_000,
            // around the square root of the range limit 2^60: products just inside and just outside
            1_073_741_823, 1_073_741_824, 1_073_741_825, 759_250_124, 759_250_125, 1_518_500_249, 1_518_500_250,
        ];
        let neg: Vec<i64> = ord.iter().map(|x| -x).collect();
        ord.extend(neg);
        for a in &ord {
            for b in &ord {
                for op in &ops {
                    run_case(sh, "int-ordinary", &[es(infix(lit_expr(*a), op.clone(), lit_expr(*b)))]);
                    run_case(sh, "int-ordinary", &[es(call(func("", &["x"], vec![es(infix(id("x"), op.clone(), lit_expr(*b)))]), vec![lit_expr(*a)]))]);
                    run_case(sh, "int-ordinary", &[es(call(func("", &["x"], vec![es(infix(lit_expr(*a), op.clone(), id("x")))]), vec![lit_expr(*b)]))]);
                    run_case(sh, "int-ordinary", &[es(call(func("", &["x", "y"], vec![es(infix(id("x"), op.clone(), id("y")))]), vec![lit_expr(*a), lit_expr(*b)]))]);
                }
            }
        }
        // integers against floats (an integer beyond 2^53 is not exactly a float), both orders, as values and locals
        let fv = float_values();
        for a in ord.iter().chain([0i64, 1, -1, 2, 7, (1 << 53) + 1, (1 << 60) - 1].iter()) {
            for f in &fv {
                for op in &ops {
                    run_case(sh, "int-float", &[es(infix(lit_expr(*a), op.clone(), float_expr(*f)))]);
                    run_case(sh, "int-float", &[es(infix(float_expr(*f), op.clone(), lit_expr(*a)))]);
                    run_case(sh, "int-float", &[es(call(func("", &["x", "y"], vec![es(infix(id("x"), op.clone(), id("y")))]), vec![lit_expr(*a), float_expr(*f)]))]);
                }
            }
        }
    }
    // F1c three-operand chains x op1 c1 op2 c2 (the shape compilers fold): x from the range ends and a few
    // ordinary values, c1 / c2 from small and huge constants, every pair of arithmetic operators; x a local,
    // a global, and a literal
    {
        let max = (1i64 << 60) - 1;
        let xs: Vec<i64> = vec![max, -max, -max - 1, max - 1, 0, 1, -1, 7, -7, 1000, 1 << 31, (1 << 59) + 3, 123_456_789_012];
        let cs: Vec<i64> = vec![1, 2, 3, 7, 10, 1 << 16, 1 << 30, (1 << 30) + 1, 1 << 32, 3_037_000_500, 1 << 59, max, -1, -2, -(1 << 30)];
        let chain_ops = [Operator::Add, Operator::Subtract, Operator::Multiply, Operator::Divide, Operator::Modulo];
        for x in &xs {
            for c1 in &cs {
                for c2 in &cs {
                    for op1 in &chain_ops {
                        for op2 in &chain_ops {
                            let e = |xe: Expr| infix(infix(xe, op1.clone(), lit_expr(*c1)), op2.clone(), lit_expr(*c2));
                            run_case(sh, "int-chain", &[es(call(func("", &["x"], vec![es(e(id("x")))]), vec![lit_expr(*x)]))]);
                            run_case(sh, "int-chain", &[let_("x", lit_expr(*x)), es(e(id("x")))]);
                            // literal first: c1 op1 x op2 c2
                            run_case(
                                sh,
                                "int-chain",
                                &[es(call(func("", &["x"], vec![es(infix(infix(lit_expr(*c1), op1.clone(), id("x")), op2.clone(), lit_expr(*c2)))]), vec![lit_expr(*x)]))],
                            );
                        }
                    }
                }
            }
        }
    }
    // F1e an all-literal expression as the right (and left) operand of a local: x op0 (c1 op1 c2) and
    // x op0 (c1 op1 c2 op2 c3) with range-end constants (an intermediate result outside the range is an error
    // wherever it arises)
    {
        let max = (1i64 << 60) - 1;
        let cs: Vec<i64> = vec![1, 2, 4, 8, 7, max, max - 1, 1 << 59, -max - 1, -1, 1 << 30];
        let aops = [Operator::Add, Operator::Subtract, Operator::Multiply, Operator::Divide, Operator::Modulo];
        for x in [1i64, -1, 0, max, 7] {
            for op0 in &aops {
                for c1 in &cs {
                    for c2 in &cs {
                        for op1 in &aops {
                            let inner = infix(lit_expr(*c1), op1.clone(), lit_expr(*c2));
                            run_case(sh, "int-literal-operand", &[es(call(func("", &["x"], vec![es(infix(id("x"), op0.clone(), inner.clone()))]), vec![lit_expr(x)]))]);
                            run_case(sh, "int-literal-operand", &[es(call(func("", &["x"], vec![es(infix(inner.clone(), op0.clone(), id("x")))]), vec![lit_expr(x)]))]);
                            run_case(sh, "int-literal-operand", &[let_("x", lit_expr(x)), es(infix(id("x"), op0.clone(), inner.clone()))]);
                            for c3 in [2i64, 8, max, -1] {
                                for op2 in &aops {
                                    let inner3 = infix(inner.clone(), op2.clone(), lit_expr(c3));
                                    run_case(sh, "int-literal-operand", &[es(call(func("", &["x"], vec![es(infix(id("x"), op0.clone(), inner3.clone()))]), vec![lit_expr(x)]))]);
                                    run_case(sh, "int-literal-operand", &[es(call(func("", &["x"], vec![es(infix(id("x"), op0.clone(), neg(inner3)))]), vec![lit_expr(x)]))]);
                                }
                            }
                        }
                    }
                }
            }
        }
    }
    // F1d the same chains over floats (floating-point addition and multiplication are not associative: nothing
    // may be regrouped), x a local and a global
    {
        let xs: Vec<f64> = vec![0.1, 0.2, 0.3, 0.7, 1.0, 1.5, -0.1, 0.0, 1e16, 4503599627370496.0, 1e-16, 1e300, -1e300, 3.0, 1.0 / 3.0];
        let cs: Vec<f64> = vec![0.1, 0.2, 0.3, 0.5, 0.7, 1.0, 1.5, 3.0, 1e16, 1e-16, -0.1, -1.0, 1e300, 2.0];
        let chain_ops = [Operator::Add, Operator::Subtract, Operator::Multiply, Operator::Divide];
        for x in &xs {
            for c1 in &cs {
                for c2 in &cs {
                    for op1 in &chain_ops {
                        for op2 in &chain_ops {
                            let e = |xe: Expr| infix(infix(xe, op1.clone(), float_expr(*c1)), op2.clone(), float_expr(*c2));
                            run_case(sh, "float-chain", &[es(call(func("", &["x"], vec![es(e(id("x")))]), vec![float_expr(*x)]))]);
                            run_case(sh, "float-chain", &[let_("x", float_expr(*x)), es(e(id("x")))]);
                            run_case(
                                sh,
                                "float-chain",
                                &[es(call(func("", &["x"], vec![es(infix(infix(float_expr(*c1), op1.clone(), id("x")), op2.clone(), float_expr(*c2)))]), vec![float_expr(*x)]))],
                            );
                        }
                    }
                }
            }
        }
    }
    // F1 the integer lattice, four forms
    let lat = lattice(tier, seed);
    for a in &lat {
        run_case(sh, "int-negate", &[es(neg(lit_expr(*a)))]);
        run_case(sh, "int-negate", &[es(call(func("", &["x"], vec![es(neg(id("x")))]), vec![lit_expr(*a)]))]);
    }
    for a in &lat {
        for b in &lat {
            if !sh.running() {
                return;
            }
            for op in &ops {
                // literal op literal
                run_case(sh, "int-literal", &[es(infix(lit_expr(*a), op.clone(), lit_expr(*b)))]);
                // variable op literal inside a function
                run_case(
                    sh,
                    "int-var-lit",
                    &[es(call(func("", &["x"], vec![es(infix(id("x"), op.clone(), lit_expr(*b)))]), vec![lit_expr(*a)]))],
                );
                // literal op variable inside a function
                run_case(
                    sh,
                    "int-lit-var",
                    &[es(call(func("", &["x"], vec![es(infix(lit_expr(*a), op.clone(), id("x")))]), vec![lit_expr(*b)]))],
                );
                // local op local
                run_case(
                    sh,
                    "int-var-var",
                    &[es(call(func("", &["x", "y"], vec![es(infix(id("x"), op.clone(), id("y")))]), vec![lit_expr(*a), lit_expr(*b)]))],
                );
            }
        }
    }
}

fn replay(sh: &mut Shard, case: &Value) {
    sh.mine();
    if let Some(p) = case["program"].as_str() {
        differential_text(sh, "operator", p, None, opts());
    } else if let Some(kind) = case["axioms"].as_str() {
        // re-run the axiom family of that kind
        sh.only = None;
        for (k, vals) in axiom_sets(sh.cfg.tier, sh.cfg.seed) {
            if k == kind {
                // force execution
                let mut one = Shard::new("C06", sh.cfg.clone(), 0, 1);
                one.verbose = true;
                one.known.clear();
                axioms(&mut one, k, &vals);
                sh.violations.extend(one.violations);
            }
        }
    }
}

fn vacuity(m: &Merged) -> Option<String> {
    for fam in ["int-literal", "int-var-lit", "int-lit-var", "int-var-var", "int-ordinary", "int-float", "int-chain", "int-literal-operand", "float-chain", "float", "string", "string-long", "float-neighbours", "negated-comparison", "cross-type", "consumers", "bool-table", "axioms"] {
        if m.counters.get(&format!("family:{fam}")).copied().unwrap_or(0) == 0 {
            return Some(format!("family {fam} produced no case"));
        }
    }
    if m.counters.get("skipped:reparse-mismatch").copied().unwrap_or(0) > 0 {
        return Some("some generated programs did not parse back to the generated tree".into());
    }
    if m.distinct_outcomes < 50 {
        return Some(format!("only {} distinct outcomes", m.distinct_outcomes));
    }
    None
}
