//! C01 — running a program yields what its source denotes (DESIGN 5, C01).

use super::Prop;
use crate::common::{differential, differential_text};
use crate::outcome::RunOpts;
use crate::pool::Merged;
use crate::printer;
use crate::refint::{End, Interp};
use crate::shard::Shard;
use crate::slices;
use nederlang::verif;
use serde_json::{json, Value};

pub fn prop() -> Prop {
    Prop {
        id: "C01",
        level: "exploration",
        rule: "every program of each slice grammar (arith, arith-local, arith-global, ctrl, ctrl-local, fun, heap, heap-local, builtin, mix: DESIGN 5/C01) with at most N nodes, enumerated completely by size, printed, parsed by the real parser (the parsed tree must equal the generated one), evaluated by the definitional interpreter and by the real compiler + VM; plus the corpus (examples, README snippets, test programs). Non-trivial = parsed back to the generated tree and the model defines its outcome (not excluded under DESIGN 4.3); distinct = distinct program texts",
        assumptions: &[
            "the reference model (refint, DESIGN 4.2) is the specification; it is tied to the README and the repository's own test expectations by the selftest table",
            "programs larger than the slice bounds and alphabets are not covered",
            "behaviours listed in DESIGN 4.3 (U1-U14) are excluded from comparison and counted",
        ],
        run,
        replay,
        vacuity,
    }
}

thread_local! {
    /// Under the shadow heap a freed address is never used again; the directed families and the nesting
    /// templates of depth 2 run a second time WITHOUT it, so that whatever the implementation remembers by
    /// address meets real reuse.
    static LEDGER: std::cell::Cell<bool> = std::cell::Cell::new(true);
}

pub fn opts() -> RunOpts {
    RunOpts { budget: Some(crate::outcome::QUICK_BUDGET), ledger: LEDGER.with(|c| c.get()), trace: true, render: true }
}

pub fn opcode_names() -> Vec<String> {
    verif::opcodes().into_iter().map(|(_, n, _)| n).collect()
}

fn run(sh: &mut Shard) {
    // second pass (without the shadow heap) first: directed families and the depth-2 nesting templates
    LEDGER.with(|c| c.set(false));
    for prog in slices::evaluation_order_programs()
        .into_iter()
        .chain(slices::literal_pristine_programs())
        .chain(slices::block_function_programs())
        .chain(slices::nested_function_programs())
    {
        if !sh.mine() {
            continue;
        }
        sh.begin(&|| printer::program(&prog));
        sh.count("slice:second-pass-without-shadow-heap");
        differential(sh, "semantics", &prog, opts());
    }
    crate::compose::for_each(2, &mut |_, prog| {
        if sh.mine() {
            sh.begin(&|| printer::program(prog));
            sh.count("slice:second-pass-without-shadow-heap");
            differential(sh, "semantics", prog, opts());
            let _ = verif::trace_take();
        }
        sh.running()
    });
    LEDGER.with(|c| c.set(true));
    let tier = sh.cfg.tier;
    // a literal evaluated again is pristine, whatever its earlier value went through
    for prog in crate::slices::literal_pristine_programs() {
        if !sh.mine() {
            continue;
        }
        sh.begin(&|| printer::program(&prog));
        sh.count("family:literal-pristine");
        if let Some(r) = differential(sh, "semantics", &prog, opts()) {
            if !matches!(r.model.end, End::Unspec(_) | End::Diverge) {
                sh.nontrivial(&printer::program(&prog));
            } else {
                sh.count("literal-pristine-unspecified");
            }
        }
    }
    // size ladders across the operand-width boundaries, with the model as value oracle
    crate::ladders::run_family(sh, "semantics", None, false);
    let names = opcode_names();
    let mut ophits = vec![0u64; names.len()];
    for (text, _) in corpus() {
        if !sh.mine() {
            continue;
        }
        let t = text.clone();
        sh.begin(&|| t.clone());
        sh.count("slice:corpus");
        if let Some(r) = differential_text(sh, "semantics", &text, None, RunOpts { budget: Some(50_000_000), ledger: true, trace: false, render: true }) {
            if !matches!(r.model.end, End::Unspec(_) | End::Diverge) {
                sh.nontrivial(&text);
            }
        }
    }
    for prog in slices::evaluation_order_programs() {
        if !sh.mine() {
            continue;
        }
        sh.begin(&|| printer::program(&prog));
        sh.count("slice:evaluation-order");
        if let Some(r) = differential(sh, "semantics", &prog, opts()) {
            if !matches!(r.model.end, End::Unspec(_) | End::Diverge) {
                sh.nontrivial(&printer::program(&prog));
            } else {
                sh.count("evaluation-order-unspecified");
            }
        }
    }
    for prog in slices::block_function_programs() {
        if !sh.mine() {
            continue;
        }
        sh.begin(&|| printer::program(&prog));
        sh.count("slice:directed-block-functions");
        if let Some(r) = differential(sh, "semantics", &prog, opts()) {
            if !matches!(r.model.end, End::Unspec(_) | End::Diverge) {
                sh.nontrivial(&printer::program(&prog));
            }
        }
    }
    // a loop with an exit as the LAST of N+1 elements / arguments (N operands are pending when the exit runs), N
    // around every power of two to 1 025 (4 097), at top level and in a function, one and two levels of lists
    {
        use crate::gen::*;
        use nederlang::verif::{Operator, Stmt};
        let mut ns: Vec<usize> = vec![0, 1, 2, 3, 100];
        for k in 2..=(if tier == crate::shard::Tier::Quick { 10 } else { 12 }) {
            let n = 1usize << k;
            ns.extend([n - 1, n, n + 1]);
        }
        for n in ns {
            for exit in [Stmt::Break, Stmt::Continue] {
                let looped = whil(
                    infix(id("i"), Operator::Lt, int(3)),
                    vec![es(assign(id("i"), infix(id("i"), Operator::Add, int(1)))), es(iff(infix(id("i"), Operator::Eq, int(2)), vec![exit.clone()], None)), es(assign(id("s"), infix(id("s"), Operator::Add, int(10))))],
                );
                // (the value of a loop that iterated is U4: the element is a branch that runs the loop and then yields 7)
                let looped = iff(boolean(true), vec![es(looped), es(int(7))], None);
                let mut elems: Vec<nederlang::verif::Expr> = (0..n).map(|k| int(1000 + k as i64)).collect();
                elems.push(looped.clone());
                let flat = vec![let_("i", int(0)), let_("s", int(0)), let_("l", array(elems.clone())), es(array(vec![calln("lengte", vec![id("l")]), id("s"), id("i"), if n > 0 { index(id("l"), int(0)) } else { int(0) }, if n > 0 { index(id("l"), int(n as i64 - 1)) } else { int(0) }]))];
                let half = n / 2;
                let mut outer: Vec<nederlang::verif::Expr> = (0..half).map(|k| int(k as i64)).collect();
                let mut inner: Vec<nederlang::verif::Expr> = (half..n).map(|k| int(k as i64)).collect();
                inner.push(looped.clone());
                outer.push(array(inner));
                let nested = vec![let_("i", int(0)), let_("s", int(0)), let_("l", array(outer)), es(array(vec![calln("lengte", vec![id("l")]), calln("lengte", vec![index(id("l"), int_lit(-1))]), id("s"), id("i")]))];
                for body in [flat, nested] {
                    for in_function in [false, true] {
                        if !sh.mine() {
                            continue;
                        }
                        let prog: Vec<Stmt> = if in_function { vec![es(call(func("", &[], body.clone()), vec![]))] } else { body.clone() };
                        sh.begin(&|| format!("exit behind {n} pending operands (in a function: {in_function})"));
                        sh.count("slice:exit-behind-pending-operands");
                        if let Some(r) = differential(sh, "semantics", &prog, opts()) {
                            if !matches!(r.model.end, End::Unspec(_) | End::Diverge) {
                                sh.nontrivial(&printer::program(&prog));
                            } else {
                                sh.count("exit-behind-pending-operands-unspecified");
                            }
                        }
                    }
                }
            }
        }
    }
    // integers that coincide with a function's packed entry offset and slot count
    slices::descriptor_literal_programs(if tier == crate::shard::Tier::Quick { 160 } else { 2_000 }, &mut |prog| {
        if !sh.mine() {
            return;
        }
        sh.begin(&|| printer::program(&prog));
        sh.count("slice:descriptor-literals");
        if let Some(r) = differential(sh, "semantics", &prog, opts()) {
            if !matches!(r.model.end, End::Unspec(_) | End::Diverge) {
                sh.nontrivial(&printer::program(&prog));
            }
        }
    });
    // scope events x kinds of use (plain, fused with a literal, compound, assignment, argument, index)
    slices::scope_event_programs(if tier == crate::shard::Tier::Quick { 2 } else { 3 }, &mut |prog| {
        if !sh.mine() {
            return;
        }
        sh.begin(&|| printer::program(&prog));
        sh.count("slice:scope-events");
        if let Some(r) = differential(sh, "semantics", &prog, opts()) {
            if !matches!(r.model.end, End::Unspec(_) | End::Diverge) {
                sh.nontrivial(&printer::program(&prog));
            } else {
                sh.count("scope-events-unspecified");
            }
        }
    });
    for prog in slices::nested_function_programs() {
        if !sh.mine() {
            continue;
        }
        sh.begin(&|| printer::program(&prog));
        sh.count("slice:directed-nested");
        if let Some(r) = differential(sh, "semantics", &prog, opts()) {
            if !matches!(r.model.end, End::Unspec(_) | End::Diverge) {
                sh.nontrivial(&printer::program(&prog));
            }
        }
    }
    // nesting templates: every ordered pair (quick) / triple (thorough) of constructs around every leaf
    for depth in 1..=(if tier == crate::shard::Tier::Quick { 3 } else { 4 }) {
        crate::compose::for_each(depth, &mut |names, prog| {
            if !sh.mine() {
                return sh.running();
            }
            sh.begin(&|| printer::program(prog));
            sh.count("slice:compose");
            if let Some(r) = differential(sh, "semantics", prog, opts()) {
                for t in verif::trace_take() {
                    if (t.op as usize) < ophits.len() {
                        ophits[t.op as usize] += 1;
                    }
                }
                if !matches!(r.model.end, End::Unspec(_) | End::Diverge) {
                    sh.nontrivial(&printer::program(prog));
                    if matches!(r.model.end, End::Value(_)) {
                        sh.count("compose-programs-yielding-a-value");
                    }
                    let _ = names;
                }
            }
            sh.running()
        });
    }
    for sl in slices::slices() {
        let name = sl.name;
        slices::for_each_program(&sl, tier, sh, &mut |sh, prog| {
            if !sh.mine() {
                return sh.running();
            }
            sh.begin(&|| printer::program(prog));
            sh.count(&format!("slice:{name}"));
            if let Some(r) = differential(sh, "semantics", prog, opts()) {
                for t in verif::trace_take() {
                    if (t.op as usize) < ophits.len() {
                        ophits[t.op as usize] += 1;
                    }
                }
                if !matches!(r.model.end, End::Unspec(_) | End::Diverge) {
                    let text = printer::program(prog);
                    if sh.index() % 50_021 == 0 {
                        sh.sample(json!({"slice": name, "program": text, "model": crate::common::model_end_text(&r.model.end), "output": r.model.output}));
                    }
                    sh.nontrivial(&text);
                }
                if !r.imp.heap.is_empty() {
                    sh.count("heap-events-seen");
                }
            }
            sh.running()
        });
    }
    for (i, n) in names.iter().enumerate() {
        sh.add(&format!("op:{n}"), ophits[i]);
    }
}

fn replay(sh: &mut Shard, case: &Value) {
    sh.mine();
    if let Some(p) = case["program"].as_str() {
        differential_text(sh, "semantics", p, None, RunOpts { budget: Some(50_000_000), ledger: true, trace: false, render: true });
    }
}

fn vacuity(m: &Merged) -> Option<String> {
    for n in opcode_names() {
        if m.counters.get(&format!("op:{n}")).copied().unwrap_or(0) == 0 {
            return Some(format!("opcode {n} was never executed by any enumerated program"));
        }
    }
    if m.distinct_outcomes < 100 {
        return Some(format!("only {} distinct outcomes", m.distinct_outcomes));
    }
    let mism = m.counters.get("skipped:reparse-mismatch").copied().unwrap_or(0);
    if mism * 100 > m.cases {
        return Some(format!("{mism} generated programs did not parse back to the generated tree"));
    }
    None
}

/// Well-formed programs from the repository: examples, README snippets, test inputs.
/// The second component is the expected rendering where a source states one (selftest table).
pub fn corpus() -> Vec<(String, Option<&'static str>)> {
    let mut v: Vec<(String, Option<&'static str>)> = Vec::new();
    if let Ok(rd) = std::fs::read_dir("/repo/examples") {
        let mut paths: Vec<_> = rd.filter_map(|e| e.ok()).map(|e| e.path()).collect();
        paths.sort();
        for p in paths {
            if p.extension().and_then(|e| e.to_str()) == Some("nl") {
                if let Ok(t) = std::fs::read_to_string(&p) {
                    v.push((t, None));
                }
            }
        }
    }
    for (p, e) in EXPECT {
        v.push((p.to_string(), Some(e)));
    }
    v
}

/// (program, expected canonical rendering) transcribed from tests/vm_test.rs and README.md.
/// "E:<Kind>" = must fail with that error kind.
pub const EXPECT: &[(&str, &str)] = &[
    ("1", "1"),
    ("1; 2", "2"),
    ("4 + 2", "6"),
    ("4 - 2", "2"),
    ("4 * 2", "8"),
    ("4 / 4", "1"),
    ("4 == 4", "ja"),
    ("4 != 4", "nee"),
    ("4 > 4", "nee"),
    ("4 >= 4", "ja"),
    ("4 < 4", "nee"),
    ("4 <= 4", "ja"),
    ("stel n = 100; n == 100", "ja"),
    ("stel n = 100; n != 100", "nee"),
    ("stel n = 100; n > 100", "nee"),
    ("stel n = 100; n >= 100", "ja"),
    ("stel n = 100; n < 100", "nee"),
    ("stel n = 100; n <= 100", "ja"),
    ("stel n = 100; n + 2", "102"),
    ("stel n = 100; n - 2", "98"),
    ("stel n = 100; n / 2", "50"),
    ("stel n = 100; n * 2", "200"),
    ("stel n = 100; n % 2", "0"),
    ("ja && ja", "ja"),
    ("ja && nee", "nee"),
    ("nee && nee", "nee"),
    ("nee || nee", "nee"),
    ("nee || ja", "ja"),
    ("1 > 0 || 0 > 1", "ja"),
    ("-1", "-1"),
    ("!ja", "nee"),
    ("!nee", "ja"),
    ("!!nee", "nee"),
    ("{}", "?"),
    ("zolang nee {}", "null"),
    ("als ja { 1 }", "1"),
    ("als nee { 1 }", "null"),
    ("als ja { 1 } anders { 2 }", "1"),
    ("als nee { 1 } anders { 2 }", "2"),
    ("als nee { 1 } anders als nee { 2 } anders { 3 + 3 }", "6"),
    ("als ja { }", "null"),
    ("als nee { } anders { 1 }", "1"),
    ("als ja { 1 } anders {  }", "1"),
    ("als nee { 1 } anders {  }", "null"),
    ("functie() { 1 }()", "1"),
    ("functie() { 1 }() + functie() { 2 }()", "E:TypeError?"),
    ("functie() { functie() { 1 }() }()", "1"),
    ("stel a = 1; a", "1"),
    ("stel a = 1; stel b = 2; a", "1"),
    ("stel a = 1; stel b = 2; b", "2"),
    ("stel a = 1; stel b = 2; stel c = a + b; c", "3"),
    ("stel a = 1; a = 2; a", "2"),
    ("stel a = 1; a = 2; a = 3; a", "3"),
    ("stel a = 0; a += 5", "5"),
    ("a", "E:ReferenceError"),
    ("{ stel a = 1; } a", "E:ReferenceError"),
    ("{ { stel a = 1; } a }", "E:ReferenceError"),
    ("functie() { stel a = 1; }() a", "E:ReferenceError"),
    ("functie(a) { a + 1 }(1)", "2"),
    ("stel a = 1; { stel a = 2; } a", "1"),
    ("stel a = 1; { stel b = 2; } stel c = 3; c", "3"),
    ("stel a = 1; { stel b = a; { stel c = b; c } }", "1"),
    ("stel a = 1; functie() { stel a = 2; } a", "1"),
    ("stel a = 1; functie(a) { antwoord a; }(2)", "2"),
    ("stel a = 1; functie(a, b) { a * 2 + b }(a, 1)", "3"),
    ("stel a = 100; a();", "E:TypeError"),
    ("functie optellen(a, b) { a + b }; optellen(10, 20)", "30"),
    ("functie optellen(a, b) { a + b }; functie aftrekken(a, b) { a - b } aftrekken(optellen(10, 20), 30)", "0"),
    ("stel opt1 = functie opt2(a, b) { a + b }; opt1(1, 2)", "3"),
    ("stel opt1 = functie opt2(a, b) { a + b }; opt2(1, 2)", "3"),
    ("(functie (a) { a() })(functie() { 100 });", "100"),
    ("stel a = 1; functie() { a }();", "1"),
    ("functie a() { 1 }; functie b() { a() }; b()", "1"),
    ("stel fib = functie(n) { als n < 2 { antwoord n; } fib(n - 1 ) + fib(n - 2) }; fib(6);", "8"),
    ("stel a = 0; zolang a < 10 { a = a + 1; als a == 5 { stop } } a", "5"),
    ("stel i = 0; stel a = 2; zolang i < 10 { i = i + 1; als i >= 5 { volgende; } a = a * 2; } a", "32"),
    ("-1.00", "f:-1"),
    ("3.14 + 3.15", "f:6.29"),
    ("\"Hello, world!\"", "\"Hello, world!\""),
    ("int(1)", "1"),
    ("int(\"1\")", "1"),
    ("int(1.00)", "1"),
    ("int(ja)", "1"),
    ("int(nee)", "0"),
    ("bool(1)", "ja"),
    ("bool(\"1\")", "ja"),
    ("bool(1.00)", "ja"),
    ("bool(ja)", "ja"),
    ("bool(\"0\")", "ja"),
    ("bool(0)", "nee"),
    ("bool(0.00)", "nee"),
    ("bool(nee)", "nee"),
    ("bool(-1)", "nee"),
    ("bool(-1.00)", "nee"),
    ("string(1)", "\"1\""),
    ("string(\"1\")", "\"1\""),
    ("string(1.00)", "\"1\""),
    ("string(ja)", "\"true\""),
    ("string(nee)", "\"false\""),
    ("float(1)", "f:1"),
    ("float(\"1\")", "f:1"),
    ("float(ja)", "f:1"),
    ("[]", "[]"),
    ("[1]", "[1]"),
    ("[1, 2]", "[1,2]"),
    ("\"Ik heet \\\"Danny\\\"\"", "\"Ik heet \\\"Danny\\\"\""),
    ("\"5 \\\\ 5\"", "\"5 \\\\ 5\""),
    ("\"\\n\"", "\"\\n\""),
    ("[1][0]", "1"),
    ("[1][-1]", "1"),
    ("[1, 2, 3][1+1-1]", "2"),
    ("[1, 2, 3][2]", "3"),
    ("[1, 2, 3][-1]", "3"),
    ("[1, 2, 3][-2]", "2"),
    ("[][1]", "E:IndexError"),
    ("[][-1]", "E:IndexError"),
    ("[1, 2, 3][3]", "E:IndexError"),
    ("[1][1.0]", "E:TypeError"),
    ("[1][ja]", "E:TypeError"),
    ("[1][\"foobar\"]", "E:TypeError"),
    ("1[0]", "E:?"),
    ("[1][0] = 2", "2"),
    ("stel a = [1]; a[0] = 2; a[0]", "2"),
    ("[][1] = 1", "E:IndexError"),
    ("[1, 2, 3][3] = 1", "E:IndexError"),
    ("[1][1.0] = 1", "E:TypeError"),
    ("\"foobar\"[0]", "\"f\""),
    ("\"foobar\"[1]", "\"o\""),
    ("\"foobar\"[-1]", "\"r\""),
    ("stel a = \"foobar\"; a[0] = \"d\"; a", "\"doobar\""),
    ("stel a = \"foobar\"; a[1] = \"d\"; a", "\"fdobar\""),
    ("stel a = \"foobar\"; a[-1] = \"d\"; a", "\"foobad\""),
    ("\"foo\"[4]", "E:IndexError"),
    ("\"foo\"[-4]", "E:IndexError"),
    ("\"foobar\"[1.0] = 1", "E:TypeError"),
    ("\"foobar\"[0] = 1", "E:TypeError"),
    ("\"foobar\"[0] = [1]", "E:TypeError"),
    // README
    ("1 + 1 * 2 - 3 / 3 % 2", "2"),
    ("1 > 5", "nee"),
    ("1 > 5 || 5 > 1", "ja"),
    ("(1 > 2 && 2 > 1) || ja", "ja"),
    ("z + 100", "E:ReferenceError"),
    ("stel x = 100\n{\n stel y = 100\n y + x\n}", "200"),
    ("stel x = 1\nx = 2\nx", "2"),
    ("functie optellen(a, b) { a + b }\noptellen(2, 3)", "5"),
    ("stel optellen = functie(a, b) { a + b }\noptellen(2, 3)", "5"),
    ("functie opteller(a, b) { a + b }\nfunctie bereken(f, a, b) { f(a, b) }\nbereken(opteller, 2, 3)", "5"),
    ("stel aantal = 1\nzolang ja {\n aantal += 1\n als aantal == 100 { stop }\n}\naantal", "100"),
    ("bool(1)", "ja"),
    ("int(\"15\")", "15"),
    ("float(\"3.1415\")", "f:3.1415"),
    ("stel a = [1, 2, 3]\na[0]", "1"),
    ("stel a = [1, 2, 3]\na[0] = 100", "100"),
    ("stel a = [1, 2, 3]\na[-1]", "3"),
];

/// The reference model against the repository's own expectations (DESIGN 4.5). Returns failures.
pub fn selftest_model() -> usize {
    let mut bad = 0;
    for (prog, exp) in EXPECT {
        if *exp == "?" || exp.ends_with('?') {
            continue;
        }
        let ast = match nederlang::parser::parse(prog) {
            Ok(a) => a,
            Err(e) => {
                if exp.starts_with("E:") {
                    continue;
                }
                eprintln!("selftest: {prog:?} does not parse: {e:?}");
                bad += 1;
                continue;
            }
        };
        let m = Interp::eval(&ast);
        let got = match &m.end {
            End::Value(Some(v)) => v.clone(),
            End::Value(None) => "<unspecified value>".into(),
            End::Error(crate::refint::MErr::Kind(k)) => format!("E:{}", k.name()),
            End::Error(e) => format!("E:{e:?}"),
            End::Unspec(u) => format!("<unspecified {u}>"),
            End::Diverge => "<diverges>".into(),
        };
        let want = if let Some(f) = exp.strip_prefix("f:") {
            crate::refint::render_float(f.parse::<f64>().unwrap())
        } else {
            exp.to_string()
        };
        if got != want {
            eprintln!("selftest: model disagrees with the repository's expectation on {prog:?}: model {got}, expected {want}");
            bad += 1;
        }
    }
    bad
}
