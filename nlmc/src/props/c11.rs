//! C11 — structured control flow goes exactly where the source says (DESIGN 5, C11).

use super::Prop;
use crate::astx;
use crate::bcmc;
use crate::common::differential;
use crate::gen::*;
use crate::outcome::RunOpts;
use crate::pool::Merged;
use crate::printer;
use crate::refint::End;
use crate::shard::{Shard, Tier};
use crate::slices::Slice;
use nederlang::compiler::Compiler;
use nederlang::verif::{Expr, Operator, Stmt};
use serde_json::{json, Value};

pub fn prop() -> Prop {
    Prop {
        id: "C11",
        level: "exploration",
        rule: "(1) the complete control-template set: statement trees over {block, als, als/anders, counter loops running 0, 1 and 3 iterations, immediately applied function bodies} nested up to N nodes in which every statement position holds one of {numbered trace point, stop, volgende, antwoord, declaration, empty block, expression}, conditions drawn from {ja, nee, counter tests}, with als/zolang also used as values; each compared with the reference interpreter (trace = output, value, error). (2) residue: every loop-body template up to M nodes iterated 0, 1, 2, 100 and 70 000 times and followed by a probe suffix (a two-argument call, an array literal, a second loop) whose output must equal the model's. (1e) offset sweep: 26 small control programs (exits and declarations as the last statement of a branch / loop body / block / function body, loops and branches as values; top level and in a function) shifted through every code offset from 0 to 600 bytes; (1d) exits across function boundaries: every chain of up to 4 wrappers from {loop, function called on the spot} with one stop / volgende / antwoord before or after the inner wrapper at any level, optionally after a completed nested function definition and / or a completed loop (the exit belongs to the innermost loop of the same function, or the program is refused); (1c) deep chains: every sequence of 4 (quick) / 5 (thorough) nested control constructs from {als, als-anders with the hole in either branch, counter loop, loop on `ja`, block} around an innermost {trace, stop, volgende, antwoord, value}, a trace point before and after every level, all four truth assignments; (1b) sibling templates: a function whose body is a loop (literal `ja` or counter) around two statements S; T, each any depth-1 template, or around THREE statements from a 20-item set (every leaf and one-level branches around each exit), with and without a trailing value, called with all four truth assignments; (2b) condition-driven loops (the progress is made by an assignment, a call or a conjunction in the condition) around every body of <= 2 statements from {volgende, stop, trace, empty block, declaration, value, three branch shapes}, 0/1/3 iterations, as a statement and as an array element; (3) for every program, the abstract stack machine of its real bytecode (bcmc) must have no cycle that grows the stack. Non-trivial = contains a loop or a branch and is defined by the model; distinct = distinct texts",
        assumptions: &["the value of a loop that iterated is unspecified (U4) and never compared", "reference interpreter control-flow rules of DESIGN 4.2"],
        run,
        replay,
        vacuity,
    }
}

fn opts(budget: u64) -> RunOpts {
    RunOpts { budget: Some(budget), ledger: false, trace: false, render: true }
}

fn ctl_grammar() -> Grammar {
    Grammar {
        atoms: vec![boolean(true), boolean(false), infix(id("i0"), Operator::Lt, int(2)), infix(id("i0"), Operator::Eq, int(1)), int(7)],
        let_names: vec!["v".to_string()],
        if_expr: true,
        if_else: true,
        loop_counts: vec![0, 1, 3],
        ja_loops: true,
        iife: true,
        block_stmt: true,
        break_continue: true,
        ret: true,
        print_stmt: true,
        max_stmts: 3,
        max_expr: 6,
        ..Default::default()
    }
}

fn ctl_slice() -> Slice {
    Slice { name: "ctl", prelude: vec![let_("i0", int(1))], wrap: None, grammar: ctl_grammar(), bound: (5, 6), in_func: false }
}

/// Gives every print(<int literal>) its own number, so the trace identifies the statement.
fn renumber_prints(ast: &mut Vec<Stmt>) {
    let mut k = 100isize;
    astx::visit_exprs_mut(ast, &mut |e| {
        if let Expr::Call { left, arguments } = e {
            if matches!(&**left, Expr::Identifier(n) if n == "print") && arguments.len() == 1 {
                if let Expr::Int { value } = &mut arguments[0] {
                    k += 1;
                    *value = k;
                }
            }
        }
    });
}

/// Is there a stop/volgende that executes while operands of an enclosing expression are pending on the
/// machine's stack (the recorded finding KF-C11-01)?
pub fn exit_with_pending_operands(ast: &[Stmt]) -> bool {
    fn stmts(s: &[Stmt], pending: bool) -> bool {
        s.iter().any(|x| match x {
            Stmt::Break | Stmt::Continue => pending,
            Stmt::Expr(e) | Stmt::Return(e) | Stmt::Let(_, e) => expr(e, pending),
            Stmt::Block(b) => stmts(b, pending),
        })
    }
    fn expr(e: &Expr, pending: bool) -> bool {
        match e {
            Expr::Infix { left, right, .. } => expr(left, pending) || expr(right, true),
            Expr::Prefix { right, .. } => expr(right, pending),
            Expr::If { condition, consequence, alternative } => {
                expr(condition, pending) || stmts(consequence, pending) || alternative.as_ref().map(|a| stmts(a, pending)).unwrap_or(false)
            }
            // the loop's own seed value is below its body, but that one is popped by the loop itself
            Expr::While { condition, body } => expr(condition, pending) || stmts(body, pending),
            // a function body is a different activation: its loops are its own
            Expr::Function { body, .. } => stmts(body, false),
            Expr::Call { left, arguments } => {
                arguments.iter().enumerate().any(|(i, a)| expr(a, pending || i > 0)) || expr(left, pending || !arguments.is_empty())
            }
            Expr::Assign { left, right } => match &**left {
                Expr::Index { left: l, index } => expr(l, pending) || expr(index, true) || expr(right, true),
                _ => expr(right, pending),
            },
            Expr::Array { values } => values.iter().enumerate().any(|(i, a)| expr(a, pending || i > 0)),
            Expr::Index { left, index } => expr(left, pending) || expr(index, true),
            _ => false,
        }
    }
    stmts(ast, false)
}

pub fn known_predicate(sh: &mut Shard, pred: &str) -> bool {
    let hit = sh.known.iter().find(|f| f.matcher.get("predicate").and_then(|v| v.as_str()) == Some(pred)).map(|f| f.id.clone());
    match hit {
        Some(id) => {
            sh.known(&id);
            true
        }
        None => false,
    }
}

/// Differential run plus the cycle analysis of the program's real bytecode.
pub fn check_program(sh: &mut Shard, family: &str, prog: &[Stmt], budget: u64) {
    let text = printer::program(prog);
    let r = differential(sh, "control-flow", prog, opts(budget));
    if let Some(r) = &r {
        if !matches!(r.model.end, End::Unspec(_) | End::Diverge) {
            sh.nontrivial(&text);
        }
    }
    // cycle analysis
    let v: Vec<Stmt> = prog.to_vec();
    if let Ok(Ok(bc)) = std::panic::catch_unwind(|| Compiler::new().compile_ast(&v)) {
        let ops = bcmc::optable();
        let g = bcmc::explore(&bc, &ops);
        sh.add("states", g.states.len() as u64);
        sh.add("transitions", g.transitions);
        if !g.growing.is_empty() {
            sh.count("programs-with-growing-cycle");
            if exit_with_pending_operands(prog) && known_predicate(sh, "exit-with-pending-operands") {
                // recorded finding
            } else {
                sh.violation(
                    "residue",
                    json!({"family": family, "program": text, "bytecode": bcmc::disassemble(&bc, &ops), "ips_where_the_height_is_unbounded": g.growing.iter().map(|x| x.1).collect::<Vec<_>>()}),
                    "a cycle of the bytecode leaves more on the stack each time round: running the loop leaves residue behind".into(),
                );
            }
        }
    }
}

fn residue_family(sh: &mut Shard, tier: Tier) {
    let en = Enumerator::new(ctl_grammar());
    let loop_ctx = Ctx { in_loop: true, in_func: false, loop_depth: 1, func_depth: 0 };
    let msize = if tier == Tier::Quick { 3 } else { 4 };
    for n in 0..=msize {
        en.each_block(n, loop_ctx, &mut |body| {
            for k in [0i64, 1, 2, 100, 70_000] {
                // the 70 000-iteration runs: every body in the thorough tier, bodies of <= 2 nodes in the quick one
                if k > 1000 && tier == Tier::Quick && n > 2 {
                    continue;
                }
                if !sh.mine() {
                    continue;
                }
                let mut lb = vec![es(assign(id("n"), infix(id("n"), Operator::Add, int(1))))];
                lb.extend(body.iter().cloned());
                let mut prog = vec![
                    es(func("pr", &["x", "y"], vec![es(array(vec![id("x"), id("y")]))])),
                    let_("i0", int(1)),
                    let_("n", int(0)),
                    es(whil(infix(id("n"), Operator::Lt, int(k)), lb)),
                    es(calln("print", vec![calln("pr", vec![int(1), int(2)]), array(vec![int(3), id("n")])])),
                    let_("m", int(0)),
                    es(whil(infix(id("m"), Operator::Lt, int(2)), vec![es(assign(id("m"), infix(id("m"), Operator::Add, int(1))))])),
                    es(calln("pr", vec![int(5), id("m")])),
                ];
                renumber_prints(&mut prog);
                sh.begin(&|| printer::program(&prog));
                sh.count("family:residue");
                check_program(sh, "residue", &prog, 20_000_000);
                // the same loop written on the literal condition and left by stop
                if k > 0 && sh.mine() {
                    let mut lb2 = vec![es(assign(id("n"), infix(id("n"), Operator::Add, int(1)))), es(iff(infix(id("n"), Operator::Gt, int(k)), vec![Stmt::Break], None))];
                    lb2.extend(body.iter().cloned());
                    let mut prog2 = prog.clone();
                    prog2[3] = es(whil(boolean(true), lb2));
                    renumber_prints(&mut prog2);
                    sh.begin(&|| printer::program(&prog2));
                    sh.count("family:residue");
                    check_program(sh, "residue", &prog2, 20_000_000);
                }
            }
            sh.running()
        });
    }
}

/// Early exits in every expression context of a loop body (operand, argument, element, index, initialiser, condition).
fn exit_context_family(sh: &mut Shard) {
    for exit in [Stmt::Break, Stmt::Continue] {
        let e = || iff(infix(id("n"), Operator::Eq, int(2)), vec![exit.clone()], Some(vec![es(int(5))]));
        let contexts: Vec<Stmt> = vec![
            es(e()),
            let_("v", e()),
            es(assign(id("t"), e())),
            es(infix(e(), Operator::Add, int(1))),
            es(infix(int(1), Operator::Add, e())),
            es(assign(id("t"), infix(id("t"), Operator::Add, e()))),
            es(calln("print", vec![e()])),
            es(calln("print", vec![int(1), e()])),
            es(calln("pr", vec![e(), int(2)])),
            es(calln("pr", vec![int(1), e()])),
            es(array(vec![e()])),
            es(array(vec![int(1), e()])),
            es(index(id("arr"), e())),
            es(assign(index(id("arr"), int(0)), e())),
            es(assign(index(id("arr"), e()), int(1))),
            es(iff(infix(e(), Operator::Eq, int(5)), vec![es(int(1))], None)),
            es(neg(e())),
            Stmt::Block(vec![es(e())]),
            es(whil(boolean(false), vec![])),
        ];
        for c in contexts {
            for k in [0i64, 1, 3, 70_000] {
                if !sh.mine() {
                    continue;
                }
                let prog = vec![
                    es(func("pr", &["x", "y"], vec![es(array(vec![id("x"), id("y")]))])),
                    let_("t", int(0)),
                    let_("arr", array(vec![int(0), int(0), int(0), int(0), int(0), int(0)])),
                    let_("n", int(0)),
                    es(whil(infix(id("n"), Operator::Lt, int(k)), vec![es(assign(id("n"), infix(id("n"), Operator::Add, int(1)))), c.clone()])),
                    es(calln("print", vec![calln("pr", vec![id("n"), id("t")])])),
                ];
                sh.begin(&|| printer::program(&prog));
                sh.count("family:exit-contexts");
                check_program(sh, "exit-contexts", &prog, 20_000_000);
            }
        }
    }
}

/// Depth-bounded control templates (complementing the size-bounded ones): single-statement blocks nested
/// to depth `d`: every statement is a leaf {trace, stop, volgende, antwoord, declaration, empty block,
/// value} or als / als-anders / loop / block around deeper statements; conditions come from the
/// parameters a, b of the enclosing function, called with all four truth assignments.
fn depth_templates(d: usize, in_loop: bool, f: &mut dyn FnMut(&Stmt) -> bool) -> bool {
    let mut leaves: Vec<Stmt> = vec![
        print1(int(7)),
        Stmt::Return(int(2)),
        let_("v", int(3)),
        Stmt::Block(vec![]),
        es(int(1)),
        // a function definition (its code starts with a jump over its body)
        es(func("hulp", &[], vec![Stmt::Return(int(4))])),
        // an element assignment (three operands, the only statement whose target is not a name)
        es(assign(index(id("arr"), int(0)), infix(index(id("arr"), int(0)), Operator::Add, int(1)))),
    ];
    if in_loop {
        leaves.push(Stmt::Break);
        leaves.push(Stmt::Continue);
    }
    for l in &leaves {
        if !f(l) {
            return false;
        }
    }
    if d == 0 {
        return true;
    }
    for c in ["a", "b"] {
        // als c { S }
        if !depth_templates(d - 1, in_loop, &mut |s| f(&es(iff(id(c), vec![s.clone()], None)))) {
            return false;
        }
        // als c { S } anders { T }
        let ok = depth_templates(d - 1, in_loop, &mut |s| {
            depth_templates(d - 1, in_loop, &mut |t| f(&es(iff(id(c), vec![s.clone()], Some(vec![t.clone()])))))
        });
        if !ok {
            return false;
        }
    }
    // a loop that runs twice around S
    let ok = depth_templates(d - 1, true, &mut |s| {
        f(&Stmt::Block(vec![
            let_("n", int(0)),
            es(whil(infix(id("n"), Operator::Lt, int(2)), vec![es(assign(id("n"), infix(id("n"), Operator::Add, int(1)))), s.clone()])),
        ]))
    });
    if !ok {
        return false;
    }
    depth_templates(d - 1, in_loop, &mut |s| f(&Stmt::Block(vec![s.clone()])))
}

/// Sibling templates: a function whose body is a loop (on the literal `ja`, or a counter loop) around TWO
/// statements S; T, each any depth-1 template (leaf, als, als-anders, inner loop, block around a leaf): the
/// shapes where what follows an `als` inside a loop decides how the loop and the function are left.
pub fn sibling_templates(f: &mut dyn FnMut(&[Stmt]) -> bool) -> bool {
    // THREE sibling statements from a reduced set (every leaf, and one-level branches around each exit)
    {
        let mut items: Vec<Stmt> = vec![
            print1(int(7)),
            Stmt::Return(int(2)),
            let_("v", int(3)),
            Stmt::Block(vec![]),
            es(int(1)),
            es(func("hulp", &[], vec![Stmt::Return(int(4))])),
            es(assign(index(id("arr"), int(0)), infix(index(id("arr"), int(0)), Operator::Add, int(1)))),
            Stmt::Break,
            Stmt::Continue,
        ];
        for c in ["a", "b"] {
            items.push(es(iff(id(c), vec![Stmt::Break], None)));
            items.push(es(iff(id(c), vec![Stmt::Continue], None)));
            items.push(es(iff(id(c), vec![Stmt::Return(int(5))], None)));
            items.push(es(iff(id(c), vec![Stmt::Break], Some(vec![Stmt::Continue]))));
            items.push(es(iff(id(c), vec![print1(int(7))], Some(vec![Stmt::Return(int(6))]))));
        }
        items.push(Stmt::Block(vec![let_("w", int(1)), print1(id("w"))]));
        items.push(es(whil(boolean(true), vec![print1(int(7)), Stmt::Break])));
        for literal in [true, false] {
            for s1 in &items {
                for s2 in &items {
                    for s3 in &items {
                        let lp = if literal {
                            es(whil(boolean(true), vec![s1.clone(), s2.clone(), s3.clone()]))
                        } else {
                            es(whil(infix(id("n"), Operator::Lt, int(2)), vec![es(assign(id("n"), infix(id("n"), Operator::Add, int(1)))), s1.clone(), s2.clone(), s3.clone()]))
                        };
                        let mut prog = vec![let_("arr", array(vec![int(0), int(0)])), es(func("t", &["a", "b"], vec![let_("n", int(0)), lp, es(int(9))]))];
                        for (a, b) in [(true, true), (true, false), (false, true), (false, false)] {
                            prog.push(es(calln("print", vec![array(vec![int(5), calln("t", vec![boolean(a), boolean(b)]), int(6)])])));
                        }
                        renumber_prints(&mut prog);
                        if !f(&prog) {
                            return false;
                        }
                    }
                }
            }
        }
    }
    let mut firsts: Vec<Stmt> = Vec::new();
    depth_templates(1, true, &mut |s| {
        firsts.push(s.clone());
        true
    });
    for literal in [true, false] {
        for s1 in &firsts {
            for s2 in &firsts {
                for tail in [false, true] {
                    let lp = if literal {
                        es(whil(boolean(true), vec![s1.clone(), s2.clone()]))
                    } else {
                        es(whil(infix(id("n"), Operator::Lt, int(2)), vec![es(assign(id("n"), infix(id("n"), Operator::Add, int(1)))), s1.clone(), s2.clone()]))
                    };
                    let mut body = vec![let_("n", int(0)), lp];
                    if tail {
                        body.push(es(int(9)));
                    }
                    let mut prog = vec![let_("arr", array(vec![int(0), int(0)])), es(func("t", &["a", "b"], body))];
                    for (a, b) in [(true, true), (true, false), (false, true), (false, false)] {
                        prog.push(es(calln("print", vec![array(vec![int(5), calln("t", vec![boolean(a), boolean(b)]), int(6)])])));
                    }
                    prog.push(print1(id("arr")));
                    renumber_prints(&mut prog);
                    if !f(&prog) {
                        return false;
                    }
                }
            }
        }
    }
    true
}

/// Exits across function boundaries: every chain of up to 4 wrappers from {loop, function called on the spot},
/// with ONE exit statement (stop, volgende, antwoord) placed before or after the inner wrapper at any level,
/// optionally preceded by a completed nested function definition and / or a completed inner loop. `stop` and
/// `volgende` belong to the innermost loop of the SAME function or are refused; `antwoord` needs a function.
pub fn exit_scopes(f: &mut dyn FnMut(&[Stmt]) -> bool) -> bool {
    fn build(chain: &[bool], lvl: usize, at: usize, after: bool, pre: usize, exit: &Stmt) -> Vec<Stmt> {
        let mut here: Vec<Stmt> = Vec::new();
        let mut exit_block: Vec<Stmt> = Vec::new();
        if lvl == at {
            if pre & 1 != 0 {
                exit_block.push(let_(&format!("dub{lvl}"), func("", &["y"], vec![es(infix(id("y"), Operator::Multiply, int(2)))])));
            }
            if pre & 2 != 0 {
                exit_block.push(es(whil(boolean(false), vec![print1(int(7))])));
            }
            exit_block.push(es(iff(id("c"), vec![exit.clone()], None)));
        }
        let inner: Vec<Stmt> = if lvl < chain.len() {
            let body = build(chain, lvl + 1, at, after, pre, exit);
            if chain[lvl] {
                // a loop that runs twice
                let n = format!("n{lvl}");
                let mut b = vec![es(assign(id(&n), infix(id(&n), Operator::Add, int(1)))), print1(int(7))];
                b.extend(body);
                vec![let_(&n, int(0)), es(whil(infix(id(&n), Operator::Lt, int(2)), b))]
            } else {
                let name = format!("f{lvl}");
                let mut b = body;
                b.push(es(int(lvl as i64)));
                vec![es(func(&name, &[], b)), print1(calln(&name, vec![]))]
            }
        } else {
            vec![print1(int(7))]
        };
        if lvl == at && !after {
            here.extend(exit_block.clone());
        }
        here.extend(inner);
        if lvl == at && after {
            here.extend(exit_block);
        }
        here.push(print1(int(7)));
        here
    }
    for len in 1..=4usize {
        for code in 0..(1u32 << len) {
            let chain: Vec<bool> = (0..len).map(|i| code & (1 << i) != 0).collect();
            for at in 0..=len {
                for after in [false, true] {
                    for pre in 0..4usize {
                        for exit in [Stmt::Break, Stmt::Continue, Stmt::Return(int(1))] {
                            for c in [true, false] {
                                let mut prog = vec![let_("c", boolean(c))];
                                prog.extend(build(&chain, 0, at, after, pre, &exit));
                                renumber_prints(&mut prog);
                                if !f(&prog) {
                                    return false;
                                }
                            }
                        }
                    }
                }
            }
        }
    }
    true
}

/// Offset sweep: a fixed set of small control programs (every exit as the last statement of a branch, of a loop
/// body, of a block; a declaration as the last statement of a branch / loop body / function body; a loop as a
/// value; loops nested in loops with an exit in the inner, the outer or both; a function with a loop defined in a
/// loop body) shifted through EVERY code offset from 0 to `max_bytes` by a prefix of 4-byte and 3-byte
/// statements: every value of every operand byte of their jumps and slots occurs, and every jump target takes
/// every value below the bound (among them any value the compiler uses as a marker).
pub fn offset_sweep(max_bytes: usize, f: &mut dyn FnMut(&[Stmt]) -> bool) -> bool {
    let lp = |body: Vec<Stmt>| -> Vec<Stmt> {
        let mut b = vec![es(assign(id("i"), infix(id("i"), Operator::Add, int(1))))];
        b.extend(body);
        b.push(es(assign(id("s"), infix(id("s"), Operator::Add, id("i")))));
        vec![let_("i", int(0)), let_("s", int(0)), es(whil(infix(id("i"), Operator::Lt, int(5)), b)), print1(array(vec![id("i"), id("s")]))]
    };
    let cond = || infix(id("i"), Operator::Eq, int(2));
    let mut subjects: Vec<Vec<Stmt>> = vec![
        lp(vec![es(iff(cond(), vec![Stmt::Continue], None))]),
        lp(vec![es(iff(cond(), vec![Stmt::Break], None))]),
        lp(vec![es(iff(cond(), vec![print1(int(7)), Stmt::Continue], Some(vec![print1(int(8))])))]),
        lp(vec![es(iff(cond(), vec![print1(int(7))], Some(vec![Stmt::Continue])))]),
        lp(vec![Stmt::Block(vec![es(iff(cond(), vec![Stmt::Continue], None))])]),
        lp(vec![es(iff(cond(), vec![let_("q", int(1))], None))]),
        lp(vec![es(iff(cond(), vec![let_("q", int(1))], Some(vec![let_("r", int(2))])))]),
        lp(vec![Stmt::Block(vec![let_("q", int(1))])]),
        vec![let_("i", int(0)), es(whil(infix(id("i"), Operator::Lt, int(3)), vec![es(assign(id("i"), infix(id("i"), Operator::Add, int(1)))), let_("q", id("i"))])), print1(id("i"))],
        vec![es(func("f", &["x"], vec![es(iff(id("x"), vec![Stmt::Return(int(1))], None)), let_("q", int(2))])), print1(array(vec![calln("f", vec![boolean(true)]), calln("f", vec![boolean(false)])]))],
        vec![es(func("f", &["x"], vec![let_("q", int(2)), es(iff(id("x"), vec![let_("r", id("q"))], Some(vec![Stmt::Return(id("q"))])))])), print1(array(vec![calln("f", vec![boolean(true)]), calln("f", vec![boolean(false)])]))],
        vec![let_("v", iff(boolean(true), vec![let_("q", int(1))], Some(vec![es(int(2))]))), print1(id("v"))],
        vec![let_("i", int(0)), let_("v", whil(infix(id("i"), Operator::Lt, int(0)), vec![es(int(1))])), print1(id("v"))],
    ];
    // loops in loops: an exit in the inner loop only, in both, and a function with its own loop defined in a loop
    let inner = |exit: Stmt| -> Vec<Stmt> {
        vec![
            let_("j", int(0)),
            es(whil(infix(id("j"), Operator::Lt, int(4)), vec![es(assign(id("j"), infix(id("j"), Operator::Add, int(1)))), es(iff(infix(id("j"), Operator::Eq, int(2)), vec![exit], None)), es(assign(id("s"), infix(id("s"), Operator::Add, int(100))))])),
            es(assign(id("s"), infix(id("s"), Operator::Add, id("j")))),
        ]
    };
    subjects.push(lp(inner(Stmt::Break)));
    subjects.push(lp(inner(Stmt::Continue)));
    {
        let mut b = inner(Stmt::Break);
        b.push(es(iff(infix(id("i"), Operator::Eq, int(4)), vec![Stmt::Break], None)));
        subjects.push(lp(b));
        let mut b = inner(Stmt::Continue);
        b.insert(0, es(iff(infix(id("i"), Operator::Eq, int(3)), vec![Stmt::Continue], None)));
        subjects.push(lp(b));
        subjects.push(lp(vec![
            es(func("g", &[], vec![let_("k", int(0)), es(whil(boolean(true), vec![es(assign(id("k"), infix(id("k"), Operator::Add, int(1)))), es(iff(infix(id("k"), Operator::Gt, int(2)), vec![Stmt::Break], None))])), es(id("k"))])),
            es(assign(id("s"), infix(id("s"), Operator::Add, calln("g", vec![])))),
            es(iff(infix(id("i"), Operator::Eq, int(4)), vec![Stmt::Break], None)),
        ]));
    }
    // the same inside a function (locals)
    let top: Vec<Vec<Stmt>> = subjects.clone();
    for t in top {
        let mut body = t;
        body.push(es(int(0)));
        subjects.push(vec![es(func("host", &[], body)), print1(calln("host", vec![]))]);
    }
    for subject in &subjects {
        for fours in 0..=(max_bytes / 4) {
            for threes in 0..4usize {
                let mut prog: Vec<Stmt> = Vec::new();
                for _ in 0..fours {
                    prog.push(es(int(1)));
                }
                for _ in 0..threes {
                    prog.push(es(prefix(Operator::Not, boolean(true))));
                }
                prog.extend(subject.iter().cloned());
                renumber_prints(&mut prog);
                if !f(&prog) {
                    return false;
                }
            }
        }
    }
    true
}

/// Deep chains: five control constructs nested in each other (every sequence over {als, als-anders with the
/// hole in either branch, counter loop, loop on `ja`, block}) around an innermost leaf {trace, stop, volgende,
/// antwoord, value}, a trace point before and after every level, inside a function called with all four
/// truth assignments.
pub fn deep_chains(depth: usize, f: &mut dyn FnMut(&[Stmt]) -> bool) -> bool {
    let leaves: Vec<Stmt> = vec![print1(int(7)), Stmt::Break, Stmt::Continue, Stmt::Return(int(2)), es(int(1))];
    let kinds = 6usize;
    let total = kinds.pow(depth as u32);
    for code in 0..total {
        for leaf in &leaves {
            let mut inner: Vec<Stmt> = vec![leaf.clone()];
            let mut c = code;
            let mut in_loop = false;
            let mut shape = Vec::new();
            for _ in 0..depth {
                shape.push(c % kinds);
                c /= kinds;
            }
            // build from the innermost level outwards; shape[0] is the innermost construct
            for (lvl, k) in shape.iter().enumerate() {
                let cond = if lvl % 2 == 0 { id("a") } else { id("b") };
                let name = format!("n{lvl}");
                let construct: Vec<Stmt> = match k {
                    0 => vec![es(iff(cond, inner.clone(), None))],
                    1 => vec![es(iff(cond, inner.clone(), Some(vec![print1(int(8))])))],
                    2 => vec![es(iff(cond, vec![print1(int(8))], Some(inner.clone())))],
                    3 => {
                        in_loop = true;
                        let mut b = vec![es(assign(id(&name), infix(id(&name), Operator::Add, int(1))))];
                        b.extend(inner.clone());
                        vec![let_(&name, int(0)), es(whil(infix(id(&name), Operator::Lt, int(2)), b))]
                    }
                    4 => {
                        in_loop = true;
                        let mut b = inner.clone();
                        b.push(Stmt::Break);
                        vec![es(whil(boolean(true), b))]
                    }
                    _ => vec![Stmt::Block(inner.clone())],
                };
                inner = vec![print1(int(7))];
                inner.extend(construct);
                inner.push(print1(int(7)));
            }
            // stop / volgende outside every loop are refused by the compiler: not a control-flow question
            if matches!(leaf, Stmt::Break | Stmt::Continue) && !in_loop {
                continue;
            }
            let mut body = inner;
            body.push(es(int(9)));
            let mut prog = vec![es(func("t", &["a", "b"], body))];
            for (a, b) in [(true, true), (true, false), (false, true), (false, false)] {
                prog.push(es(calln("print", vec![array(vec![int(5), calln("t", vec![boolean(a), boolean(b)]), int(6)])])));
            }
            renumber_prints(&mut prog);
            if !f(&prog) {
                return false;
            }
        }
    }
    true
}

fn depth_family(sh: &mut Shard, tier: Tier) {
    offset_sweep(if tier == Tier::Quick { 1_500 } else { 4_200 }, &mut |prog| {
        if sh.mine() {
            sh.begin(&|| printer::program(prog));
            sh.count("family:offset-sweep");
            check_program(sh, "offset-sweep", prog, 20_000);
        }
        sh.running()
    });
    exit_scopes(&mut |prog| {
        if sh.mine() {
            sh.begin(&|| printer::program(prog));
            sh.count("family:exit-scopes");
            check_program(sh, "exit-scopes", prog, 4_000);
        }
        sh.running()
    });
    deep_chains(if tier == Tier::Quick { 4 } else { 5 }, &mut |prog| {
        if sh.mine() {
            sh.begin(&|| printer::program(prog));
            sh.count("family:deep-chains");
            check_program(sh, "deep-chains", prog, 4_000);
        }
        sh.running()
    });
    sibling_templates(&mut |prog| {
        if sh.mine() {
            sh.begin(&|| printer::program(prog));
            sh.count("family:sibling-templates");
            check_program(sh, "sibling-templates", prog, 5_000);
        }
        sh.running()
    });
    let d = 2;
    let _ = tier;
    depth_templates(d, false, &mut |s| {
        // as the only statement, and followed by a trailing value
        for tail in [false, true] {
            if !sh.mine() {
                continue;
            }
            let mut body = vec![s.clone()];
            if tail {
                body.push(es(int(9)));
            }
            let mut prog = vec![let_("arr", array(vec![int(0), int(0)])), es(func("t", &["a", "b"], body))];
            for (a, b) in [(true, true), (true, false), (false, true), (false, false)] {
                prog.push(es(calln("print", vec![array(vec![int(5), calln("t", vec![boolean(a), boolean(b)]), int(6)])])));
            }
            renumber_prints(&mut prog);
            sh.begin(&|| printer::program(&prog));
            sh.count("family:depth-templates");
            check_program(sh, "depth-templates", &prog, 5_000);
        }
        sh.running()
    });
}

/// Loops whose progress is made by the CONDITION (an assignment used as a value, a call, a conjunction), so
/// that the body can be anything at all: empty, a lone `volgende` or `stop`, a declaration, a branch. Every
/// body of <= 2 statements over the leaf set, 0 / 1 / 3 iterations, as a statement and as an array element
/// (the neighbours of the loop's value must survive), followed by the residue probe.
fn cond_loop_family(sh: &mut Shard) {
    let leaves: Vec<Stmt> = vec![
        Stmt::Continue,
        Stmt::Break,
        print1(int(7)),
        Stmt::Block(vec![]),
        let_("v", int(3)),
        es(int(1)),
        es(iff(infix(id("n"), Operator::Eq, int(2)), vec![Stmt::Continue], None)),
        es(iff(infix(id("n"), Operator::Eq, int(2)), vec![Stmt::Break], Some(vec![print1(int(8))]))),
        es(iff(infix(id("n"), Operator::Eq, int(1)), vec![print1(int(9))], Some(vec![Stmt::Continue]))),
    ];
    let mut bodies: Vec<Vec<Stmt>> = vec![vec![]];
    for a in &leaves {
        bodies.push(vec![a.clone()]);
        for b in &leaves {
            bodies.push(vec![a.clone(), b.clone()]);
        }
    }
    for k in [0i64, 1, 3] {
        let conds: Vec<Expr> = vec![
            infix(assign(id("n"), infix(id("n"), Operator::Add, int(1))), Operator::Lte, int(k)),
            calln("stap", vec![int(k)]),
            infix(infix(id("n"), Operator::Lt, int(k)), Operator::And, calln("tik", vec![])),
        ];
        for cond in &conds {
            for body in &bodies {
                for as_element in [false, true] {
                    if !sh.mine() {
                        continue;
                    }
                    let lp = whil(cond.clone(), body.clone());
                    let mut prog = vec![
                        es(func("pr", &["x", "y"], vec![es(array(vec![id("x"), id("y")]))])),
                        let_("n", int(0)),
                        es(func("stap", &["k"], vec![es(assign(id("n"), infix(id("n"), Operator::Add, int(1)))), es(infix(id("n"), Operator::Lte, id("k")))])),
                        es(func("tik", &[], vec![es(assign(id("n"), infix(id("n"), Operator::Add, int(1)))), es(boolean(true))])),
                    ];
                    if as_element {
                        prog.push(let_("arr", array(vec![int(41), lp, int(43)])));
                        prog.push(es(calln("print", vec![index(id("arr"), int(0)), index(id("arr"), int(2)), calln("lengte", vec![id("arr")])])));
                    } else {
                        prog.push(es(lp));
                    }
                    prog.push(es(calln("print", vec![calln("pr", vec![int(1), int(2)]), array(vec![int(3), id("n")])])));
                    prog.push(es(calln("pr", vec![int(5), id("n")])));
                    renumber_prints(&mut prog);
                    sh.begin(&|| printer::program(&prog));
                    sh.count("family:condition-driven-loops");
                    check_program(sh, "condition-driven-loops", &prog, 100_000);
                }
            }
        }
    }
}

fn run(sh: &mut Shard) {
    let tier = sh.cfg.tier;
    cond_loop_family(sh);
    // jump-distance ladders (branches, loop bodies and function tails of every size class up to the 64 KiB limit)
    crate::ladders::run_family(sh, "control-flow", Some("control"), true);
    let t0 = std::time::Instant::now();
    exit_context_family(sh);
    sh.add("ms:exit-contexts", t0.elapsed().as_millis() as u64);
    let t0 = std::time::Instant::now();
    residue_family(sh, tier);
    sh.add("ms:residue", t0.elapsed().as_millis() as u64);
    let t0 = std::time::Instant::now();
    // the template programs are tiny: a model that needs more than 60 000 steps is in an endless loop
    crate::refint::set_model_fuel(8_000);
    depth_family(sh, tier);
    sh.add("ms:depth-templates", t0.elapsed().as_millis() as u64);
    let t0 = std::time::Instant::now();
    let sl = ctl_slice();
    crate::slices::for_each_program(&sl, tier, sh, &mut |sh, prog| {
        if !sh.mine() {
            return sh.running();
        }
        let mut p: Vec<Stmt> = prog.to_vec();
        renumber_prints(&mut p);
        sh.begin(&|| printer::program(&p));
        sh.count("family:templates");
        check_program(sh, "templates", &p, 2_500);
        if sh.index() % 40_009 == 0 {
            sh.sample(json!({"program": printer::program(&p)}));
        }
        sh.running()
    });
    sh.add("ms:templates", t0.elapsed().as_millis() as u64);
    // the same templates inside a function body (antwoord available at every position)
    let sl2 = Slice { name: "ctl-local", prelude: vec![], wrap: Some((vec!["i0"], vec![int(1)])), grammar: ctl_grammar(), bound: (4, 5), in_func: true };
    crate::slices::for_each_program(&sl2, tier, sh, &mut |sh, prog| {
        if !sh.mine() {
            return sh.running();
        }
        let mut p: Vec<Stmt> = prog.to_vec();
        renumber_prints(&mut p);
        sh.begin(&|| printer::program(&p));
        sh.count("family:templates-local");
        check_program(sh, "templates-local", &p, 2_500);
        sh.running()
    });
}

fn replay(sh: &mut Shard, case: &Value) {
    sh.mine();
    if let Some(p) = case["program"].as_str() {
        if let crate::common::Parsed::Ok(ast) = crate::common::parse_guarded(p) {
            check_program(sh, "replay", &ast, 20_000_000);
        }
    }
}

fn vacuity(m: &Merged) -> Option<String> {
    for fam in ["residue", "templates", "templates-local"] {
        if m.counters.get(&format!("family:{fam}")).copied().unwrap_or(0) < 100 {
            return Some(format!("family {fam} produced fewer than 100 cases"));
        }
    }
    if m.distinct_outcomes < 100 {
        return Some("fewer than 100 distinct outcomes".into());
    }
    None
}
