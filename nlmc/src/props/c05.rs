//! C05 — every failure is an error value: no input crashes or hangs the interpreter (DESIGN 5, C05).

use super::Prop;
use crate::outcome::{run_text, ImplEnd, RunOpts};
use crate::pool::Merged;
use crate::shard::{Shard, Tier};
use nederlang::verif;
use serde_json::{json, Value};

pub fn prop() -> Prop {
    Prop {
        id: "C05",
        level: "exploration",
        rule: "complete enumerations of inputs to the public eval(): (1) all token strings of length <= L over the full token vocabulary (every keyword, operator and delimiter, an identifier, a builtin name, int, float, string, an illegal character, a lone &), joined by one space; (2) all texts of <= n characters over an alphabet with one representative of every lexer character class; (3) every char-boundary truncation and every single-token deletion, duplication, adjacent swap and replacement by every vocabulary token of every corpus program; (3b) every ordered pair of characters of a 125-character alphabet (all printable ASCII, tab / newline / carriage return, Unicode representatives of every class) in 13 positions: in a string literal raw and after a backslash, at the end of an unterminated literal, in a comment, in / after a word, a number, a literal, as an operator, in a print format; (4) a directed boundary family (literal lengths, zero divisors and range ends, every arity mismatch up to 4x4, antwoord/stop/volgende at every position of a template, self-referential initialisers, multi-byte indexing at every index, size ladders across the 8- and 16-bit limits). Each input runs in an isolated worker under an address-space limit and a watchdog on an ordinary 8 MiB stack. Non-trivial = the input got past the lexer and parser (it compiled or failed later than parsing); distinct = distinct texts; values that contain themselves or each other (six shapes: self, mutual, ring of three, through a fresh list, two equal rings, a diamond of depth 12) under every operator in 9 operand arrangements, every builtin with 1 / 2 / nested arguments, indexing, element assignment, rendering and as the result; self-nesting of every short token template (all token strings of <= 4 tokens over ten tokens and of 5 over six, a hole at every position, nested 45 times in itself around a leaf): time and memory stay in proportion to the text",
        assumptions: &[
            "an instruction-budget exhaustion is accepted only for inputs that spell out a loop or a function (zolang / functie)",
            "long random noise is outside what enumeration reaches; only the stated bounded spaces are covered",
        ],
        run,
        replay,
        vacuity,
    }
}

pub const VOCAB: &[&str] = &[
    "als", "anders", "antwoord", "functie", "zolang", "stel", "ja", "nee", "stop", "volgende", "==", "!=", "<=", ">=", "&&", "||",
    "=", ";", ",", ".", "(", ")", "{", "}", "[", "]", "!", "<", ">", "-", "+", "*", "/", "^", "%", "a", "print", "1", "1.5",
    "\"s\"", "#", "&", "\"",
];

/// core vocabulary for longer strings
pub const CORE: &[&str] = &["functie", "zolang", "als", "stel", "a", "1", "(", ")", "{", "}", "[", "]", "=", "-", ",", "antwoord"];

pub const CHARS: &[&str] = &[
    "a", "é", "_", "1", "0", ".", "\"", "\\", "=", "!", "<", ">", "&", "|", "/", "+", "-", "*", "%", "^", ";", ",", "(", ")", "{", "}",
    "[", "]", " ", "\n", "\u{85}", "\u{200E}", "\u{2028}", "#", "😀", "\t",
];

fn budget_allowed(text: &str) -> bool {
    text.contains("zolang") || text.contains("functie")
}

/// The oracle of C05 for one input.
pub fn totality(sh: &mut Shard, family: &str, text: &str, budget: u64) {
    sh.count(&format!("family:{family}"));
    let r = run_text(text, RunOpts { budget: Some(budget), ledger: true, trace: false, render: false });
    let bad: Option<String> = match &r.end {
        ImplEnd::Value(_) => {
            sh.count("accepted");
            None
        }
        ImplEnd::Error(k) => {
            sh.count(&format!("error:{}", k.name()));
            None
        }
        ImplEnd::Budget => {
            sh.count("budget-exhausted");
            if budget_allowed(text) {
                None
            } else {
                Some("the run does not terminate although the input spells out no loop and no function".into())
            }
        }
        ImplEnd::Breach(b) => Some(format!("the machine left its own memory (contract probe {b}); unhooked this is undefined behaviour")),
        ImplEnd::Panic(p) => Some(format!("panic: {p}")),
    };
    let bad = bad.or_else(|| {
        if r.heap.iter().any(|h| h.starts_with("use-after-free") || h.starts_with("double-free") || h.starts_with("dead-result")) {
            Some(format!("heap discipline broken during the run: {:?}", r.heap))
        } else {
            None
        }
    });
    sh.outcome(&r.end);
    let parsed_ok = !matches!(&r.end, ImplEnd::Error(crate::refint::ErrKind::Syntax));
    if parsed_ok {
        sh.nontrivial(text);
    }
    if sh.verbose {
        println!("input: {text:?}\n outcome: {}", crate::common::impl_end_text(&r.end));
    }
    if let Some(why) = bad {
        if !crate::common::known_input(sh, text) && !known_site(sh, &why) {
            sh.violation("totality", json!({"family": family, "input": text}), why);
        }
    }
}

/// Known-finding matcher `{"panic_contains": "<text>"}`: a crash identified by its message.
fn known_site(sh: &mut Shard, why: &str) -> bool {
    let hit = sh
        .known
        .iter()
        .find(|f| f.matcher.get("panic_contains").and_then(|v| v.as_str()).map(|s| why.contains(s)).unwrap_or(false))
        .map(|f| f.id.clone());
    match hit {
        Some(id) => {
            sh.known(&id);
            true
        }
        None => false,
    }
}

fn case(sh: &mut Shard, family: &str, text: &str, budget: u64) {
    if !sh.mine() {
        return;
    }
    let t = text.to_string();
    sh.begin(&|| t.clone());
    if sh.index() % 400_009 == 0 {
        sh.sample(json!({"family": family, "input": text}));
    }
    totality(sh, family, text, budget);
}

/// All strings of exactly `len` symbols over `alpha`, joined by `sep`, grouped by first symbol.
fn strings(sh: &mut Shard, family: &str, alpha: &[&str], len: usize, sep: &str, budget: u64) {
    let rest = len - 1;
    let per_first = (alpha.len() as u64).pow(rest as u32);
    sh.group_mode = true;
    for first in alpha {
        if !sh.want_group(per_first) {
            continue;
        }
        for code in 0..per_first {
            let mut text = first.to_string();
            let mut div = per_first;
            for _ in 0..rest {
                div /= alpha.len() as u64;
                let d = (code / div) % alpha.len() as u64;
                text.push_str(sep);
                text.push_str(alpha[d as usize]);
            }
            case(sh, family, &text, budget);
            if !sh.running() {
                sh.group_mode = false;
                return;
            }
        }
    }
    sh.group_mode = false;
}

pub fn corpus_texts() -> Vec<String> {
    let mut v: Vec<String> = super::c01::corpus().into_iter().map(|(t, _)| t).collect();
    // a few slice programs as well
    v.push("stel a = [1, [2]]; stel s = \"xé\"; functie f(x) { als x < 1 { antwoord s } f(x - 1) } print(f(2), a)".into());
    v.push("stel i = 0; zolang i < 3 { i += 1; als i == 2 { volgende } print(\"{} {}\", i, [i, 1.5]) }".into());
    v.sort();
    v.dedup();
    v
}

/// Every char-boundary truncation and every single-token edit of every corpus program.
pub fn for_each_edit(f: &mut dyn FnMut(&str, &str) -> bool) {
    for prog in corpus_texts() {
        let toks = verif::tokens(&prog);
        for (i, _) in prog.char_indices().skip(1) {
            if !f("truncation", &prog[..i]) {
                return;
            }
        }
        if toks.len() > 400 {
            continue;
        }
        // a token's text is the end of its span minus the skipped separators in front of it
        let piece = |k: usize| -> &str { prog[toks[k].1..toks[k].2].trim_start_matches(|c: char| c.is_whitespace() || c == '\u{200E}' || c == '\u{200F}') };
        let all: Vec<&str> = (0..toks.len()).map(piece).filter(|p| !p.starts_with("//")).collect();
        let rebuild = |parts: &[&str]| -> String { parts.join(" ") };
        for k in 0..all.len() {
            let mut p = all.clone();
            p.remove(k);
            if !f("edit-delete", &rebuild(&p)) {
                return;
            }
            let mut p = all.clone();
            p.insert(k, all[k]);
            if !f("edit-duplicate", &rebuild(&p)) {
                return;
            }
            if k + 1 < all.len() {
                let mut p = all.clone();
                p.swap(k, k + 1);
                if !f("edit-swap", &rebuild(&p)) {
                    return;
                }
            }
            for v in VOCAB {
                let mut p = all.clone();
                p[k] = v;
                if !f("edit-replace", &rebuild(&p)) {
                    return;
                }
            }
        }
    }
}

fn edits(sh: &mut Shard) {
    for_each_edit(&mut |family, text| {
        case(sh, family, text, 200_000);
        sh.running()
    });
}

/// Values that contain themselves or each other (a list in itself, two lists in each other, a ring of three, a
/// list in a fresh list in itself, two separate rings of the same shape, a diamond of depth 12) under every
/// operator, every builtin, indexing, element assignment, and as the program's result: an answer or an error.
fn cyclic_values(sh: &mut Shard) {
    let b = 2_000_000;
    let shapes: [(&str, &str, &str); 6] = [
        ("stel a = [0]; a[0] = a; stel b = a", "a", "b"),
        ("stel a = [0]; stel b = [a]; a[0] = b", "a", "b"),
        ("stel a = [0, 1]; stel b = [a, 2]; stel c = [b, 3]; a[0] = c", "a", "c"),
        ("stel a = [0]; a[0] = [a]; stel b = a[0]", "a", "b"),
        ("stel a = [0]; a[0] = a; stel b = [0]; b[0] = b", "a", "b"),
        ("stel a = [1]; stel k = 0; zolang k < 12 { a = [a, a]; k += 1 } stel b = [a[0], a[1]]", "a", "b"),
    ];
    for (setup, x, y) in shapes {
        for op in ["+", "-", "*", "/", "%", "<", "<=", ">", ">=", "==", "!=", "&&", "||"] {
            for (l, r) in [(x, x), (x, y), (y, x), (x, "a[0]"), ("a[0]", y), ("[a]", "[b]"), (x, "[a]")] {
                case(sh, "cyclic-values", &format!("{setup}; {l} {op} {r}"), b);
            }
            case(sh, "cyclic-values", &format!("{setup}; als {x} {op} {y} {{ 1 }} anders {{ 2 }}"), b);
            case(sh, "cyclic-values", &format!("{setup}; functie(p, q) {{ p {op} q }}({x}, {y})"), b);
        }
        for bi in ["print", "type", "bool", "int", "float", "string", "lengte"] {
            case(sh, "cyclic-values", &format!("{setup}; {bi}({x})"), b);
            case(sh, "cyclic-values", &format!("{setup}; {bi}({x}, {y})"), b);
            case(sh, "cyclic-values", &format!("{setup}; {bi}([{x}, {y}])"), b);
        }
        for tail in ["a", "[a, b]", "a[a]", "a[0] = b; a", "b[0] = b; [a, b]", "!a", "-a", "a[0][0][0][0]", "print(\"{} {}\", a, b)", "stel s = string(a); lengte(s)", "a = 1; b", "functie f(p) { p[0] = p; p } f(b)"] {
            case(sh, "cyclic-values", &format!("{setup}; {tail}"), b);
        }
    }
}

/// Self-nesting of EVERY short token template: all token strings of up to 4 tokens over {a 1 [ ] ( ) = += - ,}
/// (and of 5 tokens over {a 1 [ ] = +=}; thorough: also { } als functie and 5 tokens over ten) with a hole at every
/// position, the template put into its own hole 45 times around a leaf. Whatever the grammar makes of the
/// template — most are refused at once — reading it costs time and memory in proportion to the text: a
/// construct that copies or re-reads its operand doubles the work per level and ends the process.
fn self_nesting(sh: &mut Shard, tier: Tier) {
    let b = 2_000_000;
    let depth = 45;
    let v10: &[&str] = &["a", "1", "[", "]", "(", ")", "=", "+=", "-", ","];
    let v6: &[&str] = &["a", "1", "[", "]", "=", "+="];
    let v14: &[&str] = &["a", "1", "[", "]", "(", ")", "=", "+=", "-", ",", "{", "}", "als", "functie"];
    let plans: Vec<(&[&str], usize)> = if tier == Tier::Quick { vec![(v10, 4), (v6, 5)] } else { vec![(v14, 4), (v10, 5)] };
    let mut seen: std::collections::HashSet<String> = std::collections::HashSet::new();
    for (vocab, maxlen) in plans {
        for len in 1..=maxlen {
            let mut idx = vec![0usize; len];
            loop {
                let toks: Vec<&str> = idx.iter().map(|i| vocab[*i]).collect();
                for hole in 0..=len {
                    let before = toks[..hole].join(" ");
                    let after = toks[hole..].join(" ");
                    let key = format!("{before}\u{0}{after}");
                    if seen.insert(key) {
                        let mut text = String::with_capacity((before.len() + after.len() + 2) * depth + 1);
                        for _ in 0..depth {
                            text.push_str(&before);
                            text.push(' ');
                        }
                        text.push('a');
                        for _ in 0..depth {
                            text.push(' ');
                            text.push_str(&after);
                        }
                        case(sh, "self-nesting", &format!("stel a = [0]; {text}"), b);
                    }
                }
                // next template
                let mut k = len;
                loop {
                    if k == 0 {
                        break;
                    }
                    k -= 1;
                    idx[k] += 1;
                    if idx[k] < vocab.len() {
                        break;
                    }
                    idx[k] = 0;
                    if k == 0 {
                        k = usize::MAX;
                        break;
                    }
                }
                if k == usize::MAX {
                    break;
                }
            }
        }
    }
}

fn directed(sh: &mut Shard, tier: Tier) {
    let b = 2_000_000;
    cyclic_values(sh);
    self_nesting(sh, tier);
    // literal lengths
    for n in 1..=40usize {
        for d in ["9", "1"] {
            let lit = d.repeat(n);
            case(sh, "directed-literal", &lit, b);
            case(sh, "directed-literal", &format!("-{lit}"), b);
            case(sh, "directed-literal", &format!("{lit}.{lit}"), b);
            case(sh, "directed-literal", &format!("int(\"{lit}\")"), b);
            case(sh, "directed-literal", &format!("int({lit}.0)"), b);
            case(sh, "directed-literal", &format!("float(\"{lit}\")"), b);
            case(sh, "directed-literal", &format!("stel x = {lit}; x * x"), b);
        }
    }
    // zero divisors and range ends for every operator, in three forms
    let ends = ["0", "1", "(0 - 1)", "1152921504606846975", "(0 - 1152921504606846975 - 1)", "0.0", "1.5"];
    for op in ["+", "-", "*", "/", "%", "<", "<=", ">", ">=", "==", "!="] {
        for a in ends {
            for c in ends {
                case(sh, "directed-operator", &format!("{a} {op} {c}"), b);
                case(sh, "directed-operator", &format!("functie(x) {{ x {op} {c} }}({a})"), b);
                case(sh, "directed-operator", &format!("functie(x) {{ {a} {op} x }}({c})"), b);
                case(sh, "directed-operator", &format!("stel x = {a}; x {op}= {c}"), b);
            }
        }
    }
    // every arity mismatch up to 4 x 4, with 0..2 locals
    for params in 0..=4usize {
        for args in 0..=4usize {
            for locals in 0..=2usize {
                let ps: Vec<String> = (0..params).map(|i| format!("p{i}")).collect();
                let ls: String = (0..locals).map(|i| format!("stel l{i} = {i}; ")).collect();
                let as_: Vec<String> = (0..args).map(|i| format!("{}", i + 1)).collect();
                case(sh, "directed-arity", &format!("functie f({}) {{ {ls}1 }} f({})", ps.join(", "), as_.join(", ")), b);
                case(sh, "directed-arity", &format!("functie({}) {{ {ls}antwoord [{}] }}({})", ps.join(", "), ps.join(", "), as_.join(", ")), b);
            }
        }
    }
    for bi in ["print", "type", "bool", "int", "float", "string", "lengte"] {
        for args in 0..=4usize {
            let as_: Vec<String> = (0..args).map(|i| format!("{}", i + 1)).collect();
            case(sh, "directed-arity", &format!("{bi}({})", as_.join(", ")), b);
        }
        case(sh, "directed-builtin-name", &format!("{bi}"), b);
        case(sh, "directed-builtin-name", &format!("stel {bi} = 1; {bi}"), b);
        case(sh, "directed-builtin-name", &format!("stel f = {bi}"), b);
        case(sh, "directed-builtin-name", &format!("functie {bi}(x) {{ x }} {bi}(1)"), b);
    }
    // antwoord / stop / volgende at every statement position of a template
    let template: [&str; 7] = ["stel a = 1", "{ @ }", "als ja { @ } anders { @ }", "zolang a < 2 { a += 1; @ }", "functie f() { @; 1 } f()", "functie g() { zolang ja { functie h() { @ } h(); stop } } g()", "[1, als ja { @ }]"];
    for kw in ["antwoord 1", "stop", "volgende", "antwoord", "antwoord stop"] {
        for t in template {
            let with = t.replace('@', kw);
            case(sh, "directed-exit", &format!("stel a = 0; {with}"), b);
            case(sh, "directed-exit", &format!("stel a = 0; {with}; a"), b);
            case(sh, "directed-exit", &format!("stel a = 0; {kw}; {with}"), b);
        }
    }
    // self-referential initialisers
    for init in ["x", "x + 1", "[x]", "functie() { x }", "functie() { x }()", "als ja { x }", "x = 1", "x[0]", "lengte(x)", "print(x)", "-x", "!x"] {
        case(sh, "directed-selfref", &format!("stel x = {init}"), b);
        case(sh, "directed-selfref", &format!("stel x = {init}; x"), b);
        case(sh, "directed-selfref", &format!("{{ stel y = 5 }} stel x = {init}; x"), b);
        case(sh, "directed-selfref", &format!("functie() {{ stel x = {init}; x }}()"), b);
        case(sh, "directed-selfref", &format!("stel x = 1; stel x = {init}; x"), b);
    }
    // multi-byte indexing at every index
    for s in ["", "a", "é", "€", "😀", "aé", "é€😀a", "😀😀", "\u{1F1F3}\u{1F1F1}💖"] {
        let n = s.chars().count() as i64;
        for i in -(n + 2)..=(n + 2) {
            let idx = if i < 0 { format!("-{}", -i) } else { i.to_string() };
            case(sh, "directed-index", &format!("\"{s}\"[{idx}]"), b);
            case(sh, "directed-index", &format!("stel s = \"{s}\"; s[{idx}] = \"é\"; s"), b);
            case(sh, "directed-index", &format!("stel s = \"{s}\"; s[{idx}] = s; s"), b);
            case(sh, "directed-index", &format!("stel s = \"{s}\"; s[{idx}] = \"\"; lengte(s)"), b);
        }
    }
    // cyclic and deep structures
    for p in [
        "stel a = [1]; a[0] = a; print(a)",
        "stel a = [1]; a[0] = a; a",
        "stel a = [1]; stel b = [a]; a[0] = b; print(b); lengte(a)",
        "stel a = [1]; a[0] = a; functie f() { 1 } f(); print(a)",
        "stel a = [1]; a[0] = a; string(a)",
        "stel a = [1]; a[0] = a; bool(a)",
        "stel a = [1]; a[0] = a; a == a",
    ] {
        case(sh, "directed-cycle", p, b);
    }
    // character sweep: every ordered pair of characters of the full alphabet (all printable ASCII, tab / newline /
    // carriage return, Unicode representatives of every class) in each lexical and syntactic position
    {
        let alpha = super::c08::full_alphabet();
        for &c1 in &alpha {
            for &c2 in &alpha {
                for text in [
                    format!("\"{c1}{c2}\""),
                    format!("\"\\{c1}{c2}\""),
                    format!("\"a{c1}\\{c2}"),
                    format!("lengte(\"{c1}\\{c2}x\")"),
                    format!("//{c1}{c2}\n7"),
                    format!("x{c1}{c2}"),
                    format!("1{c1}{c2}"),
                    format!("{c1}{c2}"),
                    format!("{c1}{c2}1"),
                    format!("[1, 2]{c1}{c2}"),
                    format!("\"s\"{c1}{c2}"),
                    format!("stel a = 1; a {c1}{c2} 2"),
                    format!("print(\"{{}}{c1}{c2}{{}}\", 1, 2)"),
                ] {
                    case(sh, "char-sweep", &text, b);
                }
            }
        }
    }
    // ~5 000 code points in a string literal, a comment, a name, a print format, a builtin argument
    for c in super::c08::code_points() {
        for text in [
            format!("stel s = \"a{c}b\"; [lengte(s), s[1], s[-1]]"),
            format!("print(\"{c}{{}}{c}\", \"{c}\")"),
            format!("// {c}\nx{c}y"),
            format!("int(\"{c}\") + float(\"1{c}\")"),
            format!("stel s = \"{c}{c}{c}\"; s[1] = \"a\"; s"),
        ] {
            case(sh, "code-points", &text, 20_000);
        }
    }
    // escape sequences of other languages inside string literals (as a value, printed, measured, indexed)
    for body in super::c08::foreign_escape_bodies() {
        for text in [format!("\"{body}\""), format!("print(\"{body}\")"), format!("lengte(\"{body}\") + 1"), format!("\"{body}\"[0]")] {
            case(sh, "foreign-escapes", &text, b);
        }
    }
    // every builtin on texts of 20..70 and 120..135 and 250..260 characters that are not numbers, with one wide
    // character at EVERY position (whatever a builtin cuts, quotes or measures, it must cut on a character)
    for len in (20usize..=70).chain(120..=135).chain(250..=260) {
        for p in 0..len {
            for wide in ["é", "😀"] {
                let t: String = (0..len).map(|i| if i == p { wide.to_string() } else { ((b'a' + (i % 26) as u8) as char).to_string() }).collect();
                for b in ["int", "float", "bool", "lengte", "type", "string"] {
                    case(sh, "builtin-on-long-text", &format!("{b}(\"{t}\")"), 20_000);
                }
                case(sh, "builtin-on-long-text", &format!("print(\"{t}\", 1)"), 20_000);
                case(sh, "builtin-on-long-text", &format!("stel {t} = 1; {t}x"), 20_000);
                case(sh, "builtin-on-long-text", &format!("1 + \"{t}\""), 20_000);
                case(sh, "builtin-on-long-text", &format!("{t}(1)"), 20_000);
                // the same text inside every construct whose refusal may quote the offending expression or value
                for tpl in ERROR_TEMPLATES {
                    case(sh, "error-quotes-long-text", &tpl.replace("TEXT", &t), 20_000);
                }
            }
        }
    }
    // size ladders across the 8- and 16-bit limits
    let kmax = if tier == Tier::Quick { 17 } else { 18 };
    for k in 0..=kmax {
        let n = 1usize << k;
        for m in [n - 1, n, n + 1] {
            if m == 0 {
                continue;
            }
            let big = 400_000_000;
            case(sh, "ladder-statements", &"1; ".repeat(m), big);
            case(sh, "ladder-statements", &format!("als ja {{ {} }}", "1; ".repeat(m)), big);
            case(sh, "ladder-statements", &format!("stel i = 0; zolang i < 2 {{ i += 1; {} }}", "1; ".repeat(m)), big);
            case(sh, "ladder-statements", &format!("functie f() {{ {} }} f()", "1; ".repeat(m)), big);
            case(sh, "ladder-elements", &format!("lengte([{}])", "1, ".repeat(m)), big);
            case(sh, "ladder-constants", &format!("[{}]", (0..m).map(|i| i.to_string()).collect::<Vec<_>>().join(", ")), big);
            case(sh, "ladder-arguments", &format!("print({})", "1, ".repeat(m)), big);
            case(sh, "ladder-arguments", &format!("functie f(a) {{ a }} f({})", "1, ".repeat(m)), big);
            let params: Vec<String> = (0..m).map(|i| format!("p{i}")).collect();
            if m <= 1_025 {
                // as many arguments as parameters, across the limit of the call instruction
                let args = (0..m).map(|i| i.to_string()).collect::<Vec<_>>().join(", ");
                case(sh, "ladder-matching-call", &format!("functie f({}) {{ p0 + p{} }} 7 + f({args})", params.join(", "), m - 1), big);
                case(sh, "ladder-matching-call", &format!("functie f({}) {{ stel l = p{}; l }} [1, f({args})]", params.join(", "), m - 1), big);
            }
            if m <= 70_000 {
                case(sh, "ladder-parameters", &format!("functie f({}) {{ p0 }} f(1)", params.join(", ")), big);
                case(sh, "ladder-locals", &format!("functie f() {{ {} 1 }} f()", params.iter().map(|p| format!("stel {p} = 1; ")).collect::<String>()), big);
                case(sh, "ladder-globals", &format!("{} p0", params.iter().map(|p| format!("stel {p} = 1; ")).collect::<String>()), big);
            }
            case(sh, "ladder-string", &format!("lengte(\"{}\")", "é".repeat(m)), big);
            case(sh, "ladder-iterations", &format!("stel i = 0; zolang i < {m} {{ i += 1 }} i"), big);
            case(sh, "ladder-iterations", &format!("stel i = 0; stel a = []; zolang i < {m} {{ i += 1; a = [a] }} lengte(a)"), big);
            // deep run-time values: collector marking, hand-over of the result, printing
            let deep = format!("stel i = 0; stel a = []; zolang i < {m} {{ i += 1; a = [a] }}");
            case(sh, "ladder-deep-value", &format!("{deep} functie f() {{ 1 }} f(); lengte(a)"), big);
            case(sh, "ladder-deep-value", &format!("{deep} a"), big);
            case(sh, "ladder-deep-value", &format!("{deep} print(a)"), big);
            case(sh, "ladder-deep-value", &format!("{deep} functie g(x) {{ x }} lengte(g(a))"), big);
            case(sh, "ladder-recursion", &format!("functie r(n) {{ als n == 0 {{ antwoord 0 }} r(n - 1) + 1 }} r({m})"), big);
            case(sh, "ladder-recursion", &format!("functie r(n) {{ als n == 0 {{ antwoord 0 }} stel a = \"s\"; r(n - 1) }} r({})", m.min(5000)), big);
        }
        // nesting depth
        for m in [n - 1, n, n + 1] {
            if m == 0 {
                continue;
            }
            let big = 400_000_000;
            case(sh, "ladder-nesting", &format!("{}1{}", "(".repeat(m), ")".repeat(m)), big);
            case(sh, "ladder-nesting", &format!("{}1{}", "[".repeat(m), "]".repeat(m)), big);
            case(sh, "ladder-nesting", &format!("{}1", "-".repeat(m)), big);
            case(sh, "ladder-nesting", &format!("{}ja", "!".repeat(m)), big);
            case(sh, "ladder-nesting", &format!("{}{}", "{".repeat(m), "}".repeat(m)), big);
            case(sh, "ladder-nesting", &format!("{}1{}", "als ja { ".repeat(m), " }".repeat(m)), big);
            case(sh, "ladder-nesting", &format!("{}1{}", "functie() { ".repeat(m), " }()".repeat(m)), big);
            case(sh, "ladder-nesting", &format!("1{}", " + 1".repeat(m)), big);
            case(sh, "ladder-nesting", &format!("stel a = 1; a{}", " = a".repeat(m)), big);
            // every recursive path of the grammar, closed and left open
            for (open, mid, close) in [
                ("als nee { 1 } anders ", "{ 2 }", ""),
                ("als nee { 1 } anders ", "als ja { 2 }", ""),
                ("als nee { } anders { ", "1", " }"),
                ("a(", "1", ")"),
                ("print(1, ", "1", ")"),
                ("a[", "1", "]"),
                ("[1, ", "1", "]"),
                ("zolang nee { ", "1", " }"),
                ("zolang ", "nee", " { }"),
                ("als ", "ja", " { }"),
                ("{ stel x = ", "1", " }"),
                ("functie f() { antwoord ", "1", " }"),
                ("1 + (", "1", ")"),
                ("a = (", "1", ")"),
                ("a += ", "1", ""),
                ("a = b[", "1", "]"),
                ("-(", "1", ")"),
                ("!a == ", "1", ""),
                ("1 - -", "1", ""),
            ] {
                case(sh, "ladder-nesting", &format!("{}{}{}", open.repeat(m), mid, close.repeat(m)), big);
                case(sh, "ladder-nesting", &format!("{}{}", open.repeat(m), mid), big);
            }
            case(sh, "ladder-nesting", &"(".repeat(m), big);
            case(sh, "ladder-nesting", &"[".repeat(m), big);
            case(sh, "ladder-nesting", &"{".repeat(m), big);
            case(sh, "ladder-nesting", &"als ja { ".repeat(m), big);
            case(sh, "ladder-nesting", &"functie(".repeat(m), big);
        }
        if !sh.running() {
            return;
        }
    }
}

/// Programs that are refused — by the parser, the compiler or the machine — with a message that may quote the
/// offending expression, name or value; TEXT is replaced by a long text with one wide character.
const ERROR_TEMPLATES: &[&str] = &[
    "[\"TEXT\", 1][0][0]",
    "stel i = 0; [\"kaas\", \"TEXT\"][i][0]",
    "functie f(x) { x } f(\"TEXT\")()",
    "(\"TEXT\" + 1) = 2",
    "functie f(x) { x } f(\"TEXT\") = 1",
    "\"TEXT\"()",
    "[\"TEXT\"][0][0] = 2",
    "-\"TEXT\"",
    "!\"TEXT\" + 1",
    "\"TEXT\" < 1",
    "\"TEXT\" * \"TEXT\"",
    "[1][\"TEXT\"]",
    "\"TEXT\"[999]",
    "\"TEXT\"[-999] = \"x\"",
    "als \"TEXT\" { 1 }",
    "zolang \"TEXT\" { stop }",
    "stel \"TEXT\" = 1",
    "functie f(\"TEXT\") { 1 }",
    "TEXT = 1",
    "stel x = 1; x.TEXT",
    "\"TEXT",
    "print(\"{} {}\", \"TEXT\")",
    "lengte(\"TEXT\", 1)",
    "[TEXT]",
    "functie g() { antwoord \"TEXT\" + 1 } g()",
    "[\"TEXT\"] + 1",
    "[[\"TEXT\"]] == 1 + [\"TEXT\"]",
    "\"TEXT\"[\"TEXT\"]",
    "1(\"TEXT\")",
    "(\"TEXT\" == 1)[0]",
];

fn run(sh: &mut Shard) {
    let tier = sh.cfg.tier;
    // the interpreter's own command-line program, unoptimised and release, on the long-run ladders
    crate::cliprof::run_family(sh, "cli-profiles");
    // the interactive prompt itself: no line makes it die, and it ends when its input ends (what it shows is C17's)
    super::c17::repl_sessions(sh, "repl", None, false);
    let (lmax, nmax) = if tier == Tier::Quick { (4, 3) } else { (5, 4) };
    for len in 1..=nmax {
        strings(sh, "text", CHARS, len, "", 50_000);
    }
    directed(sh, tier);
    edits(sh);
    for len in 1..=lmax {
        strings(sh, "tokens", VOCAB, len, " ", 50_000);
    }
    if tier == Tier::Thorough {
        for len in 6..=7 {
            strings(sh, "tokens-core", CORE, len, " ", 50_000);
        }
    }
}

fn replay(sh: &mut Shard, case: &Value) {
    if case.get("cli").is_some() {
        crate::cliprof::replay(sh, "cli-profiles", case);
        return;
    }
    if let Some(a) = case["repl_session"].as_array() {
        let lines: Vec<String> = a.iter().filter_map(|x| x.as_str().map(|s| s.to_string())).collect();
        super::c17::repl_sessions(sh, "repl", Some(&lines), false);
        return;
    }
    sh.mine();
    // a case that killed its worker is recorded as the bare input text
    let text = case["input"].as_str().or(case.as_str());
    if let Some(t) = text {
        totality(sh, "replay", t, 400_000_000);
    }
}

fn vacuity(m: &Merged) -> Option<String> {
    for fam in ["tokens", "text", "truncation", "edit-replace", "directed-operator", "ladder-nesting"] {
        if m.counters.get(&format!("family:{fam}")).copied().unwrap_or(0) == 0 {
            return Some(format!("family {fam} produced no case"));
        }
    }
    if m.counters.get("accepted").copied().unwrap_or(0) < 1000 {
        return Some("fewer than 1000 inputs were accepted".into());
    }
    for k in ["error:SyntaxError", "error:ReferenceError", "error:TypeError", "error:IndexError", "error:ArgumentError"] {
        if m.counters.get(k).copied().unwrap_or(0) == 0 {
            return Some(format!("no input produced {k}"));
        }
    }
    None
}
