//! C08 — tokenisation and literals are faithful to the text (DESIGN 5, C08).

use super::Prop;
use crate::common::{parse_guarded, Parsed};
use crate::pool::Merged;
use crate::printer::{escape_string, may_touch};
use crate::shard::{Shard, Tier};
use nederlang::verif::{self, Expr, Stmt};
use serde_json::{json, Value};

pub fn prop() -> Prop {
    Prop {
        id: "C08",
        level: "exploration",
        rule: "(1) all token strings of length <= 3 over the full vocabulary (keywords, operators, delimiters, identifier spellings that embed/prefix/suffix keywords, numbers, strings) rendered with every per-gap separator choice from {nothing where maximal munch allows, space, newline, line comment}: the token stream must be the concatenation of the tokens of the pieces, every piece one token spanning exactly its text, keywords not identifiers, lexeme kept; (2) all strings of length <= 3 over {a, é, _, 1, 0, .} against a reference maximal-munch lexer; (3) all string contents of length <= 4 over 8 characters encoded with the documented escapes: the parsed String node must equal the content; all raw literal bodies of length <= 4 over {a, quote, backslash, n} followed by more input: the literal ends at the first unescaped quote and decodes as the reference decoder says; (3d) character sweep: every printable ASCII character, tab / newline / carriage return and 24 Unicode representatives (letters of several scripts and widths, digits, white space, combining mark, format characters, symbols), singly and in every ordered pair, inside / at the start / at the end of a word, raw and after a backslash in a string literal, inside / at the end of a comment, and between tokens (illegal characters must be refused); (3h) ~5 000 code points (every one of U+0000-02FF, 2000-22FF, 2600-27FF, 3000-30FF, D700-D7FF, E000-E0FF, FE00-FFFF, 1F300-1F6FF, 1F900-1F9FF, 2F800-2F8FF, E0000-E01FF, 10FF00-10FFFF) inside a string literal, directly behind a backslash in a string literal (5 positions), a comment and an identifier; (3g) two literals next to each other (every ordered pair of 24 string contents, and strings next to numbers / names / keyword literals), separated by white space, a comma or a comment; (3i) literal forms of other languages (every ASCII letter and 24 prefixes directly in front of 6 string literals in 4 contexts; 14 digit runs continued by letters): a name and a string / a number and a name, exactly as with a blank in between; (3f) escape sequences of other languages (a backslash before every ASCII letter and digit with 26 continuations: hex digits incl. surrogates, braces, octal): only the four documented escapes exist; (3e) runs of 1..6 backslashes followed by a quote, the end of the literal or more text, starting at every offset 0..40 (escaped and raw forms), and pairs of special characters adjacent or one apart at every position of literals up to 130 characters; (3c) token-length ladder: one identifier / digit run / fraction / string literal / comment / white-space run of every length around each power of two up to 1025 (8193 thorough), with one escape or wide character at every position near a multiple of 8 and at both ends; (4) nothing is dropped: a text with an illegal character, an unterminated string or a lone & or | is rejected by parse, and between consecutive token spans only white space and comments occur. Non-trivial = more than one token or a literal with an escape; distinct = distinct texts",
        assumptions: &[
            "token kinds are compared through their Debug rendering, learnt from single-token inputs (no kind name is hard-coded); the documented token shapes are those of printer::may_touch and the reference lexer in this file",
        ],
        run,
        replay,
        vacuity,
    }
}

const KEYWORDS: [&str; 10] = ["als", "anders", "antwoord", "functie", "zolang", "stel", "ja", "nee", "stop", "volgende"];
const OPERATORS: [&str; 25] = [
    "==", "!=", "<=", ">=", "&&", "||", "=", ";", ",", ".", "(", ")", "{", "}", "[", "]", "!", "<", ">", "-", "+", "*", "/", "^", "%",
];
const IDENTS: [&str; 12] = ["a", "alsof", "stelsel", "_als", "als1", "é", "jaa", "x_1", "Als", "aאב", "אב", "naamé"];
const NUMBERS: [&str; 5] = ["1", "007", "10", "1.5", "0.0"];
const STRINGS: [&str; 3] = ["\"s\"", "\"\"", "\"a b // c\""];

fn vocabulary() -> Vec<&'static str> {
    let mut v: Vec<&'static str> = Vec::new();
    v.extend(KEYWORDS);
    v.extend(OPERATORS);
    v.extend(IDENTS);
    v.extend(NUMBERS);
    v.extend(STRINGS);
    v
}

fn toks(text: &str) -> Result<Vec<(String, usize, usize)>, String> {
    std::panic::catch_unwind(|| verif::tokens(text)).map_err(|p| crate::outcome::panic_message(p))
}

/// kind = Debug rendering up to the first '(' (the lexeme, if any, follows)
fn kind_of(debug: &str) -> &str {
    debug.split('(').next().unwrap_or(debug)
}

fn is_ws_or_comment(s: &str) -> bool {
    strip_ws_comments(s).is_empty()
}

/// `s` without its leading white space and line comments.
fn strip_ws_comments(mut s: &str) -> &str {
    loop {
        s = s.trim_start_matches(|c: char| {
            matches!(c, '\t' | '\n' | '\u{0B}' | '\u{0C}' | '\r' | ' ' | '\u{85}' | '\u{200E}' | '\u{200F}' | '\u{2028}' | '\u{2029}')
        });
        if s.is_empty() {
            return s;
        }
        if let Some(rest) = s.strip_prefix("//") {
            match rest.find('\n') {
                Some(i) => s = &rest[i..],
                None => return "",
            }
        } else {
            return s;
        }
    }
}

fn fail(sh: &mut Shard, family: &str, text: &str, why: String) {
    if !crate::common::known_input(sh, text) {
        sh.violation("tokens", json!({"family": family, "text": text}), why);
    }
}

/// Single-token anchors: every vocabulary entry alone is exactly one token spanning its text.
fn check_single(sh: &mut Shard, v: &str) -> Option<String> {
    match toks(v) {
        Err(p) => {
            fail(sh, "single", v, format!("lexer panicked: {p}"));
            None
        }
        Ok(t) => {
            if t.len() != 1 || t[0].1 != 0 || t[0].2 != v.len() {
                fail(sh, "single", v, format!("expected one token spanning the text, got {t:?}"));
                return None;
            }
            Some(t[0].0.clone())
        }
    }
}

fn seq_case(sh: &mut Shard, pieces: &[&str], seps: &[&str], singles: &std::collections::HashMap<&str, String>) {
    if !sh.mine() {
        return;
    }
    let mut text = String::new();
    for (i, p) in pieces.iter().enumerate() {
        if i > 0 {
            text.push_str(seps[i - 1]);
        }
        text.push_str(p);
    }
    let t2 = text.clone();
    sh.begin(&|| t2.clone());
    sh.count("family:sequences");
    if pieces.len() > 1 {
        sh.nontrivial(&text);
    }
    if sh.index() % 200_003 == 0 {
        sh.sample(json!({"family": "sequences", "text": text}));
    }
    let expected: Vec<&String> = pieces.iter().filter_map(|p| singles.get(p)).collect();
    match toks(&text) {
        Err(p) => fail(sh, "sequences", &text, format!("lexer panicked: {p}")),
        Ok(got) => {
            let names: Vec<&String> = got.iter().map(|g| &g.0).collect();
            if names != expected {
                fail(sh, "sequences", &text, format!("token stream {names:?}, expected {expected:?}"));
                return;
            }
            // spans (a span starts where the previous token ended and includes the skipped separator):
            // each token ends exactly where its piece ends
            let mut pos = 0;
            let mut prev_end = 0;
            for (i, p) in pieces.iter().enumerate() {
                if i > 0 {
                    pos += seps[i - 1].len();
                }
                if got[i].1 != prev_end || got[i].2 != pos + p.len() {
                    fail(sh, "sequences", &text, format!("token {i} spans {}..{}, its text is at {}..{}", got[i].1, got[i].2, pos, pos + p.len()));
                    return;
                }
                pos += p.len();
                prev_end = pos;
            }
        }
    }
    if sh.verbose {
        println!("text {text:?}: token stream as expected");
    }
}

/// Reference maximal-munch lexer for the alphabet {a, é, _, 1, 0, .}: returns (class, lexeme).
fn reference_lex(s: &str) -> Vec<(&'static str, String)> {
    let cs: Vec<char> = s.chars().collect();
    let mut out = Vec::new();
    let mut i = 0;
    while i < cs.len() {
        let c = cs[i];
        if c.is_alphabetic() || c == '_' {
            let mut j = i + 1;
            while j < cs.len() && (cs[j].is_alphanumeric() || cs[j] == '_') {
                j += 1;
            }
            out.push(("ident", cs[i..j].iter().collect()));
            i = j;
        } else if c.is_ascii_digit() {
            let mut j = i + 1;
            let mut dot = false;
            while j < cs.len() && (cs[j].is_ascii_digit() || (!dot && cs[j] == '.')) {
                if cs[j] == '.' {
                    dot = true;
                }
                j += 1;
            }
            out.push((if dot { "float" } else { "int" }, cs[i..j].iter().collect()));
            i = j;
        } else {
            out.push(("dot", ".".to_string()));
            i += 1;
        }
    }
    out
}

/// Reference scanner + decoder for a raw string-literal body that follows an opening quote.
/// Returns (decoded content, bytes consumed including the closing quote) or None if unterminated.
fn reference_string(after_open: &str) -> Option<(String, usize)> {
    let mut out = String::new();
    let mut it = after_open.char_indices().peekable();
    while let Some((i, c)) = it.next() {
        match c {
            '"' => return Some((out, i + 1)),
            '\\' => match it.peek().map(|x| x.1) {
                Some('"') => {
                    out.push('"');
                    it.next();
                }
                Some('\\') => {
                    out.push('\\');
                    it.next();
                }
                Some('n') => {
                    out.push('\n');
                    it.next();
                }
                Some('t') => {
                    out.push('\t');
                    it.next();
                }
                _ => out.push('\\'),
            },
            c => out.push(c),
        }
    }
    None
}

fn string_node(ast: &[Stmt]) -> Option<&String> {
    match ast {
        [Stmt::Expr(Expr::String { value })] => Some(value),
        _ => None,
    }
}

fn all_strings(alpha: &[&str], max: usize, f: &mut dyn FnMut(&str) -> bool) {
    fn go(alpha: &[&str], left: usize, cur: &mut String, f: &mut dyn FnMut(&str) -> bool) -> bool {
        if !f(cur) {
            return false;
        }
        if left == 0 {
            return true;
        }
        for a in alpha {
            let mark = cur.len();
            cur.push_str(a);
            let ok = go(alpha, left - 1, cur, f);
            cur.truncate(mark);
            if !ok {
                return false;
            }
        }
        true
    }
    go(alpha, max, &mut String::new(), f);
}

/// Token-length ladder: one token of every length around each power of two (identifier, keyword-prefixed
/// identifier, digits, fraction digits, string literal, comment, white-space run), with one special
/// character (escape, wide character) at every position near a multiple of 8 and at both ends (every
/// position for short tokens). The tree must be exactly the one token.
fn length_ladder(sh: &mut Shard) {
    let tier = sh.cfg.tier;
    let kmax = if tier == Tier::Quick { 10 } else { 13 };
    let mut lens: Vec<usize> = vec![1, 2, 3, 5, 6, 10, 18, 19, 20, 21, 100];
    for k in 2..=kmax {
        let n = 1usize << k;
        lens.extend([n - 1, n, n + 1]);
    }
    lens.sort();
    lens.dedup();
    let mut one = |sh: &mut Shard, text: String, want: Result<Vec<Stmt>, ()>, what: &str| {
        if !sh.mine() {
            return;
        }
        let t = text.clone();
        sh.begin(&|| if t.len() > 200 { format!("{} … ({} bytes)", t.chars().take(80).collect::<String>(), t.len()) } else { t.clone() });
        sh.count("family:length-ladder");
        sh.nontrivial(&text);
        match (parse_guarded(&text), &want) {
            (Parsed::Ok(ast), Ok(w)) if &ast == w => {}
            (Parsed::Ok(ast), Ok(_)) => {
                let shown: String = format!("{ast:?}").chars().take(300).collect();
                fail(sh, "length-ladder", &text, format!("{what}: the parser returned {shown}"))
            }
            (Parsed::Ok(ast), Err(())) => {
                let shown: String = format!("{ast:?}").chars().take(300).collect();
                fail(sh, "length-ladder", &text, format!("{what}: must be refused, was accepted as {shown}"))
            }
            (Parsed::Err(_), Err(())) => {}
            (Parsed::Err(e), Ok(_)) => fail(sh, "length-ladder", &text, format!("{what}: rejected: {e}")),
            (Parsed::Panic(p), _) => fail(sh, "length-ladder", &text, format!("{what}: panic: {p}")),
        }
    };
    for len in lens {
        let positions: Vec<usize> = (0..len).filter(|p| len <= 70 || *p < 2 || *p + 2 >= len || p % 8 <= 1 || p % 8 == 7).collect();
        // identifiers
        let name: String = std::iter::once('x').chain((1..len).map(|i| (b'a' + (i % 26) as u8) as char)).collect();
        one(sh, name.clone(), Ok(vec![Stmt::Expr(Expr::Identifier(name.clone()))]), "identifier");
        one(sh, format!("als{name}"), Ok(vec![Stmt::Expr(Expr::Identifier(format!("als{name}")))]), "identifier that starts with a keyword");
        one(sh, format!("{name}_9"), Ok(vec![Stmt::Expr(Expr::Identifier(format!("{name}_9")))]), "identifier with underscore and digit");
        for p in &positions {
            if *p == 0 {
                continue;
            }
            let n2: String = name.chars().enumerate().map(|(i, c)| if i == *p { 'é' } else { c }).collect();
            one(sh, n2.clone(), Ok(vec![Stmt::Expr(Expr::Identifier(n2.clone()))]), "identifier with an accented letter");
        }
        // digits: up to 18 digits denote themselves, more than 19 cannot be an integer
        let digits: String = (0..len).map(|i| (b'1' + (i % 9) as u8) as char).collect();
        if len <= 18 {
            one(sh, digits.clone(), Ok(vec![Stmt::Expr(Expr::Int { value: digits.parse().unwrap() })]), "integer literal");
        } else if len >= 20 {
            one(sh, digits.clone(), Err(()), "integer literal beyond the range");
        }
        if len <= 300 {
            let f = format!("1.{digits}");
            one(sh, f.clone(), Ok(vec![Stmt::Expr(Expr::Float { value: f.parse().unwrap() })]), "float literal, long fraction");
            let f = format!("{digits}.5");
            one(sh, f.clone(), Ok(vec![Stmt::Expr(Expr::Float { value: f.parse().unwrap() })]), "float literal, long integer part");
        }
        // string literals: plain, and with one special character at position p
        let plain: String = (0..len).map(|i| (b'a' + (i % 26) as u8) as char).collect();
        one(sh, escape_string(&plain), Ok(vec![Stmt::Expr(Expr::String { value: plain.clone() })]), "string literal");
        for p in &positions {
            for special in ['"', '\\', '\n', '\t', 'é', '😀'] {
                let content: String = plain.chars().enumerate().map(|(i, c)| if i == *p { special } else { c }).collect();
                one(sh, escape_string(&content), Ok(vec![Stmt::Expr(Expr::String { value: content.clone() })]), "string literal with one special character");
            }
        }
        // TWO special characters, adjacent or one apart, at every position (short and word-aligned lengths)
        if len <= 40 || len % 8 <= 1 || len % 8 == 7 {
            if len <= 130 {
                for p in 0..len.saturating_sub(1) {
                    for gap in [1usize, 2] {
                        if p + gap >= len {
                            continue;
                        }
                        for (s1, s2) in [('\\', '"'), ('"', '\\'), ('\\', '\\'), ('"', '"'), ('\\', 'é'), ('é', '\\'), ('\\', 'n'), ('\n', '"')] {
                            let content: String = plain.chars().enumerate().map(|(i, c)| if i == p { s1 } else if i == p + gap { s2 } else { c }).collect();
                            one(sh, escape_string(&content), Ok(vec![Stmt::Expr(Expr::String { value: content.clone() })]), "string literal with two special characters");
                        }
                    }
                }
            }
        }
        // comments and white space of that length around a token
        for wide_at in [None, Some(len / 2), Some(len.saturating_sub(1))] {
            let c: String = plain.chars().enumerate().map(|(i, ch)| if Some(i) == wide_at { '€' } else { ch }).collect();
            one(sh, format!("// {c}\n7"), Ok(vec![Stmt::Expr(Expr::Int { value: 7 })]), "comment before a token");
            one(sh, format!("7 // {c}"), Ok(vec![Stmt::Expr(Expr::Int { value: 7 })]), "comment at the end of the input");
        }
        let ws: String = (0..len).map(|i| [' ', '\t', '\n', '\r'][i % 4]).collect();
        one(sh, format!("{ws}7{ws}"), Ok(vec![Stmt::Expr(Expr::Int { value: 7 })]), "white space around a token");
    }
}

/// Every printable ASCII character, the three ASCII line / tab controls, and representatives of the Unicode
/// classes the lexer distinguishes (letters of several scripts and byte widths, digits, white space, a
/// combining mark, a format character, symbols).
pub fn full_alphabet() -> Vec<char> {
    let mut v: Vec<char> = (0x20u8..=0x7e).map(|b| b as char).collect();
    v.extend(['\t', '\n', '\r']);
    v.extend(['é', 'ß', 'Ω', 'ж', '中', 'ﬁ', '😀', '€', '٣', '²', '\u{00a0}', '\u{2028}', '\u{3000}', '\u{feff}', '\u{0301}', '\u{200b}', '×', '¬']);
    // the rest of the documented white space (Pattern_White_Space)
    v.extend(['\u{000b}', '\u{000c}', '\u{0085}', '\u{200e}', '\u{200f}', '\u{2029}']);
    v
}

/// A few thousand code points: every one in the first three blocks and in the blocks where punctuation, symbols,
/// variation selectors, presentation forms, emoji, tags and the last plane live (so that every low byte, every
/// UTF-8 length and every special-purpose character class occurs), surrogates excluded by construction.
pub fn code_points() -> Vec<char> {
    let mut v: Vec<char> = Vec::new();
    for (a, b) in [(0x00u32, 0x2FF), (0x2000, 0x22FF), (0x2600, 0x27FF), (0x3000, 0x30FF), (0xD700, 0xD7FF), (0xE000, 0xE0FF), (0xFE00, 0xFFFF), (0x1F300, 0x1F6FF), (0x1F900, 0x1F9FF), (0x2F800, 0x2F8FF), (0xE0000, 0xE01FF), (0x10FF00, 0x10FFFF)] {
        for cp in a..=b {
            if let Some(c) = char::from_u32(cp) {
                v.push(c);
            }
        }
    }
    v
}

/// Code point sweep in the lexer: each code point inside a string literal, inside a comment, and (when it is a
/// letter or digit) inside an identifier.
fn code_point_sweep(sh: &mut Shard) {
    for c in code_points() {
        if !sh.mine() {
            continue;
        }
        let texts: Vec<(String, Option<Vec<Stmt>>)> = vec![
            (
                if c == '"' || c == '\\' { format!("\"a\\{c}b\" ; 7") } else { format!("\"a{c}b\" ; 7") },
                Some(vec![Stmt::Expr(Expr::String { value: format!("a{c}b") }), Stmt::Expr(Expr::Int { value: 7 })]),
            ),
            (if c == '\n' { "// a\n7".to_string() } else { format!("// a{c}b\n7") }, Some(vec![Stmt::Expr(Expr::Int { value: 7 })])),
            (format!("x{c}y"), if c.is_alphanumeric() || c == '_' { Some(vec![Stmt::Expr(Expr::Identifier(format!("x{c}y")))]) } else { None }),
        ];
        let mut texts = texts;
        // directly behind a backslash inside a literal (start, middle, end, behind an escaped backslash): only
        // the four documented escapes exist, whatever the low byte or the class of the code point
        for raw in [format!("a\\{c}b\""), format!("\\{c}\""), format!("a\\{c}\""), format!("\\\\\\{c}z\""), format!("\\{c}\\{c}\"")] {
            if let Some((decoded, used)) = reference_string(&raw) {
                if used == raw.len() {
                    texts.push((format!("\"{raw} ; 7"), Some(vec![Stmt::Expr(Expr::String { value: decoded }), Stmt::Expr(Expr::Int { value: 7 })])));
                }
            }
        }
        sh.begin(&|| format!("code point U+{:04X}", c as u32));
        sh.count("family:code-points");
        sh.nontrivial(&(c as u32));
        // between tokens: one of the 11 white-space code points separates, a word character joins, an operator
        // character is an operator, and ANYTHING else (control characters, other spaces, symbols, marks) is refused
        let white = "\t\n\u{b}\u{c}\r \u{85}\u{200e}\u{200f}\u{2028}\u{2029}".contains(c);
        let operator_char = "+-*/%=!<>&|()[]{},;.\"^".contains(c);
        if white {
            let two = vec![Stmt::Expr(Expr::Identifier("x".into())), Stmt::Expr(Expr::Identifier("y".into()))];
            match parse_guarded(&format!("x{c}y")) {
                Parsed::Ok(ast) if ast == two => {}
                other => fail(sh, "code-points", &format!("x{c}y"), format!("U+{:04X} is white space: expected two words, got {}", c as u32, match other { Parsed::Ok(a) => format!("{a:?}"), Parsed::Err(e) => format!("refusal {e}"), Parsed::Panic(p) => format!("panic {p}") })),
            }
        } else if !(c.is_alphanumeric() || c == '_') && !operator_char {
            for text in [format!("x{c}y"), format!("{c} 7"), format!("7 {c}"), format!("1{c}2"), format!("{c}"), format!("a = {c}1"), format!("f({c})")] {
                match parse_guarded(&text) {
                    Parsed::Err(_) => {}
                    Parsed::Ok(ast) => fail(sh, "code-points", &text, format!("U+{:04X} is not a character of the language outside literals and comments: must be refused, was accepted as {ast:?}", c as u32)),
                    Parsed::Panic(p) => fail(sh, "code-points", &text, format!("panic: {p}")),
                }
            }
        }
        for (text, want) in texts {
            match (parse_guarded(&text), want) {
                (Parsed::Panic(p), _) => fail(sh, "code-points", &text, format!("panic: {p}")),
                (Parsed::Ok(ast), Some(w)) if ast != w => fail(sh, "code-points", &text, format!("U+{:04X}: the parser returned {ast:?}", c as u32)),
                (Parsed::Err(e), Some(_)) => fail(sh, "code-points", &text, format!("U+{:04X}: rejected: {e}", c as u32)),
                _ => {}
            }
        }
    }
}

/// Character sweep: EVERY character of the full alphabet (and every ordered pair of them) in each lexical
/// context: inside / at the start / at the end of a word, raw and after a backslash inside a string literal,
/// inside and at the end of a comment, and between two tokens. Expectations come from the character's
/// class (word character, white space, string delimiter / escape, known operator, anything else = illegal).
fn char_sweep(sh: &mut Shard) {
    let alpha = full_alphabet();
    let ident = |s: String| vec![Stmt::Expr(Expr::Identifier(s))];
    let mut one = |sh: &mut Shard, text: String, want: Result<Vec<Stmt>, ()>, what: &str| {
        if !sh.mine() {
            return;
        }
        let t = text.clone();
        sh.begin(&|| t.clone());
        sh.count("family:char-sweep");
        sh.nontrivial(&text);
        match (parse_guarded(&text), &want) {
            (Parsed::Ok(ast), Ok(w)) if &ast == w => {}
            (Parsed::Ok(ast), Ok(_)) => fail(sh, "char-sweep", &text, format!("{what}: the parser returned {ast:?}")),
            (Parsed::Ok(ast), Err(())) => fail(sh, "char-sweep", &text, format!("{what}: must be refused, was accepted as {ast:?}")),
            (Parsed::Err(_), Err(())) => {}
            (Parsed::Err(e), Ok(_)) => fail(sh, "char-sweep", &text, format!("{what}: rejected: {e}")),
            (Parsed::Panic(p), _) => fail(sh, "char-sweep", &text, format!("{what}: panic: {p}")),
        }
    };
    let word = |c: char| c.is_alphanumeric() || c == '_';
    let operator_char = |c: char| "+-*/%=!<>&|()[]{},;.\"".contains(c);
    for &c in &alpha {
        // words
        if word(c) {
            one(sh, format!("x{c}y"), Ok(ident(format!("x{c}y"))), "word character inside an identifier");
            one(sh, format!("x{c}"), Ok(ident(format!("x{c}"))), "word character at the end of an identifier");
            one(sh, format!("stel{c}"), Ok(ident(format!("stel{c}"))), "word character after a keyword spelling");
            if c.is_alphabetic() || c == '_' {
                one(sh, format!("{c}x"), Ok(ident(format!("{c}x"))), "letter at the start of an identifier");
                one(sh, format!("{c}"), Ok(ident(format!("{c}"))), "one-letter identifier");
            }
        } else if "\t\n\u{b}\u{c}\r \u{85}\u{200e}\u{200f}\u{2028}\u{2029}".contains(c) {
            // the documented white space is Pattern_White_Space: these 11 code points and no others
            one(sh, format!("x{c}y"), Ok(vec![Stmt::Expr(Expr::Identifier("x".into())), Stmt::Expr(Expr::Identifier("y".into()))]), "white space between two identifiers");
            one(sh, format!("{c}x{c}"), Ok(ident("x".into())), "white space around an identifier");
        } else if !operator_char(c) {
            one(sh, format!("x{c}y"), Err(()), "illegal character between two identifiers");
            one(sh, format!("x {c}"), Err(()), "illegal character at the end");
            one(sh, format!("{c} x"), Err(()), "illegal character at the start");
            one(sh, format!("1{c}2"), Err(()), "illegal character between two numbers");
        }
        // string literals: raw, and after a backslash
        if c != '"' && c != '\\' {
            one(sh, format!("\"a{c}b\""), Ok(vec![Stmt::Expr(Expr::String { value: format!("a{c}b") })]), "character inside a string literal");
            one(sh, format!("\"{c}\""), Ok(vec![Stmt::Expr(Expr::String { value: format!("{c}") })]), "one-character string literal");
        }
        for tail in ["", "b", "\\\\", "é"] {
            let raw = format!("a\\{c}{tail}\"");
            if let Some((decoded, used)) = reference_string(&raw) {
                if used == raw.len() {
                    one(sh, format!("\"{raw}"), Ok(vec![Stmt::Expr(Expr::String { value: decoded })]), "backslash + character inside a string literal");
                }
            }
        }
        // comments
        if c != '\n' {
            let seven = vec![Stmt::Expr(Expr::Int { value: 7 })];
            one(sh, format!("// a{c}b\n7"), Ok(seven.clone()), "character inside a comment");
            one(sh, format!("// a{c}\n7"), Ok(seven.clone()), "character at the end of a comment");
            one(sh, format!("//{c}\n7"), Ok(seven.clone()), "character directly after the comment marker");
            one(sh, format!("7 // a{c}"), Ok(seven.clone()), "character at the end of a comment at the end of the input");
            one(sh, format!("7 //{c}\n// b{c}\n"), Ok(seven.clone()), "two comments");
        }
    }
    // ordered pairs: in a string literal (raw and after a backslash) and in a comment
    for &c1 in &alpha {
        for &c2 in &alpha {
            let raw = format!("{c1}{c2}\"");
            if let Some((decoded, used)) = reference_string(&raw) {
                if used == raw.len() {
                    one(sh, format!("\"{raw}"), Ok(vec![Stmt::Expr(Expr::String { value: decoded })]), "pair of characters in a string literal");
                }
            }
            let raw = format!("\\{c1}{c2}\"");
            if let Some((decoded, used)) = reference_string(&raw) {
                if used == raw.len() {
                    one(sh, format!("\"{raw}"), Ok(vec![Stmt::Expr(Expr::String { value: decoded })]), "backslash + pair of characters in a string literal");
                }
            }
            if c1 != '\n' && c2 != '\n' {
                one(sh, format!("//{c1}{c2}\n7"), Ok(vec![Stmt::Expr(Expr::Int { value: 7 })]), "pair of characters in a comment");
            }
            if word(c1) && word(c2) {
                one(sh, format!("x{c1}{c2}"), Ok(ident(format!("x{c1}{c2}"))), "pair of word characters in an identifier");
            }
        }
    }
}

/// Runs of k backslashes (content) followed by a quote (content) or by the closing quote, starting at every
/// offset 0..40 of the literal: written with the documented escapes the literal has 2k backslashes in a row;
/// also the raw forms (k backslashes then the quote) against the reference decoder.
fn backslash_runs(sh: &mut Shard) {
    for offset in 0..=40usize {
        for k in 1..=6usize {
            for tail in ["", "\"", "x", "\"x\"", "é"] {
                if !sh.mine() {
                    continue;
                }
                let content = format!("{}{}{}", "a".repeat(offset), "\\".repeat(k), tail);
                let text = escape_string(&content);
                let t = text.clone();
                sh.begin(&|| t.clone());
                sh.count("family:backslash-runs");
                sh.nontrivial(&text);
                match parse_guarded(&text) {
                    Parsed::Ok(ast) if string_node(&ast) == Some(&content) && ast.len() == 1 => {}
                    Parsed::Ok(ast) => fail(sh, "backslash-runs", &text, format!("the literal denotes {:?} (statements: {}), written content {content:?}", string_node(&ast), ast.len())),
                    Parsed::Err(e) => fail(sh, "backslash-runs", &text, format!("rejected: {e}")),
                    Parsed::Panic(p) => fail(sh, "backslash-runs", &text, format!("panic: {p}")),
                }
                // raw: k backslashes directly before a quote, followed by more text and a closing quote
                let raw = format!("{}{}\"b\" 7", "a".repeat(offset), "\\".repeat(k));
                let text = format!("\"{raw}");
                if let Some((decoded, used)) = reference_string(&raw) {
                    // the literal must end where the reference decoder says, and denote what it says
                    match (toks(&text), parse_guarded(&text)) {
                        (Ok(got), Parsed::Ok(ast)) => {
                            let span_ok = got.first().map(|g| g.1 == 0 && g.2 == used + 1).unwrap_or(false);
                            let lit = match ast.first() {
                                Some(Stmt::Expr(Expr::String { value })) => Some(value.clone()),
                                _ => None,
                            };
                            if !span_ok || lit.as_ref() != Some(&decoded) {
                                fail(sh, "backslash-runs", &text, format!("first token {:?}, literal {lit:?}; the reference decoder ends the literal after {} bytes with content {decoded:?}", got.first(), used + 1));
                            }
                        }
                        (Err(p), _) => fail(sh, "backslash-runs", &text, format!("lexer panicked: {p}")),
                        (_, Parsed::Panic(p)) => fail(sh, "backslash-runs", &text, format!("panic: {p}")),
                        (Ok(got), Parsed::Err(e)) => {
                            // the rest of the text may not be a program; the literal's own span must still be right
                            let span_ok = got.first().map(|g| g.1 == 0 && g.2 == used + 1).unwrap_or(false);
                            if !span_ok {
                                fail(sh, "backslash-runs", &text, format!("first token {:?} ({e}); the reference decoder ends the literal after {} bytes", got.first(), used + 1));
                            }
                        }
                    }
                }
            }
        }
    }
}

/// Escape sequences of OTHER languages: a backslash followed by every ASCII letter or digit and by the
/// continuations such sequences take elsewhere (hex digits, braces, octal). Only the four documented escapes
/// exist; everything else is a backslash followed by ordinary characters.
pub fn foreign_escape_bodies() -> Vec<String> {
    let mut v = Vec::new();
    let conts = [
        "", "0", "00", "41", "041", "0041", "00e9", "00E9", "D83C", "d83c", "D800", "DFFF", "dfff", "FFFF", "0000", "D83C\\uDFC6", "{41}", "{1F600}", "{D800}", "{110000}", "{", "101", "377", "400", "x", "U0001F600",
    ];
    for c in ('a'..='z').chain('A'..='Z').chain('0'..='9') {
        for k in conts {
            v.push(format!("\\{c}{k}"));
            v.push(format!("a\\{c}{k}b"));
        }
    }
    v
}

fn foreign_escapes(sh: &mut Shard) {
    for body in foreign_escape_bodies() {
        if !sh.mine() {
            continue;
        }
        let raw = format!("{body}\"");
        let text = format!("\"{raw}");
        let t = text.clone();
        sh.begin(&|| t.clone());
        sh.count("family:foreign-escapes");
        sh.nontrivial(&text);
        let Some((decoded, used)) = reference_string(&raw) else { continue };
        if used != raw.len() {
            continue;
        }
        match parse_guarded(&text) {
            Parsed::Ok(ast) if string_node(&ast) == Some(&decoded) => {}
            Parsed::Ok(ast) => fail(sh, "foreign-escapes", &text, format!("the literal denotes {:?}, the documented escapes give {decoded:?}", string_node(&ast))),
            Parsed::Err(e) => fail(sh, "foreign-escapes", &text, format!("rejected: {e}")),
            Parsed::Panic(p) => fail(sh, "foreign-escapes", &text, format!("panic: {p}")),
        }
    }
}

/// Two literals next to each other (the comma between array elements and arguments is optional): every ordered
/// pair of 24 string contents (with and without each escape, empty, wide) and of strings with numbers and names,
/// separated by nothing but white space, a comma, or a comment. What one literal needed must not leak into the next.
fn adjacent_literals(sh: &mut Shard) {
    let contents = [
        "", "a", "twee", "een\n", "\ttab", "q\"q", "b\\", "\\", "\"", "é", "😀x", "a\\n", "{}", " ", "x y", "\n\n", "a\"b\\c", "\\\"", "lang genoeg om niet klein te zijn", "n", "\\n", "t\t", "//geen commentaar", "\"\"",
    ];
    for c1 in contents {
        for c2 in contents {
            // (separators: white space, a comma, and comments with every kind of ending — a backslash, two, a
            // quote, an escaped quote, an opened string, a wide character, a carriage return, nothing at all)
            for sep in [" ", " , ", "\n", " // c\n", " //\n", " // c\\\n", " // c\\\\\n", " // \"\n", " // \\\"\n", " // \"open\n", " // é\n", " // c\r\n", " // c\\\r\n", " //\\\n//\\\n"] {
                if !sh.mine() {
                    continue;
                }
                let text = format!("[ {}{sep}{} ]", escape_string(c1), escape_string(c2));
                let t = text.clone();
                sh.begin(&|| t.clone());
                sh.count("family:adjacent-literals");
                sh.nontrivial(&text);
                let want = vec![Stmt::Expr(Expr::Array { values: vec![Expr::String { value: c1.to_string() }, Expr::String { value: c2.to_string() }] })];
                match parse_guarded(&text) {
                    Parsed::Ok(ast) if ast == want => {}
                    Parsed::Ok(ast) => fail(sh, "adjacent-literals", &text, format!("the parser returned {ast:?}")),
                    Parsed::Err(e) => fail(sh, "adjacent-literals", &text, format!("rejected: {e}")),
                    Parsed::Panic(p) => fail(sh, "adjacent-literals", &text, format!("panic: {p}")),
                }
            }
        }
        // a string next to a number, a float, a name, a keyword literal, another array
        for (other_text, other) in [
            ("7", Expr::Int { value: 7 }),
            ("1.5", Expr::Float { value: 1.5 }),
            ("naam", Expr::Identifier("naam".into())),
            ("ja", Expr::Bool { value: true }),
            ("[ ]", Expr::Array { values: vec![] }),
        ] {
            for (a, b, wa, wb) in [
                (escape_string(c1), other_text.to_string(), Expr::String { value: c1.to_string() }, other.clone()),
                (other_text.to_string(), escape_string(c1), other.clone(), Expr::String { value: c1.to_string() }),
            ] {
                if !sh.mine() {
                    continue;
                }
                let text = format!("f ( {a} {b} )");
                let t = text.clone();
                sh.begin(&|| t.clone());
                sh.count("family:adjacent-literals");
                let want = vec![Stmt::Expr(Expr::Call { left: Box::new(Expr::Identifier("f".into())), arguments: vec![wa, wb] })];
                match parse_guarded(&text) {
                    Parsed::Ok(ast) if ast == want => {}
                    // `naam [ ]` and `"s" [ ]` are index expressions, `[ ] "s"`... only flag what must be two arguments
                    Parsed::Ok(ast) => {
                        if !(b == "[ ]") {
                            fail(sh, "adjacent-literals", &text, format!("the parser returned {ast:?}"))
                        }
                    }
                    Parsed::Err(e) => {
                        if !(b == "[ ]") {
                            fail(sh, "adjacent-literals", &text, format!("rejected: {e}"))
                        }
                    }
                    Parsed::Panic(p) => fail(sh, "adjacent-literals", &text, format!("panic: {p}")),
                }
            }
        }
    }
}

/// Literal forms of OTHER languages: a one-, two- or three-letter word directly in front of a string literal
/// (`r"x"`, `b"x"`, `f"x"`, `u8"x"`, `rb"x"` ...: every ASCII letter, `_`, and the usual prefixes) is a name
/// followed by a string, exactly as with a blank in between; a digit run continued by letters (`0x10`, `1e5`,
/// `1_000`, `0b1`) is a number followed by a name.
fn foreign_literal_forms(sh: &mut Shard) {
    let mut words: Vec<String> = ('a'..='z').chain('A'..='Z').map(|c| c.to_string()).collect();
    for w in ["_", "rb", "br", "Rb", "bR", "u8", "fr", "rf", "ur", "LR", "uR", "U8", "r_", "_r", "rr", "R8", "b8", "c8", "f8", "r0", "é", "rrr", "raw", "x1"] {
        words.push(w.to_string());
    }
    let bodies: [(&str, &str); 6] = [("x", "x"), ("", ""), ("a\\tb", "a\tb"), ("a\\\\", "a\\"), ("\\\"", "\""), ("é", "é")];
    for w in &words {
        for (raw, decoded) in bodies {
            for (open, close) in [("[ ", " ]"), ("", ""), ("f ( ", " )"), ("stel v = 1 ", "")] {
                if !sh.mine() {
                    continue;
                }
                let glued = format!("{open}{w}\"{raw}\"{close}");
                let spaced = format!("{open}{w} \"{raw}\"{close}");
                let g = glued.clone();
                sh.begin(&|| g.clone());
                sh.count("family:foreign-literal-forms");
                sh.nontrivial(&glued);
                match (parse_guarded(&glued), parse_guarded(&spaced)) {
                    (Parsed::Panic(p), _) | (_, Parsed::Panic(p)) => fail(sh, "foreign-literal-forms", &glued, format!("panic: {p}")),
                    (Parsed::Ok(a), Parsed::Ok(b)) => {
                        let has = format!("{a:?}").contains(&format!("String {{ value: {decoded:?} }}")) && format!("{a:?}").contains(&format!("Identifier({w:?})"));
                        if a != b || !has {
                            fail(sh, "foreign-literal-forms", &glued, format!("a word directly in front of a string literal is a name and a string: got {a:?}, with a blank in between {b:?}"));
                        }
                    }
                    (a, b) => fail(sh, "foreign-literal-forms", &glued, format!("glued and spaced forms are not both accepted: {} / {}", matches!(a, Parsed::Ok(_)), matches!(b, Parsed::Ok(_)))),
                }
            }
        }
    }
    for (glued, spaced) in [("0x10", "0 x10"), ("1e5", "1 e5"), ("1_000", "1 _000"), ("0b1", "0 b1"), ("0o7", "0 o7"), ("1.5e3", "1.5 e3"), ("1.5f", "1.5 f"), ("10L", "10 L"), ("1u8", "1 u8"), ("7n", "7 n"), ("1E5", "1 E5"), ("0X1F", "0 X1F"), ("1.5e", "1.5 e"), ("12px", "12 px")] {
        for (open, close) in [("[ ", " ]"), ("", ""), ("f ( ", " )")] {
            if !sh.mine() {
                continue;
            }
            let g = format!("{open}{glued}{close}");
            let sp = format!("{open}{spaced}{close}");
            let gg = g.clone();
            sh.begin(&|| gg.clone());
            sh.count("family:foreign-literal-forms");
            sh.nontrivial(&g);
            match (parse_guarded(&g), parse_guarded(&sp)) {
                (Parsed::Panic(p), _) | (_, Parsed::Panic(p)) => fail(sh, "foreign-literal-forms", &g, format!("panic: {p}")),
                (Parsed::Ok(a), Parsed::Ok(b)) if a == b => {}
                (Parsed::Ok(a), Parsed::Ok(b)) => fail(sh, "foreign-literal-forms", &g, format!("a digit run continued by letters is a number and a name: got {a:?}, with a blank in between {b:?}")),
                (a, b) => fail(sh, "foreign-literal-forms", &g, format!("glued and spaced forms are not both accepted: {} / {}", matches!(a, Parsed::Ok(_)), matches!(b, Parsed::Ok(_)))),
            }
        }
    }
}

fn run(sh: &mut Shard) {
    let tier = sh.cfg.tier;
    length_ladder(sh);
    foreign_literal_forms(sh);
    code_point_sweep(sh);
    adjacent_literals(sh);
    foreign_escapes(sh);
    backslash_runs(sh);
    char_sweep(sh);
    let vocab = vocabulary();
    // anchors
    let mut singles: std::collections::HashMap<&str, String> = std::collections::HashMap::new();
    for v in &vocab {
        if let Some(d) = check_single(sh, v) {
            singles.insert(v, d);
        }
    }
    if singles.len() == vocab.len() && sh.shard == 0 {
        // all fixed tokens have pairwise distinct kinds; keywords are not identifiers; lexemes are kept
        let ident_kind = kind_of(&singles["a"]).to_string();
        let mut seen = std::collections::HashMap::new();
        for v in KEYWORDS.iter().chain(OPERATORS.iter()) {
            let d = &singles[v];
            if kind_of(d) == ident_kind {
                fail(sh, "anchors", v, format!("{v} is tokenised as an identifier ({d})"));
            }
            if let Some(other) = seen.insert(d.clone(), *v) {
                fail(sh, "anchors", v, format!("{v} and {other} are the same token ({d})"));
            }
        }
        for v in IDENTS {
            let d = &singles[v];
            if kind_of(d) != ident_kind || !d.contains(&format!("{v:?}")) {
                fail(sh, "anchors", v, format!("identifier {v} is tokenised as {d}"));
            }
        }
        let (int_kind, float_kind) = (kind_of(&singles["1"]).to_string(), kind_of(&singles["1.5"]).to_string());
        for v in NUMBERS {
            let d = &singles[v];
            let want = if v.contains('.') { &float_kind } else { &int_kind };
            if kind_of(d) != want || !d.contains(&format!("{v:?}")) {
                fail(sh, "anchors", v, format!("number {v} is tokenised as {d}"));
            }
        }
        if int_kind == float_kind || int_kind == ident_kind {
            fail(sh, "anchors", "1", "integer, float and identifier tokens are not distinguished".into());
        }
        for v in STRINGS {
            let d = &singles[v];
            let inner = &v[1..v.len() - 1];
            if !d.contains(&format!("{inner:?}")) {
                fail(sh, "anchors", v, format!("string {v} is tokenised as {d}"));
            }
        }
    }
    // (1) sequences with every separator choice
    let seps_all = ["", " ", "\n", " // c\n", " //é€😀\n", "\u{2028}", "\u{85}\u{200E}"];
    let maxlen = 3;
    let core: Vec<&str> = if tier == Tier::Quick { vec![] } else { vec!["als", "a", "alsof", "1", "1.5", "\"s\"", "=", "==", "<", "<=", "!", "!=", "/", "-", "(", ")", ".", "&&", ";", "ja"] };
    let mut plans: Vec<(Vec<&str>, usize)> = vec![(vocab.clone(), maxlen)];
    if tier == Tier::Thorough {
        plans.push((core, 4));
    }
    for (alpha, maxlen) in plans {
        for len in 2..=maxlen {
            let mut idx = vec![0usize; len];
            'outer: loop {
                let pieces: Vec<&str> = idx.iter().map(|i| alpha[*i]).collect();
                // separator choices per gap
                let choices: Vec<Vec<&str>> = (0..len - 1)
                    .map(|g| seps_all.iter().cloned().filter(|s| !s.is_empty() || may_touch(pieces[g], pieces[g + 1])).collect())
                    .collect();
                let total: usize = choices.iter().map(|c| c.len()).product();
                for code in 0..total {
                    let mut c = code;
                    let seps: Vec<&str> = choices
                        .iter()
                        .map(|ch| {
                            let s = ch[c % ch.len()];
                            c /= ch.len();
                            s
                        })
                        .collect();
                    seq_case(sh, &pieces, &seps, &singles);
                }
                if !sh.running() {
                    return;
                }
                let mut k = len;
                loop {
                    if k == 0 {
                        break 'outer;
                    }
                    k -= 1;
                    idx[k] += 1;
                    if idx[k] < alpha.len() {
                        break;
                    }
                    idx[k] = 0;
                }
            }
        }
    }
    // (2) identifiers and numbers against the reference lexer
    let (ident_kind, int_kind, float_kind, dot_kind) = match (singles.get("a"), singles.get("1"), singles.get("1.5"), singles.get(".")) {
        (Some(a), Some(b), Some(c), Some(d)) => (kind_of(a).to_string(), kind_of(b).to_string(), kind_of(c).to_string(), kind_of(d).to_string()),
        _ => return,
    };
    let n2 = if tier == Tier::Quick { 3 } else { 5 };
    all_strings(&["a", "é", "_", "1", "0", "."], n2, &mut |s| {
        if s.is_empty() || !sh.mine() {
            return sh.running();
        }
        let t = s.to_string();
        sh.begin(&|| t.clone());
        sh.count("family:words");
        let want = reference_lex(s);
        if want.len() > 1 {
            sh.nontrivial(s);
        }
        match toks(s) {
            Err(p) => fail(sh, "words", s, format!("lexer panicked: {p}")),
            Ok(got) => {
                let ok = got.len() == want.len()
                    && got.iter().zip(&want).all(|(g, w)| {
                        let k = kind_of(&g.0);
                        let class_ok = match w.0 {
                            "ident" => k == ident_kind,
                            "int" => k == int_kind,
                            "float" => k == float_kind,
                            _ => k == dot_kind,
                        };
                        class_ok && (w.0 == "dot" || g.0.contains(&format!("{:?}", w.1))) && s[g.1..g.2] == w.1
                    });
                if !ok {
                    fail(sh, "words", s, format!("token stream {got:?}, reference {want:?}"));
                }
            }
        }
        sh.running()
    });
    // (3a) string contents through the documented escapes
    let n3 = if tier == Tier::Quick { 4 } else { 5 };
    all_strings(&["a", "\"", "\\", "\n", "\t", "é", "{", " "], n3, &mut |content| {
        if !sh.mine() {
            return sh.running();
        }
        let text = escape_string(content);
        let t = text.clone();
        sh.begin(&|| t.clone());
        sh.count("family:string-contents");
        if text.contains('\\') {
            sh.nontrivial(&text);
        }
        match parse_guarded(&text) {
            Parsed::Ok(ast) => match string_node(&ast) {
                Some(v) if v == content => {}
                other => fail(sh, "string-contents", &text, format!("the literal denotes {other:?}, written content {content:?}")),
            },
            Parsed::Err(e) => fail(sh, "string-contents", &text, format!("rejected: {e}")),
            Parsed::Panic(p) => fail(sh, "string-contents", &text, format!("panic: {p}")),
        }
        // and inside a program, the value survives to run time
        sh.running()
    });
    // (3b) raw bodies followed by more input
    all_strings(&["a", "\"", "\\", "n"], n3, &mut |body| {
        for cont in ["", " 7", "\" 7", "a\""] {
            if !sh.mine() {
                continue;
            }
            let text = format!("\"{body}\"{cont}");
            let t = text.clone();
            sh.begin(&|| t.clone());
            sh.count("family:raw-bodies");
            sh.nontrivial(&text);
            let got = match toks(&text) {
                Ok(g) => g,
                Err(p) => {
                    fail(sh, "raw-bodies", &text, format!("lexer panicked: {p}"));
                    continue;
                }
            };
            match reference_string(&text[1..]) {
                None => {
                    // unterminated: must be rejected as a whole
                    match parse_guarded(&text) {
                        Parsed::Err(_) => {}
                        Parsed::Ok(ast) => fail(sh, "raw-bodies", &text, format!("an unterminated string literal was accepted as {ast:?}")),
                        Parsed::Panic(p) => fail(sh, "raw-bodies", &text, format!("panic: {p}")),
                    }
                }
                Some((decoded, used)) => {
                    let end = 1 + used;
                    // first token = the literal, spanning exactly up to the first unescaped quote
                    if got.is_empty() || got[0].1 != 0 || got[0].2 != end {
                        fail(sh, "raw-bodies", &text, format!("the literal should end at byte {end}; tokens {got:?}"));
                        continue;
                    }
                    // the rest is tokenised as if it stood alone
                    let rest = &text[end..];
                    let rest_toks = toks(rest).unwrap_or_default();
                    let a: Vec<&String> = got[1..].iter().map(|x| &x.0).collect();
                    let b: Vec<&String> = rest_toks.iter().map(|x| &x.0).collect();
                    if a != b {
                        fail(sh, "raw-bodies", &text, format!("after the literal: {a:?}, the remainder alone gives {b:?}"));
                        continue;
                    }
                    // decoding
                    match parse_guarded(&text[..end]) {
                        Parsed::Ok(ast) => match string_node(&ast) {
                            Some(v) if *v == decoded => {}
                            other => fail(sh, "raw-bodies", &text, format!("the literal {} denotes {other:?}, reference decoder says {decoded:?}", &text[..end])),
                        },
                        Parsed::Err(e) => fail(sh, "raw-bodies", &text, format!("literal rejected: {e}")),
                        Parsed::Panic(p) => fail(sh, "raw-bodies", &text, format!("panic: {p}")),
                    }
                }
            }
        }
        sh.running()
    });
    // (4) nothing is dropped
    let bad_bits = ["#", "&", "|", "\"abc", "$", "№", "?", "~", "@", "\\", "'", "`", ":"];
    let contexts = ["@", "1 @", "@ 1", "1 + @", "stel a = 1 @", "stel a = 1; @ a", "als ja { @ }", "als ja { 1 } @", "functie f() { 1 @ } f()", "[1, @]", "print(1) @ print(2)", "1 // c\n@", "{ 1 } @"];
    for b in bad_bits {
        for c in contexts {
            if !sh.mine() {
                continue;
            }
            let text = c.replace('@', b);
            let t = text.clone();
            sh.begin(&|| t.clone());
            sh.count("family:illegal");
            sh.nontrivial(&text);
            match parse_guarded(&text) {
                Parsed::Err(_) => {}
                Parsed::Ok(ast) => fail(sh, "illegal", &text, format!("a text containing {b:?} was accepted as {ast:?}")),
                Parsed::Panic(p) => fail(sh, "illegal", &text, format!("panic: {p}")),
            }
        }
    }
    // span contiguity over the corpus and the rich programs
    let mut texts: Vec<String> = super::c05::corpus_texts();
    for p in super::c07::rich_programs() {
        texts.push(crate::printer::program(&p));
    }
    for text in texts {
        if !sh.mine() {
            continue;
        }
        let t = text.clone();
        sh.begin(&|| t.clone());
        sh.count("family:spans");
        sh.nontrivial(&text);
        if let Ok(got) = toks(&text) {
            let mut pos = 0;
            let mut rebuilt = String::new();
            for g in &got {
                if g.1 < pos || g.2 < g.1 || !text.is_char_boundary(g.1) || !text.is_char_boundary(g.2) {
                    fail(sh, "spans", &text, format!("token spans are not increasing: {g:?}"));
                    break;
                }
                // the span holds skipped separators and then exactly this one token
                let lexeme = strip_ws_comments(&text[g.1..g.2]);
                let alone = toks(lexeme).unwrap_or_default();
                if g.1 != pos || alone.len() != 1 || alone[0].0 != g.0 || alone[0].2 != lexeme.len() {
                    fail(sh, "spans", &text, format!("the text {:?} consumed for token {} is not separators followed by that token", &text[g.1..g.2], g.0));
                    break;
                }
                rebuilt.push_str(&text[pos..g.2]);
                pos = g.2;
            }
            if parse_guarded(&text).is_ok() && !is_ws_or_comment(&text[pos..]) {
                fail(sh, "spans", &text, format!("trailing text {:?} was dropped", &text[pos..]));
            }
        }
    }
}

impl Parsed {
    fn is_ok(&self) -> bool {
        matches!(self, Parsed::Ok(_))
    }
}

fn replay(sh: &mut Shard, case: &Value) {
    // re-run the whole (cheap) enumeration restricted to the recorded text
    let text = case["text"].as_str().unwrap_or("").to_string();
    println!("text: {text:?}\n tokens: {:?}\n parse: {:?}", toks(&text), match parse_guarded(&text) {
        Parsed::Ok(a) => format!("{a:?}"),
        Parsed::Err(e) => format!("Err {e}"),
        Parsed::Panic(p) => format!("panic {p}"),
    });
    let mut probe = Shard::new("C08", sh.cfg.clone(), 0, 1);
    probe.known.clear();
    run(&mut probe);
    for v in probe.violations {
        if v["case"]["text"].as_str() == Some(text.as_str()) {
            sh.violations.push(v);
        }
    }
}

fn vacuity(m: &Merged) -> Option<String> {
    for fam in ["sequences", "words", "length-ladder", "code-points", "adjacent-literals", "backslash-runs", "foreign-escapes", "foreign-literal-forms", "char-sweep", "string-contents", "raw-bodies", "illegal", "spans"] {
        if m.counters.get(&format!("family:{fam}")).copied().unwrap_or(0) == 0 {
            return Some(format!("family {fam} produced no case"));
        }
    }
    None
}
