//! Reference model: a definitional interpreter over the interpreter's *own* syntax tree type.
//! DESIGN.md section 4. Deliberately boring: no bytecode, no stack machine, no tagging, no collector.

use nederlang::verif::{Expr, Operator, Stmt};
use std::cell::RefCell;
use std::collections::HashMap;
use std::rc::Rc;

pub const INT_MIN: i64 = -(1i64 << 60);
pub const INT_MAX: i64 = (1i64 << 60) - 1;

pub const BUILTINS: [&str; 7] = ["print", "type", "bool", "int", "float", "string", "lengte"];

#[derive(Clone, Copy, PartialEq, Eq, Debug, Hash, PartialOrd, Ord)]
pub enum ErrKind {
    Type,
    Syntax,
    Reference,
    Index,
    Argument,
}

impl ErrKind {
    pub fn name(self) -> &'static str {
        match self {
            ErrKind::Type => "TypeError",
            ErrKind::Syntax => "SyntaxError",
            ErrKind::Reference => "ReferenceError",
            ErrKind::Index => "IndexError",
            ErrKind::Argument => "ArgumentError",
        }
    }
}

/// What the model demands when it demands an error.
#[derive(Clone, Copy, PartialEq, Eq, Debug)]
pub enum MErr {
    Kind(ErrKind),
    /// an error is required but no source names its kind
    Any,
    /// either of two kinds (two conditions hold at once and no source orders them)
    Either(ErrKind, ErrKind),
}

/// Abnormal end of a model run.
#[derive(Clone, Debug, PartialEq)]
pub enum Stop {
    Err(MErr),
    /// DESIGN 4.3: the documentation does not fix the meaning (Ux)
    Unspec(&'static str),
    /// the model ran out of its own step budget
    Diverge,
    /// the run was cut short from outside after a given number of effects (sessions: injected failure)
    Cut,
}

#[derive(Clone)]
pub enum V<'a> {
    Null,
    Bool(bool),
    Int(i64),
    Float(f64),
    Str(Rc<RefCell<String>>),
    Arr(Rc<RefCell<Vec<V<'a>>>>),
    Func(Rc<FuncVal<'a>>),
    /// the value of a loop that iterated (U4): may be moved around, never consumed
    Residue,
}

pub struct FuncVal<'a> {
    site: usize,
    params: &'a [String],
    body: &'a [Stmt],
}

enum Flow<'a> {
    Val(V<'a>),
    Break,
    Continue,
    Return(V<'a>),
}

macro_rules! val {
    ($e:expr) => {
        match $e? {
            Flow::Val(v) => v,
            other => return Ok(other),
        }
    };
}

#[derive(Clone, Copy, Debug, PartialEq)]
pub struct Res {
    pub global: bool,
    pub decl: u32,
}

#[derive(Clone)]
pub struct FuncInfo {
    pub name: Option<Res>,
    pub params: Vec<u32>,
}

#[derive(Clone)]
struct SCtx {
    scopes: Vec<Vec<(String, u32)>>,
    loops: u32,
}

/// Static name resolution (DESIGN 4.2 "Names"): done completely before anything runs.
#[derive(Clone)]
pub struct Resolver {
    ctxs: Vec<SCtx>,
    pub next_decl: u32,
    /// resolution of every identifier use / assignment target, by node address
    pub idents: HashMap<usize, Res>,
    /// declaration made by every `stel`, by statement address
    pub lets: HashMap<usize, Res>,
    /// name and parameter declarations of every function literal, by node address
    pub funcs: HashMap<usize, FuncInfo>,
    /// model switch for a recorded finding: first declaration in a scope wins (KF quirk)
    pub quirk_first_decl_wins: bool,
    /// model switch: stop/volgende inside a function body may bind to a loop of the caller's body
    pub quirk_loops_cross_functions: bool,
}

impl Resolver {
    pub fn new() -> Self {
        Resolver {
            ctxs: vec![SCtx {
                scopes: vec![Vec::new()],
                loops: 0,
            }],
            next_decl: 0,
            idents: HashMap::new(),
            lets: HashMap::new(),
            funcs: HashMap::new(),
            quirk_first_decl_wins: false,
            quirk_loops_cross_functions: false,
        }
    }

    fn define(&mut self, name: &str) -> Res {
        let d = self.next_decl;
        self.next_decl += 1;
        let global = self.ctxs.len() == 1;
        self.ctxs
            .last_mut()
            .unwrap()
            .scopes
            .last_mut()
            .unwrap()
            .push((name.to_string(), d));
        Res { global, decl: d }
    }

    fn lookup_in(&self, ctx: &SCtx, name: &str) -> Option<u32> {
        for scope in ctx.scopes.iter().rev() {
            let hit = if self.quirk_first_decl_wins {
                scope.iter().find(|(n, _)| n == name)
            } else {
                scope.iter().rev().find(|(n, _)| n == name)
            };
            if let Some((_, d)) = hit {
                return Some(*d);
            }
        }
        None
    }

    fn resolve(&self, name: &str) -> Option<Res> {
        let cur = self.ctxs.last().unwrap();
        if let Some(d) = self.lookup_in(cur, name) {
            return Some(Res {
                global: self.ctxs.len() == 1,
                decl: d,
            });
        }
        if self.ctxs.len() > 1 {
            if let Some(d) = self.lookup_in(&self.ctxs[0], name) {
                return Some(Res {
                    global: true,
                    decl: d,
                });
            }
        }
        None
    }

    /// Resolve one top-level statement list (a program, or one line of a session).
    pub fn program(&mut self, ast: &[Stmt]) -> Result<(), Stop> {
        for s in ast {
            self.stmt(s)?;
        }
        Ok(())
    }

    fn block(&mut self, stmts: &[Stmt]) -> Result<(), Stop> {
        if stmts.is_empty() {
            return Ok(());
        }
        self.ctxs.last_mut().unwrap().scopes.push(Vec::new());
        for s in stmts {
            self.stmt(s)?;
        }
        self.ctxs.last_mut().unwrap().scopes.pop();
        Ok(())
    }

    fn stmt(&mut self, s: &Stmt) -> Result<(), Stop> {
        match s {
            Stmt::Expr(e) => self.expr(e),
            Stmt::Block(b) => self.block(b),
            Stmt::Let(name, value) => {
                if BUILTINS.contains(&name.as_str()) {
                    return Err(Stop::Unspec("U7"));
                }
                let r = self.define(name);
                self.lets.insert(s as *const Stmt as usize, r);
                self.expr(value)
            }
            Stmt::Return(e) => {
                self.expr(e)?;
                if self.ctxs.len() == 1 {
                    return Err(Stop::Unspec("U12"));
                }
                Ok(())
            }
            Stmt::Break | Stmt::Continue => {
                let here = self.ctxs.last().unwrap().loops;
                let any = self.ctxs.iter().any(|c| c.loops > 0);
                if here > 0 || (self.quirk_loops_cross_functions && any) {
                    Ok(())
                } else {
                    Err(Stop::Err(MErr::Kind(ErrKind::Syntax)))
                }
            }
        }
    }

    fn name(&mut self, node: &Expr, name: &str) -> Result<(), Stop> {
        match self.resolve(name) {
            Some(r) => {
                self.idents.insert(node as *const Expr as usize, r);
                Ok(())
            }
            None => {
                if BUILTINS.contains(&name) {
                    Err(Stop::Unspec("U7"))
                } else {
                    Err(Stop::Err(MErr::Kind(ErrKind::Reference)))
                }
            }
        }
    }

    fn expr(&mut self, e: &Expr) -> Result<(), Stop> {
        match e {
            Expr::Bool { .. } | Expr::Int { .. } | Expr::Float { .. } | Expr::String { .. } => Ok(()),
            Expr::Identifier(n) => self.name(e, n),
            Expr::Prefix { right, .. } => self.expr(right),
            Expr::Infix { left, right, .. } => {
                self.expr(left)?;
                self.expr(right)
            }
            Expr::Assign { left, right } => match &**left {
                Expr::Identifier(n) => {
                    self.name(e, n)?;
                    self.expr(right)
                }
                Expr::Index { left: l, index } => {
                    self.expr(l)?;
                    self.expr(index)?;
                    self.expr(right)
                }
                _ => Err(Stop::Err(MErr::Kind(ErrKind::Type))),
            },
            Expr::If {
                condition,
                consequence,
                alternative,
            } => {
                self.expr(condition)?;
                self.block(consequence)?;
                if let Some(a) = alternative {
                    self.block(a)?;
                }
                Ok(())
            }
            Expr::While { condition, body } => {
                self.ctxs.last_mut().unwrap().loops += 1;
                self.expr(condition)?;
                self.block(body)?;
                self.ctxs.last_mut().unwrap().loops -= 1;
                Ok(())
            }
            Expr::Function {
                name,
                parameters,
                body,
            } => {
                let nres = if !name.is_empty() {
                    if BUILTINS.contains(&name.as_str()) {
                        return Err(Stop::Unspec("U7"));
                    }
                    Some(self.define(name))
                } else {
                    None
                };
                self.ctxs.push(SCtx {
                    scopes: vec![Vec::new()],
                    loops: 0,
                });
                let mut ps = Vec::new();
                for (i, p) in parameters.iter().enumerate() {
                    if parameters[..i].contains(p) {
                        return Err(Stop::Unspec("U6"));
                    }
                    if BUILTINS.contains(&p.as_str()) {
                        return Err(Stop::Unspec("U7"));
                    }
                    ps.push(self.define(p).decl);
                }
                self.funcs.insert(
                    e as *const Expr as usize,
                    FuncInfo {
                        name: nres,
                        params: ps,
                    },
                );
                self.block(body)?;
                self.ctxs.pop();
                Ok(())
            }
            Expr::Call { left, arguments } => {
                for a in arguments {
                    self.expr(a)?;
                }
                if let Expr::Identifier(n) = &**left {
                    if BUILTINS.contains(&n.as_str()) {
                        return Ok(());
                    }
                }
                self.expr(left)
            }
            Expr::Array { values } => {
                for v in values {
                    self.expr(v)?;
                }
                Ok(())
            }
            Expr::Index { left, index } => {
                self.expr(left)?;
                self.expr(index)
            }
        }
    }
}

/// Switches that reproduce recorded findings (known_findings.jsonl, matcher kind "quirk").
#[derive(Clone, Copy, Default, Debug, PartialEq)]
pub struct Quirks {
    /// string literals denote one shared, mutable object per distinct text
    pub shared_string_literals: bool,
}

pub struct Interp<'a> {
    pub res: Resolver,
    globals: Vec<Option<V<'a>>>,
    frames: Vec<HashMap<u32, V<'a>>>,
    pub out: String,
    fuel: u64,
    depth: u32,
    effects: u64,
    /// cut the run short right before effect number `effect_limit` (0-based) would happen
    pub effect_limit: Option<u64>,
    /// what the interactive prompt shows for the last line run by `line`: Some(text) ("" for null) when the
    /// line's value is specified
    pub last_shown: Option<String>,
    /// index of the top-level statement of the current line that is running
    top_index: usize,
    /// names whose top-level declaration belonged to a line that failed before the declaration completed (and
    /// that no later line has declared since): by C17 such a declaration never happened
    pub ghosts: std::collections::HashSet<String>,
    pub quirks: Quirks,
    literal_pool: HashMap<String, Rc<RefCell<String>>>,
    /// statistics: which (U1/U2) reads of unbound declarations happened
    pub max_depth: u32,
}

#[derive(Clone, Debug, PartialEq)]
pub enum End {
    /// normal end; None = the result is not specified (U4/U5), only output and absence of error are
    Value(Option<String>),
    Error(MErr),
    Unspec(&'static str),
    Diverge,
}

#[derive(Clone, Debug, PartialEq)]
pub struct ModelOutcome {
    pub output: String,
    pub end: End,
}

pub const MODEL_FUEL: u64 = 4_000_000;

thread_local! {
    static FUEL: std::cell::Cell<u64> = std::cell::Cell::new(MODEL_FUEL);
}

/// Step budget of the model for the following runs on this thread (small programs need far less than
/// the default, and diverging ones then cost little).
pub fn set_model_fuel(f: u64) {
    FUEL.with(|c| c.set(f));
}

fn model_fuel() -> u64 {
    FUEL.with(|c| c.get())
}
const MAX_DEPTH: u32 = 80_000;

impl<'a> Interp<'a> {
    pub fn new() -> Self {
        Interp {
            res: Resolver::new(),
            globals: Vec::new(),
            frames: Vec::new(),
            out: String::new(),
            fuel: model_fuel(),
            depth: 0,
            effects: 0,
            effect_limit: None,
            last_shown: None,
            top_index: 0,
            ghosts: std::collections::HashSet::new(),
            quirks: Quirks::default(),
            literal_pool: HashMap::new(),
            max_depth: 0,
        }
    }

    /// One-shot evaluation of a whole program.
    pub fn eval(ast: &'a [Stmt]) -> ModelOutcome {
        let mut i = Interp::new();
        i.line(ast)
    }

    pub fn eval_with(ast: &'a [Stmt], quirks: Quirks, res: Resolver) -> ModelOutcome {
        let mut i = Interp::new();
        i.quirks = quirks;
        i.res = res;
        i.line(ast)
    }

    /// Evaluate one more top-level statement list in this (persistent) global environment.
    /// A line that fails before running contributes nothing, not even its declarations.
    pub fn line(&mut self, ast: &'a [Stmt]) -> ModelOutcome {
        self.out.clear();
        self.last_shown = None;
        self.fuel = model_fuel();
        self.depth = 0;
        self.effects = 0;
        self.frames.clear();
        let mut trial = self.res.clone();
        if let Err(stop) = trial.program(ast) {
            return ModelOutcome {
                output: String::new(),
                end: match stop {
                    Stop::Err(e) => End::Error(e),
                    Stop::Unspec(u) => End::Unspec(u),
                    Stop::Diverge => End::Diverge,
                    Stop::Cut => End::Error(MErr::Any),
                },
            };
        }
        let before = self.res.clone();
        self.res = trial;
        let ran = self.run_top(ast);
        // C17: a line that fails while running leaves behind the assignments it completed and nothing else —
        // the declarations of the statement that failed and of those after it never happened (the names keep
        // their earlier meaning, or none)
        let declared = |s: &Stmt| -> Option<String> {
            match s {
                Stmt::Let(n, _) => Some(n.clone()),
                Stmt::Expr(Expr::Function { name, .. }) if !name.is_empty() => Some(name.clone()),
                _ => None,
            }
        };
        let completed = match &ran {
            Ok(_) => ast.len(),
            Err(Stop::Err(_)) | Err(Stop::Cut) => {
                let k = self.top_index.min(ast.len());
                let mut back = before;
                if back.program(&ast[..k]).is_ok() {
                    self.res = back;
                    for s in &ast[k..] {
                        if let Some(n) = declared(s) {
                            self.ghosts.insert(n);
                        }
                    }
                }
                k
            }
            _ => 0,
        };
        for s in &ast[..completed] {
            if let Some(n) = declared(s) {
                self.ghosts.remove(&n);
            }
        }
        let end = match ran {
            Ok(v) => End::Value(v),
            Err(Stop::Err(e)) => End::Error(e),
            Err(Stop::Unspec(u)) => End::Unspec(u),
            Err(Stop::Diverge) => End::Diverge,
            Err(Stop::Cut) => End::Error(MErr::Any),
        };
        ModelOutcome {
            output: std::mem::take(&mut self.out),
            end,
        }
    }

    fn run_top(&mut self, ast: &'a [Stmt]) -> Result<Option<String>, Stop> {
        let mut last = V::Null;
        for (i, s) in ast.iter().enumerate() {
            self.top_index = i;
            match self.stmt(s)? {
                Flow::Val(v) => last = v,
                // stop/volgende/antwoord cannot reach the top level: rejected statically
                _ => return Err(Stop::Unspec("U12")),
            }
        }
        if !tail_is_expression(ast) {
            return Ok(None); // U5
        }
        match last {
            V::Residue => Ok(None), // U4
            v => {
                self.last_shown = display(&v).ok();
                Ok(Some(render(&v)))
            }
        }
    }

    /// Does this line mention a name whose declaration failed (see `ghosts`)?
    pub fn mentions_ghost(&self, ast: &[Stmt]) -> bool {
        self.ghosts.iter().any(|g| crate::astx::mentions(ast, g))
    }

    /// Registers one observable effect (a completed assignment, element store or print).
    fn effect(&mut self) -> Result<(), Stop> {
        if let Some(l) = self.effect_limit {
            if self.effects >= l {
                return Err(Stop::Cut);
            }
        }
        self.effects += 1;
        Ok(())
    }

    /// Effects performed by the last line.
    pub fn effects(&self) -> u64 {
        self.effects
    }

    /// Canonical text of the persistent global environment (for state merging in session search).
    pub fn fingerprint(&self) -> String {
        let mut s = String::new();
        for (i, g) in self.globals.iter().enumerate() {
            if let Some(v) = g {
                s.push_str(&format!("{i}={};", render(v)));
            }
        }
        s
    }

    fn tick(&mut self) -> Result<(), Stop> {
        if self.fuel == 0 {
            return Err(Stop::Diverge);
        }
        self.fuel -= 1;
        Ok(())
    }

    fn read(&self, r: Res) -> Result<V<'a>, Stop> {
        let v = if r.global {
            self.globals.get(r.decl as usize).and_then(|x| x.clone())
        } else {
            self.frames.last().and_then(|f| f.get(&r.decl).cloned())
        };
        match v {
            Some(v) => Ok(v),
            None => Err(Stop::Unspec("U1/U2")),
        }
    }

    fn bind(&mut self, r: Res, v: V<'a>) -> Result<(), Stop> {
        if let V::Residue = v {
            return Err(Stop::Unspec("U4"));
        }
        self.effect()?;
        if r.global {
            let i = r.decl as usize;
            if self.globals.len() <= i {
                self.globals.resize(i + 1, None);
            }
            self.globals[i] = Some(v);
        } else {
            match self.frames.last_mut() {
                Some(f) => {
                    f.insert(r.decl, v);
                }
                None => return Err(Stop::Unspec("U1/U2")),
            }
        }
        Ok(())
    }

    /// Runs a block; value = value of its last statement (null if none / not an expression).
    fn block(&mut self, stmts: &'a [Stmt]) -> Result<Flow<'a>, Stop> {
        let mut last = V::Null;
        let mut bound: Vec<Res> = Vec::new();
        let mut result = None;
        for s in stmts {
            if let Stmt::Let(..) = s {
                if let Some(r) = self.res.lets.get(&(s as *const Stmt as usize)) {
                    bound.push(*r);
                }
            }
            if let Stmt::Expr(Expr::Function { name, .. }) = s {
                if !name.is_empty() {
                    if let Stmt::Expr(e) = s {
                        if let Some(fi) = self.res.funcs.get(&(e as *const Expr as usize)) {
                            if let Some(r) = fi.name {
                                bound.push(r);
                            }
                        }
                    }
                }
            }
            match self.stmt(s) {
                Ok(Flow::Val(v)) => last = v,
                other => {
                    result = Some(other);
                    break;
                }
            }
        }
        // the block's variables cease to exist (global ones: so that a later use through an
        // escaped function is recognised as U2)
        for r in bound {
            if r.global {
                if let Some(slot) = self.globals.get_mut(r.decl as usize) {
                    *slot = None;
                }
            }
        }
        match result {
            Some(r) => r,
            None => Ok(Flow::Val(last)),
        }
    }

    fn stmt(&mut self, s: &'a Stmt) -> Result<Flow<'a>, Stop> {
        self.tick()?;
        match s {
            Stmt::Expr(e) => self.expr(e),
            Stmt::Block(b) => self.block(b),
            Stmt::Let(_, value) => {
                let r = *self
                    .res
                    .lets
                    .get(&(s as *const Stmt as usize))
                    .expect("let resolved");
                let v = val!(self.expr(value));
                self.bind(r, v)?;
                Ok(Flow::Val(V::Null))
            }
            Stmt::Return(e) => {
                let v = val!(self.expr(e));
                Ok(Flow::Return(v))
            }
            Stmt::Break => Ok(Flow::Break),
            Stmt::Continue => Ok(Flow::Continue),
        }
    }

    fn new_string(&mut self, s: &str) -> V<'a> {
        if self.quirks.shared_string_literals {
            let rc = self
                .literal_pool
                .entry(s.to_string())
                .or_insert_with(|| Rc::new(RefCell::new(s.to_string())))
                .clone();
            return V::Str(rc);
        }
        V::Str(Rc::new(RefCell::new(s.to_string())))
    }

    fn expr(&mut self, e: &'a Expr) -> Result<Flow<'a>, Stop> {
        self.tick()?;
        let v = match e {
            Expr::Bool { value } => V::Bool(*value),
            Expr::Int { value } => {
                let x = *value as i64;
                if !(INT_MIN..=INT_MAX).contains(&x) {
                    // a literal outside the integer range must be refused (C06: never a wrong value)
                    return Err(Stop::Err(MErr::Any));
                }
                V::Int(x)
            }
            Expr::Float { value } => V::Float(*value),
            Expr::String { value } => self.new_string(value),
            Expr::Identifier(_) => {
                let r = *self
                    .res
                    .idents
                    .get(&(e as *const Expr as usize))
                    .expect("identifier resolved");
                self.read(r)?
            }
            Expr::Prefix { operator, right } => {
                let v = val!(self.expr(right));
                prefix(operator, v)?
            }
            Expr::Infix {
                left,
                operator,
                right,
            } => {
                let l = val!(self.expr(left));
                if matches!(operator, Operator::And | Operator::Or) {
                    // strict evaluation; U3 when short-circuiting would be observable
                    let decided = match (&l, operator) {
                        (V::Bool(false), Operator::And) => true,
                        (V::Bool(true), Operator::Or) => true,
                        _ => false,
                    };
                    let before = (self.effects, self.out.len());
                    let r = match self.expr(right) {
                        Ok(Flow::Val(v)) => v,
                        Ok(other) => {
                            if decided {
                                return Err(Stop::Unspec("U3"));
                            }
                            return Ok(other);
                        }
                        Err(Stop::Err(_)) if decided => return Err(Stop::Unspec("U3")),
                        Err(x) => return Err(x),
                    };
                    if decided
                        && (before != (self.effects, self.out.len()) || !matches!(r, V::Bool(_)))
                    {
                        return Err(Stop::Unspec("U3"));
                    }
                    infix(operator, l, r)?
                } else {
                    let r = val!(self.expr(right));
                    infix(operator, l, r)?
                }
            }
            Expr::Assign { left, right } => match &**left {
                Expr::Identifier(_) => {
                    let r = *self
                        .res
                        .idents
                        .get(&(e as *const Expr as usize))
                        .expect("assignment target resolved");
                    let v = val!(self.expr(right));
                    self.bind(r, v.clone())?;
                    v
                }
                Expr::Index { left: l, index } => {
                    let target = val!(self.expr(l));
                    let idx = val!(self.expr(index));
                    let v = val!(self.expr(right));
                    self.index_set(target, idx, v)?
                }
                _ => return Err(Stop::Err(MErr::Kind(ErrKind::Type))),
            },
            Expr::If {
                condition,
                consequence,
                alternative,
            } => {
                let c = val!(self.expr(condition));
                match c {
                    V::Bool(true) => return self.block(consequence),
                    V::Bool(false) => match alternative {
                        Some(a) => return self.block(a),
                        None => V::Null,
                    },
                    V::Residue => return Err(Stop::Unspec("U4")),
                    _ => return Err(Stop::Err(MErr::Kind(ErrKind::Type))),
                }
            }
            Expr::While { condition, body } => {
                let mut iterated = false;
                loop {
                    self.tick()?;
                    let c = match self.expr(condition)? {
                        Flow::Val(v) => v,
                        Flow::Break => break,
                        Flow::Continue => continue,
                        r @ Flow::Return(_) => return Ok(r),
                    };
                    match c {
                        V::Bool(true) => {}
                        V::Bool(false) => break,
                        V::Residue => return Err(Stop::Unspec("U4")),
                        _ => return Err(Stop::Err(MErr::Kind(ErrKind::Type))),
                    }
                    iterated = true;
                    match self.block(body)? {
                        Flow::Val(_) | Flow::Continue => {}
                        Flow::Break => break,
                        r @ Flow::Return(_) => return Ok(r),
                    }
                }
                if iterated {
                    V::Residue
                } else {
                    V::Null
                }
            }
            Expr::Function {
                parameters, body, ..
            } => {
                let f = V::Func(Rc::new(FuncVal {
                    site: e as *const Expr as usize,
                    params: parameters,
                    body,
                }));
                let info = self
                    .res
                    .funcs
                    .get(&(e as *const Expr as usize))
                    .expect("function resolved");
                if let Some(r) = info.name {
                    self.bind(r, f.clone())?;
                }
                f
            }
            Expr::Call { left, arguments } => {
                let mut args = Vec::with_capacity(arguments.len());
                for a in arguments {
                    let v = val!(self.expr(a));
                    if let V::Residue = v {
                        return Err(Stop::Unspec("U4"));
                    }
                    args.push(v);
                }
                if let Expr::Identifier(n) = &**left {
                    if BUILTINS.contains(&n.as_str()) {
                        return Ok(Flow::Val(self.builtin(n, &args)?));
                    }
                }
                let callee = val!(self.expr(left));
                let f = match callee {
                    V::Func(f) => f,
                    V::Residue => return Err(Stop::Unspec("U4")),
                    _ => return Err(Stop::Err(MErr::Kind(ErrKind::Type))),
                };
                if f.params.len() != args.len() {
                    return Err(Stop::Unspec("U6"));
                }
                if arguments.len() > 255 {
                    return Err(Stop::Unspec("U9"));
                }
                self.call(&f, args)?
            }
            Expr::Array { values } => {
                let mut vs = Vec::with_capacity(values.len());
                for x in values {
                    let v = val!(self.expr(x));
                    if let V::Residue = v {
                        return Err(Stop::Unspec("U4"));
                    }
                    vs.push(v);
                }
                V::Arr(Rc::new(RefCell::new(vs)))
            }
            Expr::Index { left, index } => {
                let target = val!(self.expr(left));
                let idx = val!(self.expr(index));
                self.index_get(target, idx)?
            }
        };
        Ok(Flow::Val(v))
    }

    fn call(&mut self, f: &Rc<FuncVal<'a>>, args: Vec<V<'a>>) -> Result<V<'a>, Stop> {
        self.depth += 1;
        if self.depth > self.max_depth {
            self.max_depth = self.depth;
        }
        if self.depth > MAX_DEPTH {
            return Err(Stop::Diverge);
        }
        let info = self.res.funcs.get(&f.site).expect("callee resolved").clone();
        let mut frame = HashMap::new();
        for (d, v) in info.params.iter().zip(args) {
            frame.insert(*d, v);
        }
        self.frames.push(frame);
        let r = self.block(f.body);
        self.frames.pop();
        self.depth -= 1;
        match r? {
            Flow::Val(v) | Flow::Return(v) => Ok(v),
            // rejected statically
            Flow::Break | Flow::Continue => Err(Stop::Unspec("U12")),
        }
    }

    fn index_get(&mut self, target: V<'a>, idx: V<'a>) -> Result<V<'a>, Stop> {
        if matches!(target, V::Residue) || matches!(idx, V::Residue) {
            return Err(Stop::Unspec("U4"));
        }
        let i = match idx {
            V::Int(i) => i,
            _ => return Err(Stop::Err(MErr::Kind(ErrKind::Type))),
        };
        match target {
            V::Arr(a) => {
                let a = a.borrow();
                match norm_index(i, a.len()) {
                    Some(k) => Ok(a[k].clone()),
                    None => Err(Stop::Err(MErr::Kind(ErrKind::Index))),
                }
            }
            V::Str(s) => {
                let s = s.borrow();
                let n = s.chars().count();
                match norm_index(i, n) {
                    Some(k) => {
                        let ch = s.chars().nth(k).unwrap();
                        Ok(V::Str(Rc::new(RefCell::new(ch.to_string()))))
                    }
                    None => Err(Stop::Err(MErr::Kind(ErrKind::Index))),
                }
            }
            _ => Err(Stop::Err(MErr::Kind(ErrKind::Type))),
        }
    }

    fn index_set(&mut self, target: V<'a>, idx: V<'a>, v: V<'a>) -> Result<V<'a>, Stop> {
        if matches!(target, V::Residue) || matches!(idx, V::Residue) || matches!(v, V::Residue) {
            return Err(Stop::Unspec("U4"));
        }
        let i = match idx {
            V::Int(i) => i,
            _ => return Err(Stop::Err(MErr::Kind(ErrKind::Type))),
        };
        match target {
            V::Arr(a) => {
                let n = a.borrow().len();
                match norm_index(i, n) {
                    Some(k) => {
                        self.effect()?;
                        a.borrow_mut()[k] = v.clone();
                        Ok(v)
                    }
                    None => Err(Stop::Err(MErr::Kind(ErrKind::Index))),
                }
            }
            V::Str(s) => {
                let n = s.borrow().chars().count();
                let k = norm_index(i, n);
                let c = match &v {
                    V::Str(c) => Some(c.clone()),
                    _ => None,
                };
                match (k, c) {
                    (None, Some(_)) => Err(Stop::Err(MErr::Kind(ErrKind::Index))),
                    (None, None) => Err(Stop::Err(MErr::Either(ErrKind::Index, ErrKind::Type))),
                    (Some(_), None) => Err(Stop::Err(MErr::Kind(ErrKind::Type))),
                    (Some(k), Some(c)) => {
                        // U8: aliased target (the evaluator itself holds one extra reference),
                        // or a replacement that is not exactly one character
                        let aliased = Rc::strong_count(&s) > 2 || Rc::ptr_eq(&s, &c);
                        if !self.quirks.shared_string_literals && aliased {
                            return Err(Stop::Unspec("U8"));
                        }
                        let repl = c.borrow().clone();
                        if repl.chars().count() != 1 {
                            return Err(Stop::Unspec("U8"));
                        }
                        self.effect()?;
                        let mut st = s.borrow_mut();
                        let (pos, ch) = st.char_indices().nth(k).unwrap();
                        st.replace_range(pos..pos + ch.len_utf8(), &repl);
                        drop(st);
                        Ok(v)
                    }
                }
            }
            _ => Err(Stop::Err(MErr::Kind(ErrKind::Type))),
        }
    }

    fn builtin(&mut self, name: &str, args: &[V<'a>]) -> Result<V<'a>, Stop> {
        if name == "print" {
            let mut line = String::new();
            if !args.is_empty() {
                let fmt = display(&args[0])?;
                let mut rest = args[1..].iter();
                let mut pieces = fmt.split("{}").peekable();
                while let Some(p) = pieces.next() {
                    line.push_str(p);
                    if pieces.peek().is_some() {
                        match rest.next() {
                            Some(a) => line.push_str(&display(a)?),
                            None => line.push_str("{}"),
                        }
                    }
                }
            }
            line.push('\n');
            self.effect()?;
            self.out.push_str(&line);
            return Ok(V::Null);
        }
        if args.len() != 1 {
            return Err(Stop::Err(MErr::Kind(ErrKind::Argument)));
        }
        let a = &args[0];
        let arg_err = Err(Stop::Err(MErr::Kind(ErrKind::Argument)));
        match name {
            "type" => Ok(V::Str(Rc::new(RefCell::new(
                match a {
                    V::Null => "null",
                    V::Bool(_) => "bool",
                    V::Int(_) => "int",
                    V::Float(_) => "float",
                    V::Str(_) => "string",
                    V::Arr(_) => "array",
                    V::Func(_) => "functie",
                    V::Residue => return Err(Stop::Unspec("U4")),
                }
                .to_string(),
            )))),
            "bool" => Ok(V::Bool(match a {
                V::Null => false,
                V::Bool(b) => *b,
                V::Int(i) => *i > 0,
                V::Float(f) => *f > 0.0,
                V::Str(s) => !s.borrow().is_empty(),
                V::Arr(v) => !v.borrow().is_empty(),
                V::Func(_) => return arg_err,
                V::Residue => return Err(Stop::Unspec("U4")),
            })),
            "int" => match a {
                V::Null => Ok(V::Int(0)),
                V::Bool(b) => Ok(V::Int(*b as i64)),
                V::Int(_) => Ok(a.clone()),
                V::Float(f) => {
                    if f.is_nan() || f.is_infinite() {
                        return Err(Stop::Unspec("U11"));
                    }
                    // compare as integers: INT_MAX itself is not representable as f64
                    let t = f.trunc() as i128;
                    if t < INT_MIN as i128 || t > INT_MAX as i128 {
                        return Err(Stop::Err(MErr::Any));
                    }
                    Ok(V::Int(t as i64))
                }
                V::Str(s) => {
                    let s = s.borrow();
                    if !canonical_int(&s) {
                        return Err(Stop::Unspec("U11"));
                    }
                    match s.parse::<i128>() {
                        Ok(x) if x >= INT_MIN as i128 && x <= INT_MAX as i128 => Ok(V::Int(x as i64)),
                        _ => Err(Stop::Err(MErr::Any)),
                    }
                }
                V::Arr(_) | V::Func(_) => arg_err,
                V::Residue => Err(Stop::Unspec("U4")),
            },
            "float" => match a {
                V::Null => Ok(V::Float(0.0)),
                V::Bool(b) => Ok(V::Float(if *b { 1.0 } else { 0.0 })),
                V::Int(i) => Ok(V::Float(*i as f64)),
                V::Float(_) => Ok(a.clone()),
                V::Str(s) => {
                    let s = s.borrow();
                    if !canonical_float(&s) {
                        return Err(Stop::Unspec("U11"));
                    }
                    match s.parse::<f64>() {
                        Ok(x) => Ok(V::Float(x)),
                        Err(_) => arg_err,
                    }
                }
                V::Arr(_) | V::Func(_) => arg_err,
                V::Residue => Err(Stop::Unspec("U4")),
            },
            "string" => match a {
                V::Null => Ok(V::Str(Rc::new(RefCell::new(String::new())))),
                V::Bool(b) => Ok(V::Str(Rc::new(RefCell::new(b.to_string())))),
                V::Int(i) => Ok(V::Str(Rc::new(RefCell::new(i.to_string())))),
                V::Float(f) => Ok(V::Str(Rc::new(RefCell::new(f.to_string())))),
                V::Str(_) => Ok(a.clone()),
                V::Arr(_) | V::Func(_) => arg_err,
                V::Residue => Err(Stop::Unspec("U4")),
            },
            "lengte" => match a {
                V::Str(s) => Ok(V::Int(s.borrow().chars().count() as i64)),
                V::Arr(v) => Ok(V::Int(v.borrow().len() as i64)),
                V::Residue => Err(Stop::Unspec("U4")),
                _ => Err(Stop::Err(MErr::Kind(ErrKind::Type))),
            },
            _ => unreachable!(),
        }
    }
}

/// Text of an optional '-' and ASCII digits only.
pub fn canonical_int(s: &str) -> bool {
    let d = s.strip_prefix('-').unwrap_or(s);
    !d.is_empty() && d.bytes().all(|b| b.is_ascii_digit())
}

/// Canonical int text, or digits '.' digits with an optional '-'.
pub fn canonical_float(s: &str) -> bool {
    if canonical_int(s) {
        return true;
    }
    let d = s.strip_prefix('-').unwrap_or(s);
    match d.split_once('.') {
        Some((a, b)) => {
            !a.is_empty()
                && !b.is_empty()
                && a.bytes().all(|c| c.is_ascii_digit())
                && b.bytes().all(|c| c.is_ascii_digit())
        }
        None => false,
    }
}

fn norm_index(i: i64, len: usize) -> Option<usize> {
    let n = len as i64;
    let k = if i < 0 { i + n } else { i };
    if k < 0 || k >= n {
        None
    } else {
        Some(k as usize)
    }
}

/// Does the program's last top-level statement (looking through trailing blocks) produce a value?
pub fn tail_is_expression(stmts: &[Stmt]) -> bool {
    match stmts.last() {
        Some(Stmt::Expr(_)) => true,
        Some(Stmt::Block(b)) => tail_is_expression(b),
        _ => false,
    }
}

fn int_result<'a>(x: Option<i64>) -> Result<V<'a>, Stop> {
    match x {
        Some(v) if (INT_MIN..=INT_MAX).contains(&v) => Ok(V::Int(v)),
        _ => Err(Stop::Err(MErr::Any)),
    }
}

fn prefix<'a>(op: &Operator, v: V<'a>) -> Result<V<'a>, Stop> {
    match (op, v) {
        (_, V::Residue) => Err(Stop::Unspec("U4")),
        (Operator::Subtract | Operator::Negate, V::Int(i)) => int_result(i.checked_neg()),
        (Operator::Subtract | Operator::Negate, V::Float(f)) => Ok(V::Float(-f)),
        (Operator::Not, V::Bool(b)) => Ok(V::Bool(!b)),
        _ => Err(Stop::Err(MErr::Kind(ErrKind::Type))),
    }
}

fn type_rank(v: &V) -> u8 {
    match v {
        V::Null => 0,
        V::Bool(_) => 1,
        V::Int(_) => 2,
        V::Float(_) => 3,
        V::Str(_) => 4,
        V::Arr(_) => 5,
        V::Func(_) => 6,
        V::Residue => 7,
    }
}

pub fn infix<'a>(op: &Operator, l: V<'a>, r: V<'a>) -> Result<V<'a>, Stop> {
    use Operator::*;
    if matches!(l, V::Residue) || matches!(r, V::Residue) {
        return Err(Stop::Unspec("U4"));
    }
    let type_err = Err(Stop::Err(MErr::Kind(ErrKind::Type)));
    match op {
        And | Or => match (l, r) {
            (V::Bool(a), V::Bool(b)) => Ok(V::Bool(if *op == And { a && b } else { a || b })),
            _ => type_err,
        },
        Add | Subtract | Multiply | Divide | Modulo => {
            if type_rank(&l) != type_rank(&r) {
                return type_err;
            }
            match (l, r) {
                (V::Int(a), V::Int(b)) => int_result(match op {
                    Add => a.checked_add(b),
                    Subtract => a.checked_sub(b),
                    Multiply => a.checked_mul(b),
                    Divide => a.checked_div(b),
                    Modulo => a.checked_rem(b),
                    _ => unreachable!(),
                }),
                (V::Float(a), V::Float(b)) => Ok(V::Float(match op {
                    Add => a + b,
                    Subtract => a - b,
                    Multiply => a * b,
                    Divide => a / b,
                    Modulo => a % b,
                    _ => unreachable!(),
                })),
                _ => type_err,
            }
        }
        Gt | Gte | Lt | Lte | Eq | Neq => {
            if type_rank(&l) != type_rank(&r) {
                return type_err;
            }
            let ordering = !matches!(op, Eq | Neq);
            let cmp = |o: Option<std::cmp::Ordering>| -> bool {
                use std::cmp::Ordering::*;
                match (op, o) {
                    (Eq, Some(Equal)) => true,
                    (Eq, _) => false,
                    (Neq, Some(Equal)) => false,
                    (Neq, _) => true,
                    (Gt, Some(Greater)) => true,
                    (Gte, Some(Greater | Equal)) => true,
                    (Lt, Some(Less)) => true,
                    (Lte, Some(Less | Equal)) => true,
                    _ => false,
                }
            };
            match (l, r) {
                (V::Null, V::Null) => {
                    if ordering {
                        Err(Stop::Unspec("U10"))
                    } else {
                        Ok(V::Bool(cmp(Some(std::cmp::Ordering::Equal))))
                    }
                }
                (V::Bool(a), V::Bool(b)) => {
                    if ordering {
                        Err(Stop::Unspec("U10"))
                    } else {
                        Ok(V::Bool(cmp(a.partial_cmp(&b))))
                    }
                }
                (V::Int(a), V::Int(b)) => Ok(V::Bool(cmp(a.partial_cmp(&b)))),
                (V::Float(a), V::Float(b)) => Ok(V::Bool(cmp(a.partial_cmp(&b)))),
                (V::Str(a), V::Str(b)) => {
                    let (a, b) = (a.borrow(), b.borrow());
                    Ok(V::Bool(cmp(a.as_str().partial_cmp(b.as_str()))))
                }
                (V::Func(a), V::Func(b)) => {
                    if ordering {
                        Err(Stop::Err(MErr::Any))
                    } else {
                        let same = a.site == b.site;
                        Ok(V::Bool(if *op == Eq { same } else { !same }))
                    }
                }
                (V::Arr(_), V::Arr(_)) => Err(Stop::Err(MErr::Any)),
                _ => type_err,
            }
        }
        Not | Negate | Assign => type_err,
    }
}

/// What print() shows (Display for Object).
pub fn display(v: &V) -> Result<String, Stop> {
    fn go(v: &V, s: &mut String, path: &mut Vec<usize>) -> Result<(), Stop> {
        match v {
            V::Null => {}
            V::Bool(b) => s.push_str(if *b { "ja" } else { "nee" }),
            V::Int(i) => s.push_str(&i.to_string()),
            V::Float(f) => s.push_str(&f.to_string()),
            V::Str(t) => s.push_str(&t.borrow()),
            V::Func(_) => s.push_str("functie"),
            V::Residue => return Err(Stop::Unspec("U4")),
            V::Arr(a) => {
                let addr = Rc::as_ptr(a) as usize;
                if path.contains(&addr) {
                    return Err(Stop::Unspec("U14"));
                }
                path.push(addr);
                s.push('[');
                for (i, x) in a.borrow().iter().enumerate() {
                    if i > 0 {
                        s.push_str(", ");
                    }
                    go(x, s, path)?;
                }
                s.push(']');
                path.pop();
            }
        }
        Ok(())
    }
    let mut s = String::new();
    go(v, &mut s, &mut Vec::new())?;
    Ok(s)
}

pub fn render_float(f: f64) -> String {
    if f.is_nan() {
        "fNaN".to_string()
    } else {
        format!("f{:016x}", f.to_bits())
    }
}

/// Canonical structural rendering of a value, identical in format to `outcome::render_object`.
pub fn render(v: &V) -> String {
    fn go(v: &V, s: &mut String, path: &mut Vec<usize>) {
        match v {
            V::Null => s.push_str("null"),
            V::Bool(b) => s.push_str(if *b { "ja" } else { "nee" }),
            V::Int(i) => s.push_str(&i.to_string()),
            V::Float(f) => s.push_str(&render_float(*f)),
            V::Str(t) => s.push_str(&format!("{:?}", t.borrow().as_str())),
            V::Func(_) => s.push_str("fn"),
            V::Residue => s.push_str("<residue>"),
            V::Arr(a) => {
                let addr = Rc::as_ptr(a) as usize;
                if let Some(pos) = path.iter().position(|p| *p == addr) {
                    s.push_str(&format!("^{}", path.len() - pos));
                    return;
                }
                path.push(addr);
                s.push('[');
                for (i, x) in a.borrow().iter().enumerate() {
                    if i > 0 {
                        s.push(',');
                    }
                    go(x, s, path);
                }
                s.push(']');
                path.pop();
            }
        }
    }
    let mut s = String::new();
    go(v, &mut s, &mut Vec::new());
    s
}
