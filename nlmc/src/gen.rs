//! Bounded-exhaustive enumeration of syntax trees by size (number of nodes), simplest first.
//! A `Grammar` is a slice of the language: small alphabets of names and literals and a choice of
//! productions. Everything is streamed through callbacks; only small levels are memoised, and
//! the number of trees of every level is computed without building them (so that a worker can
//! skip the parts of the enumeration that belong to other workers).

use nederlang::verif::{Expr, Operator, Stmt};
use std::cell::RefCell;
use std::collections::HashMap;
use std::rc::Rc;

pub fn int(v: i64) -> Expr {
    Expr::Int { value: v as isize }
}
pub fn flt(v: f64) -> Expr {
    Expr::Float { value: v }
}
pub fn boolean(v: bool) -> Expr {
    Expr::Bool { value: v }
}
pub fn string(v: &str) -> Expr {
    Expr::String { value: v.to_string() }
}
pub fn id(n: &str) -> Expr {
    Expr::Identifier(n.to_string())
}
pub fn infix(l: Expr, op: Operator, r: Expr) -> Expr {
    Expr::Infix { left: Box::new(l), operator: op, right: Box::new(r) }
}
pub fn prefix(op: Operator, r: Expr) -> Expr {
    Expr::Prefix { operator: op, right: Box::new(r) }
}
pub fn neg(r: Expr) -> Expr {
    prefix(Operator::Subtract, r)
}
/// An integer written the way source text can spell it (negative: prefix minus).
pub fn int_lit(v: i64) -> Expr {
    if v < 0 {
        neg(Expr::Int { value: (-(v as i128)) as isize })
    } else {
        int(v)
    }
}
pub fn assign(l: Expr, r: Expr) -> Expr {
    Expr::Assign { left: Box::new(l), right: Box::new(r) }
}
pub fn op_assign(name: &str, op: Operator, r: Expr) -> Expr {
    assign(id(name), infix(id(name), op, r))
}
pub fn index(l: Expr, i: Expr) -> Expr {
    Expr::Index { left: Box::new(l), index: Box::new(i) }
}
pub fn call(l: Expr, args: Vec<Expr>) -> Expr {
    Expr::Call { left: Box::new(l), arguments: args }
}
pub fn calln(name: &str, args: Vec<Expr>) -> Expr {
    call(id(name), args)
}
pub fn array(v: Vec<Expr>) -> Expr {
    Expr::Array { values: v }
}
pub fn iff(c: Expr, t: Vec<Stmt>, e: Option<Vec<Stmt>>) -> Expr {
    Expr::If { condition: Box::new(c), consequence: t, alternative: e }
}
pub fn whil(c: Expr, b: Vec<Stmt>) -> Expr {
    Expr::While { condition: Box::new(c), body: b }
}
pub fn func(name: &str, params: &[&str], body: Vec<Stmt>) -> Expr {
    Expr::Function {
        name: name.to_string(),
        parameters: params.iter().map(|s| s.to_string()).collect(),
        body,
    }
}
pub fn es(e: Expr) -> Stmt {
    Stmt::Expr(e)
}
pub fn let_(n: &str, e: Expr) -> Stmt {
    Stmt::Let(n.to_string(), e)
}
pub fn print1(e: Expr) -> Stmt {
    es(calln("print", vec![e]))
}

pub const ARITH_OPS: [Operator; 5] =
    [Operator::Add, Operator::Subtract, Operator::Multiply, Operator::Divide, Operator::Modulo];
pub const CMP_OPS: [Operator; 6] =
    [Operator::Lt, Operator::Lte, Operator::Gt, Operator::Gte, Operator::Eq, Operator::Neq];
pub const LOGIC_OPS: [Operator; 2] = [Operator::And, Operator::Or];

pub fn all_infix_ops() -> Vec<Operator> {
    let mut v = ARITH_OPS.to_vec();
    v.extend(CMP_OPS.iter().cloned());
    v.extend(LOGIC_OPS.iter().cloned());
    v
}

#[derive(Clone, Copy, PartialEq, Eq, Hash, Debug)]
pub struct Ctx {
    pub in_loop: bool,
    pub in_func: bool,
    /// nesting depth of loop templates (names the counter)
    pub loop_depth: u8,
    /// nesting depth of immediately applied anonymous functions (names the parameter: p0, p1)
    pub func_depth: u8,
}

impl Ctx {
    pub fn top() -> Self {
        Ctx { in_loop: false, in_func: false, loop_depth: 0, func_depth: 0 }
    }
}

#[derive(Clone, Default)]
pub struct Grammar {
    /// leaves usable anywhere
    pub atoms: Vec<Expr>,
    /// extra leaves usable only inside a function body (parameters)
    pub func_atoms: Vec<Expr>,
    pub infix: Vec<Operator>,
    pub prefix: Vec<Operator>,
    /// identifiers / literals allowed left of `[`
    pub index_bases: Vec<Expr>,
    /// store through index (`base[k] = v`)
    pub index_set: bool,
    /// names that may be assigned / op-assigned
    pub assign_names: Vec<String>,
    pub op_assign_ops: Vec<Operator>,
    /// names that may be declared with `stel`
    pub let_names: Vec<String>,
    /// user functions callable by name: (name, arity)
    pub callees: Vec<(String, usize)>,
    /// builtins callable: (name, arity)
    pub builtins: Vec<(String, usize)>,
    /// largest array literal (0: none)
    pub array_max: usize,
    pub if_expr: bool,
    pub if_else: bool,
    /// `zolang nee { body }` as an expression (never iterates: value null)
    pub dead_while: bool,
    /// counter loops `stel iN = 0; zolang iN < k { iN = iN + 1; body }` for these k
    pub loop_counts: Vec<i64>,
    /// immediately applied anonymous function of one parameter `p<depth>`: `functie(p0) { body }(arg)`
    pub iife: bool,
    /// `zolang ja { body; stop }`: a loop on the literal condition, left by stop
    pub ja_loops: bool,
    /// named function definitions as statements: `functie NAME(PARAMS) { body }`
    pub named_funcs: Vec<(String, Vec<String>)>,
    pub block_stmt: bool,
    pub break_continue: bool,
    pub ret: bool,
    /// statements of the form print(e)
    pub print_stmt: bool,
    /// largest number of statement productions in one block / program body
    pub max_stmts: usize,
    /// largest expression in nodes
    pub max_expr: usize,
}

const MEMO_LIMIT: u64 = 4_000;

type ExprFn<'f> = &'f mut dyn FnMut(&Expr) -> bool;
type StmtsFn<'f> = &'f mut dyn FnMut(&[Stmt]) -> bool;

pub struct Enumerator {
    pub g: Grammar,
    ecount: RefCell<HashMap<(usize, Ctx), u64>>,
    scount: RefCell<HashMap<(usize, Ctx), u64>>,
    bcount: RefCell<HashMap<(usize, Ctx, usize), u64>>,
    ememo: RefCell<HashMap<(usize, Ctx), Rc<Vec<Expr>>>>,
    smemo: RefCell<HashMap<(usize, Ctx), Rc<Vec<Vec<Stmt>>>>>,
}

/// all ways to write n as an ordered sum of k parts, each >= 1
fn compositions(n: usize, k: usize) -> Vec<Vec<usize>> {
    fn go(n: usize, k: usize, out: &mut Vec<Vec<usize>>, cur: &mut Vec<usize>) {
        if k == 0 {
            if n == 0 {
                out.push(cur.clone());
            }
            return;
        }
        if n < k {
            return;
        }
        for first in 1..=(n - (k - 1)) {
            cur.push(first);
            go(n - first, k - 1, out, cur);
            cur.pop();
        }
    }
    let mut out = Vec::new();
    go(n, k, &mut out, &mut Vec::new());
    out
}

impl Enumerator {
    pub fn new(g: Grammar) -> Self {
        Enumerator {
            g,
            ecount: RefCell::new(HashMap::new()),
            scount: RefCell::new(HashMap::new()),
            bcount: RefCell::new(HashMap::new()),
            ememo: RefCell::new(HashMap::new()),
            smemo: RefCell::new(HashMap::new()),
        }
    }

    fn callees(&self) -> Vec<(String, usize)> {
        self.g.callees.iter().chain(self.g.builtins.iter()).cloned().collect()
    }

    fn loop_ctx(ctx: Ctx) -> Ctx {
        Ctx { in_loop: true, loop_depth: ctx.loop_depth + 1, ..ctx }
    }

    // ------------------------------------------------------------------ counting

    pub fn count_exprs(&self, n: usize, ctx: Ctx) -> u64 {
        if n == 0 || n > self.g.max_expr {
            return 0;
        }
        if let Some(c) = self.ecount.borrow().get(&(n, ctx)) {
            return *c;
        }
        let g = &self.g;
        let mut c: u64 = 0;
        if n == 1 {
            c += g.atoms.len() as u64;
            if ctx.in_func {
                c += g.func_atoms.len() as u64;
            }
            if g.array_max > 0 {
                c += 1;
            }
            c += self.callees().iter().filter(|(_, a)| *a == 0).count() as u64;
        } else {
            c += g.prefix.len() as u64 * self.count_exprs(n - 1, ctx);
            for ls in 1..n - 1 {
                c += g.infix.len() as u64 * self.count_exprs(ls, ctx) * self.count_exprs(n - 1 - ls, ctx);
            }
            c += g.assign_names.len() as u64 * (1 + g.op_assign_ops.len() as u64) * self.count_exprs(n - 1, ctx);
            c += g.index_bases.len() as u64 * self.count_exprs(n - 1, ctx);
            if g.index_set && n >= 3 {
                for ks in 1..n - 1 {
                    c += g.index_bases.len() as u64 * self.count_exprs(ks, ctx) * self.count_exprs(n - 1 - ks, ctx);
                }
            }
            for (_, ar) in self.callees() {
                if ar == 0 || n - 1 < ar {
                    continue;
                }
                for comp in compositions(n - 1, ar) {
                    c += comp.iter().map(|s| self.count_exprs(*s, ctx)).product::<u64>();
                }
            }
            for len in 1..=g.array_max.min(n - 1) {
                for comp in compositions(n - 1, len) {
                    c += comp.iter().map(|s| self.count_exprs(*s, ctx)).product::<u64>();
                }
            }
            if g.if_expr {
                for cs in 1..n {
                    let rest = n - 1 - cs;
                    let conds = self.count_exprs(cs, ctx);
                    c += conds * self.count_blocks(rest, ctx);
                    if g.if_else {
                        for ts in 0..=rest {
                            c += conds * self.count_blocks(ts, ctx) * self.count_blocks(rest - ts, ctx);
                        }
                    }
                }
            }
            if g.dead_while {
                c += self.count_blocks(n - 1, Ctx { in_loop: true, ..ctx });
            }
            if g.iife {
                if ctx.func_depth < 2 {
                    let inner = Ctx { in_loop: false, in_func: true, loop_depth: 0, func_depth: ctx.func_depth + 1 };
                    for asz in 1..n {
                        c += self.count_exprs(asz, ctx) * self.count_blocks(n - 1 - asz, inner);
                    }
                }
            }
        }
        self.ecount.borrow_mut().insert((n, ctx), c);
        c
    }

    pub fn count_stmts(&self, n: usize, ctx: Ctx) -> u64 {
        if n == 0 {
            return 0;
        }
        if let Some(c) = self.scount.borrow().get(&(n, ctx)) {
            return *c;
        }
        let g = &self.g;
        let mut c = self.count_exprs(n, ctx);
        if n == 1 && g.break_continue && ctx.in_loop {
            c += 2;
        }
        if n >= 2 {
            c += g.let_names.len() as u64 * self.count_exprs(n - 1, ctx);
            if g.ret && ctx.in_func {
                c += self.count_exprs(n - 1, ctx);
            }
            if g.print_stmt {
                c += self.count_exprs(n - 1, ctx);
            }
        }
        if g.block_stmt {
            c += self.count_blocks(n - 1, ctx);
        }
        if !g.named_funcs.is_empty() && ctx.func_depth < 2 {
            let inner = Ctx { in_loop: false, in_func: true, loop_depth: 0, func_depth: ctx.func_depth + 1 };
            c += g.named_funcs.len() as u64 * self.count_blocks(n - 1, inner);
        }
        if !g.loop_counts.is_empty() && ctx.loop_depth < 2 {
            c += g.loop_counts.len() as u64 * self.count_blocks(n - 1, Self::loop_ctx(ctx));
        }
        if g.ja_loops && ctx.loop_depth < 2 {
            c += self.count_blocks(n - 1, Self::loop_ctx(ctx));
        }
        self.scount.borrow_mut().insert((n, ctx), c);
        c
    }

    pub fn count_blocks(&self, n: usize, ctx: Ctx) -> u64 {
        self.count_blocks_upto(n, ctx, self.g.max_stmts)
    }

    fn count_blocks_upto(&self, n: usize, ctx: Ctx, max_stmts: usize) -> u64 {
        if n == 0 {
            return 1;
        }
        if max_stmts == 0 {
            return 0;
        }
        if let Some(c) = self.bcount.borrow().get(&(n, ctx, max_stmts)) {
            return *c;
        }
        let mut c = 0;
        for first in 1..=n {
            let h = self.count_stmts(first, ctx);
            if h > 0 {
                c += h * self.count_blocks_upto(n - first, ctx, max_stmts - 1);
            }
        }
        self.bcount.borrow_mut().insert((n, ctx, max_stmts), c);
        c
    }

    // ------------------------------------------------------------------ streaming

    /// Calls `f` with every expression of exactly `n` nodes. Returns false if `f` asked to stop.
    pub fn each_expr(&self, n: usize, ctx: Ctx, f: ExprFn) -> bool {
        let count = self.count_exprs(n, ctx);
        if count == 0 {
            return true;
        }
        if count <= MEMO_LIMIT {
            let memo = self.ememo.borrow().get(&(n, ctx)).cloned();
            let table = match memo {
                Some(t) => t,
                None => {
                    let mut v = Vec::with_capacity(count as usize);
                    self.gen_exprs(n, ctx, &mut |e| {
                        v.push(e.clone());
                        true
                    });
                    let t = Rc::new(v);
                    self.ememo.borrow_mut().insert((n, ctx), t.clone());
                    t
                }
            };
            for e in table.iter() {
                if !f(e) {
                    return false;
                }
            }
            return true;
        }
        self.gen_exprs(n, ctx, f)
    }

    /// Every tuple of expressions with the given sizes.
    fn each_tuple(&self, sizes: &[usize], ctx: Ctx, buf: &mut Vec<Expr>, f: &mut dyn FnMut(&[Expr]) -> bool) -> bool {
        if sizes.is_empty() {
            return f(buf);
        }
        let (first, rest) = (sizes[0], &sizes[1..]);
        self.each_expr(first, ctx, &mut |e| {
            buf.push(e.clone());
            let ok = self.each_tuple(rest, ctx, buf, f);
            buf.pop();
            ok
        })
    }

    fn gen_exprs(&self, n: usize, ctx: Ctx, f: ExprFn) -> bool {
        let g = &self.g;
        if n == 1 {
            for a in &g.atoms {
                if !f(a) {
                    return false;
                }
            }
            if ctx.in_func {
                for a in &g.func_atoms {
                    if !f(a) {
                        return false;
                    }
                }
            }
            if g.array_max > 0 && !f(&array(vec![])) {
                return false;
            }
            for (name, ar) in self.callees() {
                if ar == 0 && !f(&calln(&name, vec![])) {
                    return false;
                }
            }
            return true;
        }
        for op in &g.prefix {
            if !self.each_expr(n - 1, ctx, &mut |e| f(&prefix(op.clone(), e.clone()))) {
                return false;
            }
        }
        for ls in 1..n - 1 {
            let rs = n - 1 - ls;
            for op in &g.infix {
                let ok = self.each_expr(ls, ctx, &mut |a| {
                    self.each_expr(rs, ctx, &mut |b| f(&infix(a.clone(), op.clone(), b.clone())))
                });
                if !ok {
                    return false;
                }
            }
        }
        for name in &g.assign_names {
            if !self.each_expr(n - 1, ctx, &mut |e| f(&assign(id(name), e.clone()))) {
                return false;
            }
            for op in &g.op_assign_ops {
                if !self.each_expr(n - 1, ctx, &mut |e| f(&op_assign(name, op.clone(), e.clone()))) {
                    return false;
                }
            }
        }
        for base in &g.index_bases {
            if !self.each_expr(n - 1, ctx, &mut |k| f(&index(base.clone(), k.clone()))) {
                return false;
            }
        }
        if g.index_set && n >= 3 {
            for ks in 1..n - 1 {
                let vs = n - 1 - ks;
                for base in &g.index_bases {
                    let ok = self.each_expr(ks, ctx, &mut |k| {
                        self.each_expr(vs, ctx, &mut |v| f(&assign(index(base.clone(), k.clone()), v.clone())))
                    });
                    if !ok {
                        return false;
                    }
                }
            }
        }
        for (name, ar) in self.callees() {
            if ar == 0 || n - 1 < ar {
                continue;
            }
            for comp in compositions(n - 1, ar) {
                let ok = self.each_tuple(&comp, ctx, &mut Vec::new(), &mut |args| f(&calln(&name, args.to_vec())));
                if !ok {
                    return false;
                }
            }
        }
        for len in 1..=g.array_max.min(n - 1) {
            for comp in compositions(n - 1, len) {
                let ok = self.each_tuple(&comp, ctx, &mut Vec::new(), &mut |elems| f(&array(elems.to_vec())));
                if !ok {
                    return false;
                }
            }
        }
        if g.if_expr {
            for cs in 1..n {
                let rest = n - 1 - cs;
                let ok = self.each_expr(cs, ctx, &mut |c| {
                    self.each_block(rest, ctx, &mut |t| f(&iff(c.clone(), t.to_vec(), None)))
                });
                if !ok {
                    return false;
                }
                if g.if_else {
                    for ts in 0..=rest {
                        let ok = self.each_expr(cs, ctx, &mut |c| {
                            self.each_block(ts, ctx, &mut |t| {
                                self.each_block(rest - ts, ctx, &mut |e| f(&iff(c.clone(), t.to_vec(), Some(e.to_vec()))))
                            })
                        });
                        if !ok {
                            return false;
                        }
                    }
                }
            }
        }
        if g.dead_while {
            let inner = Ctx { in_loop: true, ..ctx };
            if !self.each_block(n - 1, inner, &mut |b| f(&whil(boolean(false), b.to_vec()))) {
                return false;
            }
        }
        if g.iife && ctx.func_depth < 2 {
            let inner = Ctx { in_loop: false, in_func: true, loop_depth: 0, func_depth: ctx.func_depth + 1 };
            let pname = format!("p{}", ctx.func_depth);
            for asz in 1..n {
                let bsz = n - 1 - asz;
                let ok = self.each_expr(asz, ctx, &mut |a| {
                    self.each_block(bsz, inner, &mut |b| f(&call(func("", &[pname.as_str()], b.to_vec()), vec![a.clone()])))
                });
                if !ok {
                    return false;
                }
            }
        }
        true
    }

    /// Every single statement production of exactly `n` nodes (a production may expand to more
    /// than one statement: the counter-loop template).
    pub fn each_stmt(&self, n: usize, ctx: Ctx, f: StmtsFn) -> bool {
        let count = self.count_stmts(n, ctx);
        if count == 0 {
            return true;
        }
        if count <= MEMO_LIMIT {
            let memo = self.smemo.borrow().get(&(n, ctx)).cloned();
            let table = match memo {
                Some(t) => t,
                None => {
                    let mut v = Vec::with_capacity(count as usize);
                    self.gen_stmts(n, ctx, &mut |s| {
                        v.push(s.to_vec());
                        true
                    });
                    let t = Rc::new(v);
                    self.smemo.borrow_mut().insert((n, ctx), t.clone());
                    t
                }
            };
            for s in table.iter() {
                if !f(s) {
                    return false;
                }
            }
            return true;
        }
        self.gen_stmts(n, ctx, f)
    }

    fn gen_stmts(&self, n: usize, ctx: Ctx, f: StmtsFn) -> bool {
        let g = &self.g;
        if !self.each_expr(n, ctx, &mut |e| f(&[es(e.clone())])) {
            return false;
        }
        if n == 1 && g.break_continue && ctx.in_loop {
            if !f(&[Stmt::Break]) || !f(&[Stmt::Continue]) {
                return false;
            }
        }
        if n >= 2 {
            for name in &g.let_names {
                if !self.each_expr(n - 1, ctx, &mut |e| f(&[let_(name, e.clone())])) {
                    return false;
                }
            }
            if g.ret && ctx.in_func {
                if !self.each_expr(n - 1, ctx, &mut |e| f(&[Stmt::Return(e.clone())])) {
                    return false;
                }
            }
            if g.print_stmt {
                if !self.each_expr(n - 1, ctx, &mut |e| f(&[print1(e.clone())])) {
                    return false;
                }
            }
        }
        if g.block_stmt {
            if !self.each_block(n - 1, ctx, &mut |b| f(&[Stmt::Block(b.to_vec())])) {
                return false;
            }
        }
        if !g.named_funcs.is_empty() && ctx.func_depth < 2 {
            let inner = Ctx { in_loop: false, in_func: true, loop_depth: 0, func_depth: ctx.func_depth + 1 };
            for (name, params) in &g.named_funcs {
                let ps: Vec<&str> = params.iter().map(|s| s.as_str()).collect();
                if !self.each_block(n - 1, inner, &mut |b| f(&[es(func(name, &ps, b.to_vec()))])) {
                    return false;
                }
            }
        }
        if g.ja_loops && ctx.loop_depth < 2 {
            let inner = Self::loop_ctx(ctx);
            let ok = self.each_block(n - 1, inner, &mut |b| {
                let mut body: Vec<Stmt> = b.to_vec();
                body.push(Stmt::Break);
                f(&[es(whil(boolean(true), body))])
            });
            if !ok {
                return false;
            }
        }
        if !g.loop_counts.is_empty() && ctx.loop_depth < 2 {
            let name = format!("i{}", ctx.loop_depth);
            let inner = Self::loop_ctx(ctx);
            for k in &g.loop_counts {
                let ok = self.each_block(n - 1, inner, &mut |b| {
                    let mut body = vec![es(assign(id(&name), infix(id(&name), Operator::Add, int(1))))];
                    body.extend(b.iter().cloned());
                    f(&[let_(&name, int(0)), es(whil(infix(id(&name), Operator::Lt, int(*k)), body))])
                });
                if !ok {
                    return false;
                }
            }
        }
        true
    }

    /// Every statement list whose productions sum to exactly `n` nodes (n = 0: the empty list).
    pub fn each_block(&self, n: usize, ctx: Ctx, f: StmtsFn) -> bool {
        let mut buf = Vec::new();
        self.each_block_upto(n, ctx, self.g.max_stmts, &mut buf, f)
    }

    fn each_block_upto(&self, n: usize, ctx: Ctx, max_stmts: usize, buf: &mut Vec<Stmt>, f: StmtsFn) -> bool {
        if n == 0 {
            return f(buf);
        }
        if max_stmts == 0 {
            return true;
        }
        for first in 1..=n {
            if self.count_blocks_upto(n - first, ctx, max_stmts - 1) == 0 {
                continue;
            }
            let ok = self.each_stmt(first, ctx, &mut |h| {
                let mark = buf.len();
                buf.extend(h.iter().cloned());
                let ok = self.each_block_upto(n - first, ctx, max_stmts - 1, buf, f);
                buf.truncate(mark);
                ok
            });
            if !ok {
                return false;
            }
        }
        true
    }

    /// Top-level enumeration with skipping: statement lists of exactly `n` nodes, grouped by their
    /// first production. `want(group_size)` decides per group (and is told how many lists it
    /// holds) whether to enumerate it: this is how workers share one index space without each
    /// generating everything.
    pub fn each_block_grouped(
        &self,
        n: usize,
        ctx: Ctx,
        want: &mut dyn FnMut(u64) -> bool,
        f: StmtsFn,
    ) -> bool {
        if n == 0 {
            if want(1) {
                return f(&[]);
            }
            return true;
        }
        let max = self.g.max_stmts;
        if max == 0 {
            return true;
        }
        for first in 1..=n {
            let tails = self.count_blocks_upto(n - first, ctx, max - 1);
            if tails == 0 {
                continue;
            }
            let ok = self.each_stmt(first, ctx, &mut |h| {
                if !want(tails) {
                    return true;
                }
                let mut buf: Vec<Stmt> = h.to_vec();
                self.each_block_upto(n - first, ctx, max - 1, &mut buf, f)
            });
            if !ok {
                return false;
            }
        }
        true
    }
}
