//! Explicit-state exploration of the abstract stack machine of one compiled program (DESIGN 5, C02).
//! States are (context, ip, height above the frame base); every opcode's successors are followed,
//! both directions of every conditional jump included, so all paths are covered, not the one taken.

use nederlang::compiler::Bytecode;
use nederlang::object::Type;
use nederlang::verif;
use std::collections::{BTreeMap, HashMap, HashSet, VecDeque};

/// Heights are explored exactly; an instruction reached with more than this many DIFFERENT heights lies on
/// a cycle that grows the stack (reported for C11) and is not explored any higher. Straight-line code has
/// one height per instruction however long it is (a 65 000-element array literal included), and the
/// recorded finding KF-C11-01 (an exit with operands pending) gives a handful.
pub const HEIGHTS_PER_IP: u16 = 64;

#[derive(Clone, Debug)]
pub struct OpInfo {
    pub name: String,
    pub widths: Vec<usize>,
}

/// (pops, pushes) of an opcode as a function of its operands; None = not a plain stack effect.
fn effect(name: &str, operands: &[u32]) -> Option<(u32, u32)> {
    Some(match name {
        "Const" | "True" | "False" | "Null" | "GetLocal" | "GetGlobal" => (0, 1),
        "Pop" | "SetLocal" | "SetGlobal" | "JumpIfFalse" => (1, 0),
        "Add" | "Subtract" | "Divide" | "Multiply" | "Gt" | "Gte" | "Lt" | "Lte" | "Eq" | "Neq" | "And" | "Or" | "Modulo" | "IndexGet" => (2, 1),
        "Not" | "Negate" => (1, 1),
        "Jump" | "Halt" | "Return" => (0, 0),
        "ReturnValue" => (1, 0),
        "Call" => (operands[0] + 1, 1),
        "CallBuiltin" => (operands[1], 1),
        "GtLocalConst" | "GteLocalConst" | "LtLocalConst" | "LteLocalConst" | "EqLocalConst" | "NeqLocalConst" | "AddLocalConst"
        | "SubtractLocalConst" | "MultiplyLocalConst" | "DivideLocalConst" | "ModuloLocalConst" => (0, 1),
        "Array" => (operands[0], 1),
        "IndexSet" => (3, 1),
        _ => return None,
    })
}

#[derive(Clone, Debug, PartialEq, Eq, Hash, PartialOrd, Ord)]
pub struct Context {
    /// usize::MAX = main
    pub id: usize,
    pub entry: usize,
    pub num_locals: u32,
}

impl Context {
    pub fn is_main(&self) -> bool {
        self.id == usize::MAX
    }
}

#[derive(Clone, Debug)]
pub struct Finding {
    pub kind: &'static str,
    pub ctx: usize,
    pub ip: usize,
    pub detail: String,
    /// path of ips from the context entry to the violating state
    pub path: Vec<usize>,
}

pub struct Graph {
    pub contexts: Vec<Context>,
    /// reachable states: (ctx index, ip, h)
    pub states: HashSet<(usize, u32, u32)>,
    pub transitions: u64,
    pub findings: Vec<Finding>,
    /// instruction starts reachable per context
    pub code_of: Vec<HashSet<usize>>,
    /// (ctx, ip) pairs whose height reached the cap: a stack-growing cycle
    pub growing: Vec<(usize, usize)>,
    pub unknown_opcode_names: Vec<String>,
}

pub fn optable() -> HashMap<u8, OpInfo> {
    verif::opcodes().into_iter().map(|(b, name, widths)| (b, OpInfo { name, widths })).collect()
}

fn read_operand(code: &[u8], at: usize, width: usize) -> u32 {
    match width {
        1 => code[at] as u32,
        2 => code[at] as u32 | (code[at + 1] as u32) << 8,
        _ => 0,
    }
}

pub fn explore(bc: &Bytecode, ops: &HashMap<u8, OpInfo>) -> Graph {
    let code = &bc.instructions;
    let mut contexts = vec![Context { id: usize::MAX, entry: 0, num_locals: 0 }];
    for (i, c) in bc.constants.iter().enumerate() {
        if c.tag() == Type::Function {
            let [ip, n] = c.as_function();
            contexts.push(Context { id: i, entry: ip as usize, num_locals: n });
        }
    }
    let mut g = Graph {
        contexts: contexts.clone(),
        states: HashSet::new(),
        transitions: 0,
        findings: Vec::new(),
        code_of: vec![HashSet::new(); contexts.len()],
        growing: Vec::new(),
        unknown_opcode_names: Vec::new(),
    };
    // parent pointers for counterexample paths
    let mut parent: HashMap<(usize, u32, u32), (usize, u32, u32)> = HashMap::new();
    for (ci, ctx) in contexts.iter().enumerate() {
        let mut queue: VecDeque<(usize, u32, u32)> = VecDeque::new();
        let mut heights_at: Vec<u16> = vec![0; code.len() + 1];
        let start = (ci, ctx.entry as u32, ctx.num_locals);
        if g.states.insert(start) {
            queue.push_back(start);
        }
        while let Some(s) = queue.pop_front() {
            let (_, ip32, h) = s;
            let ip = ip32 as usize;
            macro_rules! report {
                ($g:expr, $kind:expr, $detail:expr $(,)?) => {{
                    if $g.findings.len() < 8 {
                        let mut path = vec![ip];
                        let mut cur = s;
                        while let Some(p) = parent.get(&cur) {
                            path.push(p.1 as usize);
                            cur = *p;
                            if path.len() > 64 {
                                break;
                            }
                        }
                        path.reverse();
                        $g.findings.push(Finding { kind: $kind, ctx: ctx.id, ip, detail: $detail, path });
                    }
                }};
            }
            if ip >= code.len() {
                report!(g, "runs-off-the-end", format!("ip {ip} >= code length {}", code.len()));
                continue;
            }
            let op = match ops.get(&code[ip]) {
                Some(o) => o,
                None => {
                    report!(g, "invalid-opcode", format!("byte {} at {ip}", code[ip]));
                    continue;
                }
            };
            let oplen: usize = op.widths.iter().sum();
            if ip + 1 + oplen > code.len() {
                report!(g, "operand-out-of-code", format!("{} at {ip} needs {oplen} operand bytes, code length {}", op.name, code.len()));
                continue;
            }
            g.code_of[ci].insert(ip);
            let mut operands = Vec::new();
            let mut at = ip + 1;
            for w in &op.widths {
                operands.push(read_operand(code, at, *w));
                at += w;
            }
            let next = ip + 1 + oplen;
            let (pops, pushes) = match effect(&op.name, &operands) {
                Some(e) => e,
                None => {
                    if !g.unknown_opcode_names.contains(&op.name) {
                        g.unknown_opcode_names.push(op.name.clone());
                    }
                    continue;
                }
            };
            // operand ranges
            let name = op.name.as_str();
            if name == "Const" && operands[0] as usize >= bc.constants.len() {
                report!(g, "constant-out-of-range", format!("Const({}) with {} constants", operands[0], bc.constants.len()));
                continue;
            }
            if name.ends_with("LocalConst") {
                if operands[1] as usize >= bc.constants.len() {
                    report!(g, "constant-out-of-range", format!("{name}(_, {}) with {} constants", operands[1], bc.constants.len()));
                    continue;
                }
            }
            if name == "GetLocal" || name == "SetLocal" || name.ends_with("LocalConst") {
                if ctx.is_main() {
                    report!(g, "local-opcode-in-main", format!("{name}({}) outside any function", operands[0]));
                    continue;
                }
                if operands[0] >= ctx.num_locals {
                    report!(g, "local-slot-out-of-range", format!("{name}({}) in a function with {} local slots", operands[0], ctx.num_locals));
                    continue;
                }
            }
            if name == "CallBuiltin" && operands[0] > 6 {
                report!(g, "builtin-out-of-range", format!("CallBuiltin({}, {})", operands[0], operands[1]));
                continue;
            }
            // lower bound: the operand stack above the locals must hold what is popped
            if h < ctx.num_locals + pops {
                report!(
                    g,
                    "stack-underflow",
                    format!("{name} at {ip} pops {pops} with {} operand(s) above {} local slot(s)", h.saturating_sub(ctx.num_locals), ctx.num_locals),
                );
                continue;
            }
            let h2 = h - pops + pushes;
            // successors
            let mut succ: Vec<usize> = Vec::new();
            match name {
                "Halt" => {
                    if !ctx.is_main() {
                        report!(g, "halt-inside-function", format!("Halt at {ip} reachable from the function entered at {}", ctx.entry));
                    }
                }
                "Return" | "ReturnValue" => {
                    if ctx.is_main() {
                        report!(g, "return-outside-function", format!("{name} at {ip} reachable from the program entry"));
                    }
                }
                "Jump" => succ.push(operands[0] as usize),
                "JumpIfFalse" => {
                    succ.push(next);
                    succ.push(operands[0] as usize);
                }
                _ => succ.push(next),
            }
            for t in succ {
                g.transitions += 1;
                if t >= code.len() {
                    report!(g, "jump-out-of-code", format!("{name} at {ip} continues at {t}, code length {}", code.len()));
                    continue;
                }
                let ns = (ci, t as u32, h2);
                if g.states.contains(&ns) {
                    continue;
                }
                if heights_at[t] >= HEIGHTS_PER_IP {
                    if !g.growing.contains(&(ci, t)) {
                        g.growing.push((ci, t));
                    }
                    continue;
                }
                heights_at[t] += 1;
                if g.states.insert(ns) {
                    parent.insert(ns, s);
                    queue.push_back(ns);
                }
            }
        }
    }
    // instruction boundaries: no reachable instruction start lies inside the operands of another
    let mut starts: BTreeMap<usize, (usize, usize)> = BTreeMap::new(); // start -> (end, ctx)
    for (ci, set) in g.code_of.iter().enumerate() {
        for ip in set {
            let op = &ops[&code[*ip]];
            let end = ip + 1 + op.widths.iter().sum::<usize>();
            starts.insert(*ip, (end, ci));
        }
    }
    let mut prev: Option<(usize, usize)> = None;
    for (s, (e, _)) in &starts {
        if let Some((ps, pe)) = prev {
            if *s < pe {
                g.findings.push(Finding {
                    kind: "not-an-instruction-boundary",
                    ctx: usize::MAX,
                    ip: *s,
                    detail: format!("instruction at {s} lies inside the instruction at {ps}..{pe}"),
                    path: vec![],
                });
            }
        }
        prev = Some((*s, *e));
    }
    // disjointness of the code reachable from different contexts
    for a in 0..g.code_of.len() {
        for b in a + 1..g.code_of.len() {
            if g.contexts[a].entry == g.contexts[b].entry && !g.contexts[a].is_main() {
                continue; // the same function value twice in the pool
            }
            if let Some(ip) = g.code_of[a].intersection(&g.code_of[b]).min() {
                let (ca, cb) = (&g.contexts[a], &g.contexts[b]);
                g.findings.push(Finding {
                    kind: "control-leaves-function-body",
                    ctx: cb.id,
                    ip: *ip,
                    detail: format!(
                        "the instruction at {ip} is reachable both from {} and from the function entered at {}",
                        if ca.is_main() { "the program entry".to_string() } else { format!("the function entered at {}", ca.entry) },
                        cb.entry
                    ),
                    path: vec![],
                });
            }
        }
    }
    g
}

/// Which context does this instruction belong to (by reachability)?
pub fn context_of(g: &Graph, ip: usize) -> Option<usize> {
    g.code_of.iter().position(|s| s.contains(&ip))
}

pub fn disassemble(bc: &Bytecode, ops: &HashMap<u8, OpInfo>) -> String {
    let code = &bc.instructions;
    let mut s = String::new();
    let mut ip = 0;
    while ip < code.len() {
        match ops.get(&code[ip]) {
            None => {
                s.push_str(&format!("{ip}:?{} ", code[ip]));
                ip += 1;
            }
            Some(op) => {
                s.push_str(&format!("{ip}:{}", op.name));
                let mut at = ip + 1;
                let mut vals = Vec::new();
                for w in &op.widths {
                    if at + w <= code.len() {
                        vals.push(read_operand(code, at, *w).to_string());
                    }
                    at += w;
                }
                if !vals.is_empty() {
                    s.push_str(&format!("({})", vals.join(",")));
                }
                s.push(' ');
                ip = at;
            }
        }
    }
    s
}
