//! Worker side of the process pool: one shard of an enumeration, its counters and its protocol lines.

use serde_json::{json, Value};
use std::collections::{BTreeMap, HashSet};
use std::hash::{Hash, Hasher};
use std::io::Write;

#[derive(Clone, Copy, PartialEq, Debug)]
pub enum Tier {
    Quick,
    Thorough,
}

impl Tier {
    pub fn name(self) -> &'static str {
        match self {
            Tier::Quick => "quick",
            Tier::Thorough => "thorough",
        }
    }
}

#[derive(Clone, Debug)]
pub struct Cfg {
    pub tier: Tier,
    pub seed: u64,
}

pub fn hash64<T: Hash + ?Sized>(t: &T) -> u64 {
    let mut h = std::collections::hash_map::DefaultHasher::new();
    t.hash(&mut h);
    h.finish()
}

#[derive(Clone, Debug)]
pub struct Finding {
    pub id: String,
    pub property: String,
    pub what: String,
    pub matcher: Value,
}

pub fn load_known_findings(path: &str) -> (Vec<Finding>, Vec<String>) {
    let mut known = Vec::new();
    let mut fixed = Vec::new();
    if let Ok(text) = std::fs::read_to_string(path) {
        for line in text.lines() {
            let line = line.trim();
            if line.is_empty() || line.starts_with('#') {
                continue;
            }
            if line.starts_with("fixed:") {
                fixed.push(line.to_string());
                continue;
            }
            if let Ok(v) = serde_json::from_str::<Value>(line) {
                if v["status"] == "known" {
                    known.push(Finding {
                        id: v["id"].as_str().unwrap_or("?").to_string(),
                        property: v["property"].as_str().unwrap_or("?").to_string(),
                        what: v["what"].as_str().unwrap_or("").to_string(),
                        matcher: v["match"].clone(),
                    });
                }
            }
        }
    }
    (known, fixed)
}

pub const MAX_VIOLATIONS_PER_SHARD: usize = 40;
const EXACT_DISTINCT_CAP: usize = 3_000_000;

pub struct Shard {
    pub prop: String,
    pub cfg: Cfg,
    pub shard: u64,
    pub nshards: u64,
    pub from: u64,
    pub skip: Vec<u64>,
    pub step_mode: bool,
    pub only: Option<u64>,
    next_index: u64,
    cur_index: u64,
    group_counter: u64,
    auto_samples: u32,
    /// inside a group that `want_group` accepted: every case is this worker's
    pub group_mode: bool,
    pub cases: u64,
    pub nontrivial: u64,
    case_hashes: HashSet<u64>,
    case_hash_overflow: bool,
    outcome_hashes: HashSet<u64>,
    /// hashes of (case, outcome) pairs, compared between build profiles by the parent
    pair_hashes: HashSet<u64>,
    pub counters: BTreeMap<String, u64>,
    pub samples: Vec<Value>,
    pub violations: Vec<Value>,
    pub known_hits: BTreeMap<String, u64>,
    pub known: Vec<Finding>,
    pub caps_hit: Vec<String>,
    heartbeat_every: u64,
    since_hb: u64,
    last_hb: std::time::Instant,
    out: std::io::Stdout,
    pub stop: bool,
    /// replay mode: print details of every case
    pub verbose: bool,
}

impl Shard {
    pub fn new(prop: &str, cfg: Cfg, shard: u64, nshards: u64) -> Self {
        let (known, _) = load_known_findings("/verif/known_findings.jsonl");
        Shard {
            prop: prop.to_string(),
            cfg,
            shard,
            nshards,
            from: 0,
            skip: Vec::new(),
            step_mode: false,
            only: None,
            next_index: 0,
            cur_index: 0,
            group_counter: 0,
            auto_samples: 0,
            group_mode: false,
            cases: 0,
            nontrivial: 0,
            case_hashes: HashSet::new(),
            case_hash_overflow: false,
            outcome_hashes: HashSet::new(),
            pair_hashes: HashSet::new(),
            counters: BTreeMap::new(),
            samples: Vec::new(),
            violations: Vec::new(),
            known_hits: BTreeMap::new(),
            known: known.into_iter().filter(|f| f.property == prop).collect(),
            caps_hit: Vec::new(),
            heartbeat_every: 512,
            since_hb: 0,
            last_hb: std::time::Instant::now(),
            out: std::io::stdout(),
            stop: false,
            verbose: false,
        }
    }

    /// Advances the enumeration by one case. True if this worker has to run it.
    #[inline]
    pub fn mine(&mut self) -> bool {
        let i = self.next_index;
        self.next_index += 1;
        if self.stop {
            return false;
        }
        if let Some(o) = self.only {
            if i != o {
                return false;
            }
        } else if (!self.group_mode && i % self.nshards != self.shard) || i < self.from || self.skip.contains(&i) {
            return false;
        }
        self.cur_index = i;
        true
    }

    /// Grouped sharding: a group of `size` consecutive cases is about to be enumerated. Returns
    /// whether this worker takes it; if not, the index space is advanced past it without generating it.
    pub fn want_group(&mut self, size: u64) -> bool {
        let g = self.group_counter;
        self.group_counter += 1;
        let mine = !self.stop
            && self.only.is_none()
            && g % self.nshards == self.shard
            && self.next_index + size > self.from;
        let mine = mine || self.only.map(|o| o >= self.next_index && o < self.next_index + size).unwrap_or(false);
        if !mine {
            self.next_index += size;
        }
        mine
    }

    /// True while the enumeration should continue (false after a cap or in single-case mode once done).
    pub fn running(&self) -> bool {
        if self.stop {
            return false;
        }
        if let Some(o) = self.only {
            return self.next_index <= o;
        }
        true
    }

    pub fn index(&self) -> u64 {
        self.cur_index
    }

    /// Announces the case about to run (its descriptor is only built when needed).
    pub fn begin(&mut self, desc: &dyn Fn() -> String) {
        self.cases += 1;
        // the first cases of every shard are always kept as samples of what is being run
        if self.auto_samples < 2 {
            self.auto_samples += 1;
            let d = desc();
            let short: String = d.chars().take(600).collect();
            self.samples.push(json!({"case": short}));
        }
        if self.step_mode {
            let d = desc();
            let _ = writeln!(self.out, "B {} {}", self.cur_index, serde_json::to_string(&d).unwrap());
            let _ = self.out.flush();
        } else {
            self.since_hb += 1;
            // a heartbeat every 512 cases, and at least one per second while cases are slow
            if self.since_hb >= self.heartbeat_every || self.last_hb.elapsed().as_millis() >= 1000 {
                self.since_hb = 0;
                self.last_hb = std::time::Instant::now();
                let _ = writeln!(self.out, "H {}", self.cur_index);
                let _ = self.out.flush();
            }
        }
    }

    pub fn count(&mut self, key: &str) {
        *self.counters.entry(key.to_string()).or_insert(0) += 1;
    }

    pub fn add(&mut self, key: &str, n: u64) {
        *self.counters.entry(key.to_string()).or_insert(0) += n;
    }

    pub fn max(&mut self, key: &str, n: u64) {
        let e = self.counters.entry(format!("max:{key}")).or_insert(0);
        if n > *e {
            *e = n;
        }
    }

    /// Records a case as distinct and non-trivial (by the property's rule).
    pub fn nontrivial<T: Hash + ?Sized>(&mut self, case: &T) {
        self.nontrivial += 1;
        if !self.case_hash_overflow {
            self.case_hashes.insert(hash64(case));
            if self.case_hashes.len() > EXACT_DISTINCT_CAP {
                self.case_hash_overflow = true;
            }
        }
    }

    pub fn outcome<T: Hash + ?Sized>(&mut self, o: &T) {
        if self.outcome_hashes.len() < EXACT_DISTINCT_CAP {
            self.outcome_hashes.insert(hash64(o));
        }
    }

    pub fn pair<T: Hash + ?Sized>(&mut self, p: &T) {
        self.pair_hashes.insert(hash64(p));
    }

    pub fn sample(&mut self, v: Value) {
        if self.samples.len() < 8 {
            self.samples.push(v);
        }
    }

    pub fn known(&mut self, id: &str) {
        *self.known_hits.entry(id.to_string()).or_insert(0) += 1;
    }

    /// Reports a violation of the property on the current case.
    pub fn violation(&mut self, class: &str, desc: Value, detail: String) {
        let v = json!({"index": self.cur_index, "class": class, "case": desc, "detail": detail});
        if self.verbose {
            println!("violation: {}", serde_json::to_string_pretty(&v).unwrap());
        }
        let _ = writeln!(self.out, "V {}", serde_json::to_string(&v).unwrap());
        let _ = self.out.flush();
        self.violations.push(v);
        if self.violations.len() >= MAX_VIOLATIONS_PER_SHARD {
            self.stop = true;
            self.caps_hit.push("violations-per-shard".into());
        }
    }

    /// A failure of the machinery itself (never a verdict about the property).
    pub fn machinery(&mut self, what: String) {
        let _ = writeln!(self.out, "M {}", serde_json::to_string(&what).unwrap());
        let _ = self.out.flush();
        self.stop = true;
    }

    pub fn finish(&mut self) {
        let dir = "/verif/.target/tmp";
        let _ = std::fs::create_dir_all(dir);
        let mut hash_file = Value::Null;
        if !self.case_hash_overflow {
            let path = format!("{dir}/hashes-{}-{}-{}.bin", self.prop, std::process::id(), self.shard);
            let mut bytes = Vec::with_capacity(self.case_hashes.len() * 8);
            for h in &self.case_hashes {
                bytes.extend_from_slice(&h.to_le_bytes());
            }
            if std::fs::write(&path, bytes).is_ok() {
                hash_file = Value::String(path);
            }
        }
        let opath = format!("{dir}/outcomes-{}-{}-{}.bin", self.prop, std::process::id(), self.shard);
        let mut bytes = Vec::with_capacity(self.outcome_hashes.len() * 8);
        for h in &self.outcome_hashes {
            bytes.extend_from_slice(&h.to_le_bytes());
        }
        let _ = std::fs::write(&opath, bytes);
        let ppath = format!("{dir}/pairs-{}-{}-{}.bin", self.prop, std::process::id(), self.shard);
        let mut bytes = Vec::with_capacity(self.pair_hashes.len() * 8);
        for h in &self.pair_hashes {
            bytes.extend_from_slice(&h.to_le_bytes());
        }
        let _ = std::fs::write(&ppath, bytes);
        let s = json!({
            "shard": self.shard,
            "enumerated": self.next_index,
            "cases": self.cases,
            "nontrivial": self.nontrivial,
            "distinct_cases": self.case_hashes.len(),
            "distinct_exact": !self.case_hash_overflow,
            "hash_file": hash_file,
            "outcome_file": opath,
            "pair_file": ppath,
            "debug_assertions": cfg!(debug_assertions),
            "counters": self.counters,
            "samples": self.samples,
            "violations": self.violations.len(),
            "known_hits": self.known_hits,
            "caps_hit": self.caps_hit,
        });
        let _ = writeln!(self.out, "S {}", serde_json::to_string(&s).unwrap());
        let _ = self.out.flush();
    }
}
