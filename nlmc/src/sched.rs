//! A preemption-bounded, exhaustive scheduler over real OS threads that pass a baton at hooked yield
//! points (every VM instruction and every phase boundary of `eval`): exactly one thread runs at a time,
//! a schedule is the list of thread ids chosen at each point (DESIGN 5, C16 b).

use crate::outcome::{classify_err, panic_message, render_object, ImplEnd};
use nederlang::verif;
use std::cell::Cell;
use std::panic::{catch_unwind, AssertUnwindSafe};
use std::sync::{Arc, Condvar, Mutex};

#[derive(Clone, Debug)]
pub struct Point {
    pub chosen: usize,
    pub enabled: Vec<usize>,
    /// the thread that was running when this point was reached and could have continued
    pub running: Option<usize>,
}

struct State {
    current: Option<usize>,
    finished: Vec<bool>,
    started: usize,
    prefix: Vec<usize>,
    trace: Vec<Point>,
    error: Option<String>,
}

struct Sched {
    m: Mutex<State>,
    cv: Condvar,
}

static ACTIVE: Mutex<Option<Arc<Sched>>> = Mutex::new(None);

thread_local! {
    static MY_ID: Cell<usize> = Cell::new(usize::MAX);
}

fn enabled(st: &State) -> Vec<usize> {
    (0..st.finished.len()).filter(|i| !st.finished[*i]).collect()
}

/// Makes the choice for the next point. Returns the chosen thread.
fn choose(st: &mut State, running: Option<usize>) -> usize {
    let en = enabled(st);
    let pos = st.trace.len();
    let default = match running {
        Some(r) => r,
        None => en[0],
    };
    let chosen = if pos < st.prefix.len() {
        let c = st.prefix[pos];
        if !en.contains(&c) {
            st.error = Some(format!("replay diverged at point {pos}: thread {c} is not enabled (enabled: {en:?})"));
            default
        } else {
            c
        }
    } else {
        default
    };
    st.trace.push(Point { chosen, enabled: en, running });
    chosen
}

fn yield_point() {
    let id = MY_ID.with(|c| c.get());
    if id == usize::MAX {
        return;
    }
    let s = match ACTIVE.lock().unwrap().clone() {
        Some(s) => s,
        None => return,
    };
    let mut st = s.m.lock().unwrap();
    let next = choose(&mut st, Some(id));
    if next != id {
        st.current = Some(next);
        s.cv.notify_all();
        while st.current != Some(id) {
            st = s.cv.wait(st).unwrap();
        }
    }
}

#[derive(Clone, Debug, PartialEq)]
pub struct ThreadOutcome {
    pub end: ImplEnd,
    pub output: String,
}

pub struct Run {
    pub trace: Vec<Point>,
    pub outcomes: Vec<ThreadOutcome>,
    pub error: Option<String>,
}

/// One evaluation of `text` on the current thread with hooks (no scheduler).
pub fn solo(text: &str, budget: u64) -> ThreadOutcome {
    verif::reset();
    verif::capture_start();
    verif::set_budget(Some(budget));
    let r = catch_unwind(AssertUnwindSafe(|| nederlang::eval(text)));
    let output = verif::capture_take();
    let end = match r {
        Err(p) => ImplEnd::Panic(panic_message(p)),
        Ok(Err(e)) => classify_err(&e),
        Ok(Ok(o)) => {
            let s = render_object(o);
            let mut boxes = Vec::new();
            crate::outcome::reachable_boxes(o, &mut boxes);
            for b in boxes {
                b.free();
            }
            ImplEnd::Value(s)
        }
    };
    ThreadOutcome { end, output }
}

/// Runs the programs on one thread each under the schedule that starts with `prefix` and then never
/// preempts (a thread runs until it finishes, then the lowest-numbered unfinished one runs).
pub fn run_schedule(programs: &[String], prefix: &[usize], budget: u64) -> Run {
    let n = programs.len();
    let s = Arc::new(Sched {
        m: Mutex::new(State { current: None, finished: vec![false; n], started: 0, prefix: prefix.to_vec(), trace: Vec::new(), error: None }),
        cv: Condvar::new(),
    });
    *ACTIVE.lock().unwrap() = Some(s.clone());
    let mut handles = Vec::new();
    for (id, text) in programs.iter().enumerate() {
        let s2 = s.clone();
        let text = text.clone();
        handles.push(
            std::thread::Builder::new()
                .stack_size(64 << 20)
                .spawn(move || {
                    MY_ID.with(|c| c.set(id));
                    // wait for the baton
                    {
                        let mut st = s2.m.lock().unwrap();
                        st.started += 1;
                        s2.cv.notify_all();
                        while st.current != Some(id) {
                            st = s2.cv.wait(st).unwrap();
                        }
                    }
                    verif::reset();
                    verif::capture_start();
                    verif::set_budget(Some(budget));
                    verif::set_yield(Some(yield_point));
                    let r = catch_unwind(AssertUnwindSafe(|| nederlang::eval(&text)));
                    verif::set_yield(None);
                    let output = verif::capture_take();
                    let end = match r {
                        Err(p) => ImplEnd::Panic(panic_message(p)),
                        Ok(Err(e)) => classify_err(&e),
                        Ok(Ok(o)) => {
                            let sres = render_object(o);
                            let mut boxes = Vec::new();
                            crate::outcome::reachable_boxes(o, &mut boxes);
                            for b in boxes {
                                b.free();
                            }
                            ImplEnd::Value(sres)
                        }
                    };
                    // hand the baton on
                    let mut st = s2.m.lock().unwrap();
                    st.finished[id] = true;
                    if enabled(&st).is_empty() {
                        st.current = None;
                    } else {
                        let next = choose(&mut st, None);
                        st.current = Some(next);
                    }
                    s2.cv.notify_all();
                    ThreadOutcome { end, output }
                })
                .expect("spawn"),
        );
    }
    // start: wait until all threads are parked, then make the first choice
    {
        let mut st = s.m.lock().unwrap();
        while st.started < n {
            st = s.cv.wait(st).unwrap();
        }
        let first = choose(&mut st, None);
        st.current = Some(first);
        s.cv.notify_all();
    }
    let outcomes: Vec<ThreadOutcome> = handles
        .into_iter()
        .map(|h| h.join().unwrap_or(ThreadOutcome { end: ImplEnd::Panic("thread died".into()), output: String::new() }))
        .collect();
    *ACTIVE.lock().unwrap() = None;
    let st = s.m.lock().unwrap();
    Run { trace: st.trace.clone(), outcomes, error: st.error.clone() }
}

pub struct ExploreStats {
    pub schedules: u64,
    pub points: u64,
    pub interleaved: u64,
    pub max_points: u64,
}

/// Depth-first enumeration of every schedule with at most `bound` preemptions.
/// `check` returns false to stop.
pub fn explore(programs: &[String], bound: usize, budget: u64, stats: &mut ExploreStats, check: &mut dyn FnMut(&Run, &[usize]) -> bool) -> bool {
    fn go(programs: &[String], prefix: Vec<usize>, bound: usize, budget: u64, stats: &mut ExploreStats, check: &mut dyn FnMut(&Run, &[usize]) -> bool) -> bool {
        let x = run_schedule(programs, &prefix, budget);
        stats.schedules += 1;
        stats.points += x.trace.len() as u64;
        stats.max_points = stats.max_points.max(x.trace.len() as u64);
        let choices: Vec<usize> = x.trace.iter().map(|p| p.chosen).collect();
        // did the instruction streams alternate?
        let mut switches = 0;
        for w in choices.windows(2) {
            if w[0] != w[1] {
                switches += 1;
            }
        }
        if switches >= 2 {
            stats.interleaved += 1;
        }
        if !check(&x, &choices) {
            return false;
        }
        let mut preemptions = 0usize;
        for i in 0..x.trace.len() {
            let p = &x.trace[i];
            if i >= prefix.len() {
                let cost = preemptions + if p.running.is_some() { 1 } else { 0 };
                if cost <= bound {
                    for alt in &p.enabled {
                        if *alt != p.chosen {
                            let mut next = choices[..i].to_vec();
                            next.push(*alt);
                            if !go(programs, next, bound, budget, stats, check) {
                                return false;
                            }
                        }
                    }
                }
            }
            if let Some(r) = p.running {
                if p.chosen != r {
                    preemptions += 1;
                }
            }
        }
        true
    }
    go(programs, Vec::new(), bound, budget, stats, check)
}
