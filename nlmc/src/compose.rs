//! Nesting templates (DESIGN 3.1): every ordered pair / triple of language constructs composed
//! ("Fi directly inside Fj inside Fk") around every minimal leaf, at top level and inside a function.

use crate::gen::*;
use nederlang::verif::{Expr, Operator, Stmt};

type Ctor = fn(Expr) -> Expr;

/// Constructs with one expression hole. Each returns an EXPRESSION (statement-like ones are wrapped in
/// an immediately applied function so that they can stand anywhere).
pub fn features() -> Vec<(&'static str, Ctor)> {
    vec![
        ("add-left", |h| infix(h, Operator::Add, int(1))),
        ("sub-right", |h| infix(int(10), Operator::Subtract, h)),
        ("sub-left", |h| infix(h, Operator::Subtract, int(1))),
        ("mul-var", |h| infix(id("a"), Operator::Multiply, h)),
        ("less", |h| infix(h, Operator::Lt, int(3))),
        ("equal", |h| infix(h, Operator::Eq, h_clone_free())),
        ("negate", |h| neg(h)),
        ("not", |h| prefix(Operator::Not, h)),
        ("and", |h| infix(boolean(true), Operator::And, h)),
        ("assign", |h| assign(id("v"), h)),
        ("op-assign", |h| op_assign("v", Operator::Add, h)),
        ("declare", |h| call(func("", &[], vec![let_("w", h), es(id("w"))]), vec![])),
        ("if-value", |h| iff(boolean(true), vec![es(h)], None)),
        ("if-cond", |h| iff(h, vec![es(int(1))], Some(vec![es(int(2))]))),
        ("else-value", |h| iff(infix(id("a"), Operator::Lt, int(0)), vec![es(int(1))], Some(vec![es(h)]))),
        (
            "loop-body",
            |h| {
                call(
                    func(
                        "",
                        &[],
                        vec![
                            let_("k", int(0)),
                            let_("t", int(0)),
                            es(whil(infix(id("k"), Operator::Lt, int(2)), vec![es(op_assign("k", Operator::Add, int(1))), es(assign(id("t"), h))])),
                            es(id("t")),
                        ],
                    ),
                    vec![],
                )
            },
        ),
        // the loop is the value of the function: its last body statement is an assignment to a local
        (
            "loop-value",
            |h| call(func("", &[], vec![let_("k", int(0)), let_("t", int(0)), es(whil(infix(id("k"), Operator::Lt, int(2)), vec![es(op_assign("k", Operator::Add, int(1))), es(assign(id("t"), h))]))]), vec![]),
        ),
        ("empty-function", |h| array(vec![call(func("", &["q"], vec![]), vec![h]), int(1)])),
        ("loop-cond", |h| call(func("", &[], vec![let_("k", int(0)), es(whil(h, vec![es(op_assign("k", Operator::Add, int(1))), Stmt::Break])), es(id("k"))]), vec![])),
        ("function-body", |h| call(func("", &[], vec![es(h)]), vec![])),
        ("return", |h| call(func("", &[], vec![Stmt::Return(h), es(int(0))]), vec![])),
        ("argument", |h| calln("f1", vec![h])),
        ("second-argument", |h| calln("f2", vec![int(1), h])),
        ("function-as-argument", |h| calln("ap", vec![id("f1"), h])),
        ("parameter", |h| call(func("", &["q"], vec![es(infix(id("q"), Operator::Add, id("q")))]), vec![h])),
        ("array-element", |h| array(vec![int(1), h])),
        ("index-of-literal", |h| index(array(vec![h, int(2)]), int(0))),
        ("index-key", |h| index(id("arr"), h)),
        ("index-store", |h| assign(index(id("arr"), int(0)), h)),
        ("string-index", |h| index(string("abc"), h)),
        ("string", |h| calln("string", vec![h])),
        ("lengte", |h| calln("lengte", vec![array(vec![h])])),
        ("print", |h| calln("print", vec![string("<{}>"), h])),
        ("type", |h| calln("type", vec![h])),
        ("int", |h| calln("int", vec![h])),
        ("bool", |h| calln("bool", vec![h])),
        ("block", |h| call(func("", &[], vec![Stmt::Block(vec![let_("z", int(1)), es(h)])]), vec![])),
    ]
}

fn h_clone_free() -> Expr {
    int(1)
}

pub fn leaves() -> Vec<Expr> {
    vec![int(1), id("a"), flt(1.5), string("s"), boolean(true), array(vec![int(1), int(2)]), id("f1"), id("arr"), id("v"), neg(int(2))]
}

pub fn prelude() -> Vec<Stmt> {
    vec![
        es(func("f1", &["x"], vec![es(infix(id("x"), Operator::Add, int(1)))])),
        es(func("f2", &["x", "y"], vec![es(infix(id("x"), Operator::Subtract, id("y")))])),
        es(func("ap", &["g", "x"], vec![es(calln("g", vec![id("x")]))])),
        let_("a", int(3)),
        let_("v", int(5)),
        let_("arr", array(vec![int(7), int(8), int(9)])),
    ]
}

/// Streams every composition of `depth` features around every leaf; `local` puts the expression into a
/// function body whose parameter shadows the global `a` (locals, fused opcodes).
pub fn for_each(depth: usize, f: &mut dyn FnMut(&[&'static str], &[Stmt]) -> bool) -> bool {
    let feats = features();
    let lv = leaves();
    let n = feats.len();
    let total = n.pow(depth as u32);
    for code in 0..total {
        let mut idx = Vec::with_capacity(depth);
        let mut c = code;
        for _ in 0..depth {
            idx.push(c % n);
            c /= n;
        }
        let names: Vec<&'static str> = idx.iter().map(|i| feats[*i].0).collect();
        for leaf in &lv {
            let mut e = leaf.clone();
            for i in &idx {
                e = (feats[*i].1)(e);
            }
            for local in [false, true] {
                let mut prog = prelude();
                if local {
                    prog.push(es(call(func("", &["a"], vec![let_("v", int(5)), es(e.clone()), ]), vec![int(4)])));
                } else {
                    prog.push(es(e.clone()));
                }
                prog.push(es(calln("print", vec![id("v"), id("arr")])));
                if !f(&names, &prog) {
                    return false;
                }
            }
        }
    }
    true
}
