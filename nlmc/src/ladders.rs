//! Size ladders with a value oracle: programs whose code size, jump distances, constant / global / local
//! counts and function entry offsets cross the 8-, 12- and 16-bit boundaries of the instruction format.
//! Every rung is compared with the reference interpreter (C05's ladders only demand "no crash"); the
//! rungs around the point where the real compiler starts to refuse ("te groot") are enumerated one by one,
//! so a truncated or wrapped operand shows up as a wrong value, a wrong path or a hang.

use crate::bcmc;
use crate::common::{describe, known_input, parse_guarded, Parsed};
use crate::gen::*;
use crate::outcome::{disagree, run_ast, ImplEnd, RunOpts};
use crate::printer;
use crate::refint::{End, ErrKind, Interp};
use crate::shard::{Shard, Tier};
use nederlang::compiler::Compiler;
use nederlang::verif::{Expr, Operator, Stmt};
use serde_json::json;

pub struct Ladder {
    pub family: &'static str,
    /// which aspect the rung exercises: "control", "calls", "scope", "consts"
    pub tag: &'static str,
    pub m: usize,
    /// from this m on the compiler may refuse the program as too large (U9); below it the value is demanded
    pub limit_from: usize,
    pub prog: Vec<Stmt>,
}

fn pads(m: usize, distinct: bool) -> Vec<Stmt> {
    (0..m).map(|i| es(int(if distinct { 1000 + i as i64 } else { 1 }))).collect()
}

/// The rung sizes: around every power of two, plus every size in the windows where the 16-bit limits are crossed.
pub fn sizes(tier: Tier, windows: &[(usize, usize)]) -> Vec<usize> {
    let kmax = if tier == Tier::Quick { 14 } else { 16 };
    let mut v: Vec<usize> = Vec::new();
    for k in 1..=kmax {
        let n = 1usize << k;
        v.extend([n - 1, n, n + 1]);
    }
    v.extend([20, 21, 25, 26, 42, 43, 51, 52, 85, 86, 5461, 5462, 3276, 3277]);
    for (a, b) in windows {
        v.extend(*a..=*b);
    }
    v.sort();
    v.dedup();
    v
}

fn sum_of(names: &[String]) -> Expr {
    let mut e = id(&names[0]);
    for n in &names[1..] {
        e = infix(e, Operator::Add, id(n));
    }
    e
}

/// Streams the ladder programs (one alive at a time).
pub fn each(tier: Tier, tag_filter: Option<&str>, f: &mut dyn FnMut(&Ladder) -> bool) -> bool {
    let want = |t: &str| tag_filter.map(|x| x == t).unwrap_or(true);
    macro_rules! emit {
        ($family:expr, $tag:expr, $m:expr, $limit:expr, $prog:expr) => {
            if want($tag) {
                let l = Ladder { family: $family, tag: $tag, m: $m, limit_from: $limit, prog: $prog };
                if !f(&l) {
                    return false;
                }
            }
        };
    }
    // ---- control: jump distances. A pad statement is 4 bytes of code (Const + Pop).
    if want("control") {
        // two padded branches: 8 bytes per rung; the 64 KiB limit is crossed near m = 8190
        for m in sizes(tier, &[(8170, 8200), (16370, 16395)]) {
            if m > 17_000 {
                continue;
            }
            for (c, distinct) in [(true, false), (false, false), (false, true)] {
                emit!(
                    "if-long-branches",
                    "control",
                    m,
                    8_000,
                    vec![
                        let_("r", iff(boolean(c), { let mut b = pads(m, distinct); b.push(es(int(11))); b }, Some({ let mut b = pads(m, distinct); b.push(es(int(22))); b }))),
                        es(array(vec![id("r"), int(5)])),
                    ]
                );
            }
            // else-if chain of m links: the taken one is the last
            if m <= 4_100 {
                let mut e = iff(infix(id("x"), Operator::Eq, int(m as i64)), vec![es(int(m as i64 * 2))], Some(vec![es(neg(int(1)))]));
                for k in (0..m).rev() {
                    e = iff(infix(id("x"), Operator::Eq, int(k as i64)), vec![es(int(k as i64 * 2))], Some(vec![es(e)]));
                }
                if m <= 400 {
                    emit!("else-if-chain", "control", m, 100_000, vec![let_("x", int(m as i64)), let_("r", e), es(array(vec![id("r"), int(5)]))]);
                }
            }
            // a loop with a long body, volgende before the padding and stop after it
            emit!(
                "loop-long-body",
                "control",
                m,
                8_000,
                vec![
                    let_("i", int(0)),
                    let_("s", int(0)),
                    es(whil(boolean(true), {
                        let mut b = vec![
                            es(op_assign("i", Operator::Add, int(1))),
                            es(iff(infix(id("i"), Operator::Eq, int(2)), vec![Stmt::Continue], None)),
                        ];
                        b.extend(pads(m, false));
                        b.push(es(iff(infix(id("i"), Operator::Gte, int(4)), vec![Stmt::Break], None)));
                        b.extend(pads(m, false));
                        b.push(es(op_assign("s", Operator::Add, id("i"))));
                        b
                    })),
                    es(array(vec![id("i"), id("s")])),
                ]
            );
            // m branches / loops one after the other (not nested)
            if m <= 4_200 {
                let mut p = vec![let_("s", int(0)), let_("c", boolean(true))];
                for i in 0..m {
                    p.push(match i % 3 {
                        0 => es(iff(id("c"), vec![es(op_assign("s", Operator::Add, int(1)))], None)),
                        1 => es(iff(infix(id("s"), Operator::Lt, int(0)), vec![es(op_assign("s", Operator::Add, int(100)))], Some(vec![es(op_assign("s", Operator::Add, int(2)))]))),
                        _ => es(whil(id("c"), vec![es(op_assign("s", Operator::Add, int(3))), Stmt::Break])),
                    });
                }
                p.push(es(array(vec![id("s"), int(5)])));
                emit!("sequential-branches", "control", m, 3_000, p);
            }
            // early return over a long tail, inside a function that itself starts after m pads
            emit!(
                "early-return-long-tail",
                "control",
                m,
                8_000,
                {
                    let mut p = pads(m, false);
                    p.push(es(func("f", &["x"], {
                        let mut b = vec![es(iff(id("x"), vec![Stmt::Return(int(1))], None))];
                        b.extend(pads(m, false));
                        b.push(es(int(2)));
                        b
                    })));
                    p.push(es(array(vec![calln("f", vec![boolean(true)]), calln("f", vec![boolean(false)]), int(5)])));
                    p
                }
            );
        }
    }
    // ---- calls: function entry offsets and frame sizes
    if want("calls") {
        for m in sizes(tier, &[(16360, 16400)]) {
            if m > 17_000 {
                continue;
            }
            // the function object's entry offset: m pads before the definition, called after it
            emit!("function-entry-offset", "calls", m, 16_000, {
                let mut p = pads(m, false);
                p.push(es(func("f", &["x", "y"], vec![es(infix(id("x"), Operator::Subtract, id("y")))])));
                p.push(es(func("g", &["x"], vec![es(infix(calln("f", vec![id("x"), int(1)]), Operator::Multiply, int(2)))])));
                p.push(es(array(vec![calln("g", vec![int(10)]), calln("f", vec![int(3), int(4)])])));
                p
            });
        }
        // m functions (m function constants, m entry offsets), the first, the middle and the last called
        for m in sizes(tier, &[(250, 260)]) {
            if m > 4_200 {
                continue;
            }
            let mut p: Vec<Stmt> = (0..m).map(|i| es(func(&format!("f{i}"), &["x"], vec![es(infix(id("x"), Operator::Add, int(i as i64)))]))).collect();
            p.push(es(array(vec![calln("f0", vec![int(1)]), calln(&format!("f{}", m / 2), vec![int(1)]), calln(&format!("f{}", m - 1), vec![calln("f0", vec![int(5)])])])));
            emit!("many-functions", "calls", m, 3_000, p);
        }
        // m locals, all summed (and the first / last read again after the sum)
        for m in sizes(tier, &[(250, 260)]) {
            if m > 2_100 {
                continue;
            }
            let names: Vec<String> = (0..m).map(|i| format!("l{i}")).collect();
            let mut body: Vec<Stmt> = names.iter().enumerate().map(|(i, n)| let_(n, infix(id("p"), Operator::Add, int(i as i64)))).collect();
            body.push(es(array(vec![sum_of(&names), id(&names[0]), id(&names[m - 1]), id("p")])));
            emit!("many-locals", "calls", m, 100_000, vec![es(func("f", &["p"], body)), es(array(vec![int(7), calln("f", vec![int(100)]), int(8)]))]);
        }
        // (6 bytes of code per declaration: the 64 KiB code limit is crossed near m = 10 900, far below 65 536 slots)
        for m in sizes(tier, &[(10_890, 10_935)]) {
            if m < 3_000 || m > 17_000 {
                continue;
            }
            let names: Vec<String> = (0..m).map(|i| format!("l{i}")).collect();
            let mut body: Vec<Stmt> = names.iter().map(|n| let_(n, int(1))).collect();
            body.push(es(assign(id(&names[m - 1]), int(5))));
            body.push(es(array(vec![id(&names[0]), id(&names[m / 2]), id(&names[m - 1]), id("p")])));
            emit!("many-locals-big", "calls", m, 10_000, vec![es(func("f", &["p"], body)), es(array(vec![int(7), calln("f", vec![int(100)]), int(8)]))]);
        }
    }
    // ---- scope: global slots and block nesting
    if want("scope") {
        for m in sizes(tier, &[(250, 260)]) {
            if m > 2_100 {
                continue;
            }
            let names: Vec<String> = (0..m).map(|i| format!("g{i}")).collect();
            let mut p: Vec<Stmt> = names.iter().enumerate().map(|(i, n)| let_(n, int(i as i64 + 1))).collect();
            p.push(es(func("rd", &[], vec![es(array(vec![id(&names[0]), id(&names[m / 2]), id(&names[m - 1])]))])));
            p.push(es(assign(id(&names[m - 1]), neg(int(5)))));
            p.push(es(array(vec![sum_of(&names), calln("rd", vec![])])));
            emit!("many-globals", "scope", m, 100_000, p);
        }
        for m in sizes(tier, &[(10_890, 10_935)]) {
            if m < 3_000 || m > 17_000 {
                continue;
            }
            let names: Vec<String> = (0..m).map(|i| format!("g{i}")).collect();
            let mut p: Vec<Stmt> = names.iter().map(|n| let_(n, int(1))).collect();
            p.push(es(func("rd", &[], vec![es(array(vec![id(&names[0]), id(&names[m / 2]), id(&names[m - 1])]))])));
            p.push(es(assign(id(&names[m - 1]), neg(int(5)))));
            p.push(es(assign(id(&names[0]), int(9))));
            p.push(es(calln("rd", vec![])));
            emit!("many-globals-big", "scope", m, 10_000, p);
        }
        // names of every length around each power of two that share all but their last character (and one that
        // is a strict prefix): each must resolve to its own variable, as a global and as a local
        for m in sizes(tier, &[]) {
            if m > 4_100 {
                continue;
            }
            let stem: String = (0..m).map(|i| (b'a' + (i % 26) as u8) as char).collect();
            let (n1, n2, n3, n4) = (format!("{stem}a"), format!("{stem}b"), stem.clone(), format!("{stem}_"));
            let decls = vec![let_(&n1, int(1)), let_(&n2, int(2)), let_(&n3, int(3)), let_(&n4, int(4))];
            let mut p = decls.clone();
            p.push(es(assign(id(&n2), int(20))));
            p.push(es(array(vec![id(&n1), id(&n2), id(&n3), id(&n4)])));
            emit!("similar-names", "scope", m, 100_000, p);
            let mut body = decls.clone();
            body.push(es(assign(id(&n3), int(30))));
            body.push(es(array(vec![id(&n1), id(&n2), id(&n3), id(&n4)])));
            emit!("similar-names", "scope", m, 100_000, vec![let_(&n1, int(100)), es(func("f", &[], body)), es(array(vec![calln("f", vec![]), id(&n1)]))]);
        }
        // m sibling blocks one after the other, each with its own locals (slots are reused, nothing accumulates),
        // at top level and inside a function
        for m in sizes(tier, &[(250, 260), (498, 503)]) {
            if m > 4_200 {
                continue;
            }
            let blocks = |acc: &str| -> Vec<Stmt> {
                (0..m)
                    .map(|i| Stmt::Block(vec![let_("t", int(i as i64 % 7)), let_("u", infix(id("t"), Operator::Add, int(1))), es(assign(id(acc), infix(id(acc), Operator::Add, id("u"))))]))
                    .collect()
            };
            let mut p = vec![let_("s", int(0))];
            p.extend(blocks("s"));
            p.push(let_("after", int(5)));
            p.push(es(array(vec![id("s"), id("after")])));
            emit!("sibling-blocks", "scope", m, 2_400, p);
            let mut body = vec![let_("s", int(0))];
            body.extend(blocks("s"));
            body.push(let_("after", int(5)));
            body.push(es(array(vec![id("s"), id("after")])));
            emit!("sibling-blocks", "scope", m, 2_400, vec![es(func("f", &[], body)), es(array(vec![int(7), calln("f", vec![]), int(8)]))]);
        }
        // nested blocks, one local per level, innermost reads all of them
        for m in (1..=40).chain([63, 64, 65, 127, 128, 129, 255, 256, 257, 400]) {
            for in_func in [false, true] {
                let names: Vec<String> = (0..m).map(|i| format!("b{i}")).collect();
                let mut inner: Vec<Stmt> = vec![let_(&names[m - 1], int(m as i64)), es(assign(id("out"), array(vec![sum_of(&names), id(&names[0]), id(&names[m - 1])])))];
                for k in (0..m - 1).rev() {
                    inner = vec![let_(&names[k], int(k as i64 + 1)), Stmt::Block(inner), es(assign(id(&names[k]), int(0)))];
                }
                let prog = if in_func {
                    vec![let_("out", int(0)), es(func("f", &[], vec![Stmt::Block(inner), let_("after", int(3)), es(id("after"))])), es(array(vec![calln("f", vec![]), id("out")]))]
                } else {
                    vec![let_("out", int(0)), Stmt::Block(inner), let_("after", int(3)), es(array(vec![id("after"), id("out")]))]
                };
                emit!("nested-blocks", "scope", m, 480, prog);
            }
        }
    }
    // ---- consts: constant-pool indices
    if want("consts") {
        // string and number constants that agree in all but their last character / digit
        for m in sizes(tier, &[]) {
            if m > 4_100 {
                continue;
            }
            let stem: String = (0..m).map(|i| (b'a' + (i % 26) as u8) as char).collect();
            let v = vec![string(&format!("{stem}a")), string(&format!("{stem}b")), string(&stem), string(&format!("{stem}a")), string(&format!("{stem}é"))];
            let mut p = vec![let_("x", array(v.clone()))];
            p.push(es(assign(index(id("x"), int(0)), string("changed"))));
            p.push(es(array(vec![id("x"), array(v)])));
            emit!("similar-constants", "consts", m, 100_000, p.clone());
            emit!("similar-constants-local", "consts", m, 100_000, vec![es(call(func("", &[], p), vec![]))]);
        }
        for digits in 1..=17usize {
            let stem: String = (0..digits).map(|i| (b'1' + (i % 9) as u8) as char).collect();
            let a: i64 = format!("{stem}1").parse().unwrap();
            let b: i64 = format!("{stem}2").parse().unwrap();
            let c: i64 = stem.parse().unwrap();
            let fl = |t: &str| flt(t.parse::<f64>().unwrap());
            let p = vec![es(array(vec![int(a), int(b), int(c), int(a), fl(&format!("{stem}.25")), fl(&format!("{stem}.5")), fl(&format!("0.{stem}1")), fl(&format!("0.{stem}2"))]))];
            emit!("similar-constants", "consts", digits, 100_000, p.clone());
            emit!("similar-constants-local", "consts", digits, 100_000, vec![es(call(func("", &[], p), vec![]))]);
        }
        for m in sizes(tier, &[(250, 260), (65_520, 65_545)]) {
            for kind in 0..3 {
                if kind > 0 && m > 5_000 {
                    continue;
                }
                let lit = |i: usize| match kind {
                    0 => int(10_000 + i as i64),
                    1 => flt(i as f64 + 0.5),
                    _ => string(&format!("s{i}")),
                };
                let elems: Vec<Expr> = (0..m).map(lit).collect();
                let mut p = vec![let_("a", array(elems))];
                // the same literals again after the pool has grown: they must denote the same values
                p.push(es(array(vec![index(id("a"), int(0)), index(id("a"), int(m as i64 / 2)), index(id("a"), int(m as i64 - 1)), lit(0), lit(m / 2), lit(m - 1), calln("lengte", vec![id("a")])])));
                emit!("many-constants", "consts", m, 60_000, p.clone());
                if m <= 5_000 {
                    emit!("many-constants-local", "consts", m, 60_000, vec![es(call(func("", &[], p), vec![]))]);
                }
            }
        }
    }
    true
}

fn opts() -> RunOpts {
    RunOpts { budget: Some(50_000_000), ledger: false, trace: false, render: true }
}

/// Differential run of one rung; with `static_check` also the abstract stack machine of its bytecode.
pub fn check(sh: &mut Shard, class: &str, l: &Ladder, static_check: bool) {
    let text = printer::program(&l.prog);
    let ast = match parse_guarded(&text) {
        Parsed::Ok(a) => a,
        Parsed::Err(_) | Parsed::Panic(_) => {
            // deeper than the parser's nesting limit: outside the ladder's claim
            sh.count("skipped:does-not-parse");
            return;
        }
    };
    if ast.as_slice() != l.prog.as_slice() {
        sh.machinery(format!("ladder program of family {} (m = {}) does not parse back to itself", l.family, l.m));
        return;
    }
    crate::refint::set_model_fuel(40_000_000);
    let model = Interp::eval(&ast);
    crate::refint::set_model_fuel(crate::refint::MODEL_FUEL);
    let imp = run_ast(&ast, opts());
    sh.outcome(&(&imp.end, &imp.output));
    if !matches!(model.end, End::Value(_)) {
        sh.machinery(format!("the model does not give a value for the ladder family {} (m = {}): {}", l.family, l.m, crate::common::model_end_text(&model.end)));
        return;
    }
    if matches!(imp.end, ImplEnd::Error(ErrKind::Syntax)) && imp.output.is_empty() && l.m >= l.limit_from {
        sh.count("excluded:U9-too-large");
        return;
    }
    sh.nontrivial(&text);
    sh.count("ladder-rungs-compared");
    if let Some(why) = disagree(&model, &imp) {
        if !known_input(sh, &text) {
            let mut d = describe(&text, &model, &imp);
            d["family"] = json!(l.family);
            d["m"] = json!(l.m);
            d["ladder"] = json!({"family": l.family, "m": l.m});
            if text.len() > 600 {
                // the replay file keeps the recipe, not 400 KB of text
                let cut = (0..=300).rev().find(|i| text.is_char_boundary(*i)).unwrap_or(0);
                d["program"] = json!(format!("{} … ({} characters; regenerate with family and m)", &text[..cut], text.len()));
            }
            sh.violation(class, d, why);
        }
        return;
    }
    if static_check {
        if let Ok(Ok(bc)) = std::panic::catch_unwind(|| Compiler::new().compile_ast(&ast)) {
            let ops = bcmc::optable();
            let g = bcmc::explore(&bc, &ops);
            sh.add("states", g.states.len() as u64);
            sh.add("transitions", g.transitions);
            if let Some(fd) = g.findings.first() {
                sh.violation(
                    class,
                    json!({"ladder": {"family": l.family, "m": l.m}, "finding": fd.kind, "at": fd.ip, "detail": fd.detail}),
                    format!("abstract stack machine of a ladder program: {} — {}", fd.kind, fd.detail),
                );
            }
        }
    }
}

/// Runs the rungs with the given tag that belong to this shard.
pub fn run_family(sh: &mut Shard, class: &str, tag: Option<&str>, static_check: bool) {
    let tier = sh.cfg.tier;
    each(tier, tag, &mut |l| {
        if sh.mine() {
            let (fam, m) = (l.family, l.m);
            sh.begin(&|| format!("ladder {fam} m={m}"));
            sh.count(&format!("family:ladder-{}", l.tag));
            check(sh, class, l, static_check);
        }
        sh.running()
    });
}

/// Replay of a recorded ladder case ({"ladder": {"family", "m"}}).
pub fn replay(sh: &mut Shard, class: &str, case: &serde_json::Value) -> bool {
    let (Some(fam), Some(m)) = (case["ladder"]["family"].as_str(), case["ladder"]["m"].as_u64()) else { return false };
    let mut found = false;
    each(Tier::Thorough, None, &mut |l| {
        if l.family == fam && l.m as u64 == m {
            found = true;
            check(sh, class, l, true);
        }
        true
    });
    found
}
