//! Printing syntax trees back to source text, with minimal parentheses computed from the
//! *documented* precedence table (README / property C07), not from the parser.

use nederlang::verif::{Expr, Operator, Stmt};

/// Documented binding strength of an infix operator (higher binds tighter).
pub fn prec(op: &Operator) -> u8 {
    use Operator::*;
    match op {
        Multiply | Divide | Modulo => 6,
        Add | Subtract => 5,
        Lt | Lte | Gt | Gte => 4,
        Eq | Neq => 3,
        And | Or => 2,
        Assign => 1,
        Not | Negate => 7,
    }
}

pub fn op_text(op: &Operator) -> &'static str {
    use Operator::*;
    match op {
        Add => "+",
        Subtract => "-",
        Multiply => "*",
        Divide => "/",
        Modulo => "%",
        Gt => ">",
        Gte => ">=",
        Lt => "<",
        Lte => "<=",
        Eq => "==",
        Neq => "!=",
        And => "&&",
        Or => "||",
        Not => "!",
        Negate => "-",
        Assign => "=",
    }
}

pub fn escape_string(s: &str) -> String {
    let mut o = String::with_capacity(s.len() + 2);
    o.push('"');
    for c in s.chars() {
        match c {
            '"' => o.push_str("\\\""),
            '\\' => o.push_str("\\\\"),
            '\n' => o.push_str("\\n"),
            '\t' => o.push_str("\\t"),
            c => o.push(c),
        }
    }
    o.push('"');
    o
}

pub fn float_text(f: f64) -> String {
    // the lexer knows digits '.' digits only; Display for f64 never uses an exponent
    let s = format!("{}", f);
    if s.contains('.') || s.contains("inf") || s.contains("NaN") {
        s
    } else {
        format!("{s}.0")
    }
}

/// Layout knobs. The default puts one space in every gap, `;` after every non-block statement
/// and `,` between list items.
#[derive(Clone)]
pub struct Layout {
    /// separator between tokens where one is needed
    pub gap: String,
    /// text after a statement that is not the last of its list
    pub stmt_sep: String,
    /// text between list items
    pub item_sep: String,
    /// print `anders als` chains without braces where the tree allows it
    pub else_if_sugar: bool,
    /// print `a = a op e` as `a op= e` where the tree allows it
    pub op_assign_sugar: bool,
}

impl Default for Layout {
    fn default() -> Self {
        Layout {
            gap: " ".into(),
            stmt_sep: "; ".into(),
            item_sep: ", ".into(),
            else_if_sugar: false,
            op_assign_sugar: false,
        }
    }
}

fn is_atomic(e: &Expr) -> bool {
    matches!(
        e,
        Expr::Int { .. }
            | Expr::Float { .. }
            | Expr::Bool { .. }
            | Expr::String { .. }
            | Expr::Identifier(_)
            | Expr::Call { .. }
            | Expr::Index { .. }
            | Expr::Array { .. }
    )
}

pub fn program(stmts: &[Stmt]) -> String {
    program_with(stmts, &Layout::default())
}

pub fn program_with(stmts: &[Stmt], l: &Layout) -> String {
    let mut s = String::new();
    stmt_list(stmts, l, &mut s);
    s
}

fn stmt_list(stmts: &[Stmt], l: &Layout, s: &mut String) {
    for (i, st) in stmts.iter().enumerate() {
        stmt(st, l, s);
        if i + 1 < stmts.len() {
            match st {
                Stmt::Block(_) => s.push_str(&l.gap),
                _ => s.push_str(&l.stmt_sep),
            }
        }
    }
}

fn block(stmts: &[Stmt], l: &Layout, s: &mut String) {
    s.push('{');
    if !stmts.is_empty() {
        s.push_str(&l.gap);
        stmt_list(stmts, l, s);
        s.push_str(&l.gap);
    }
    s.push('}');
}

pub fn stmt(st: &Stmt, l: &Layout, s: &mut String) {
    match st {
        Stmt::Expr(e) => expr(e, 0, l, s),
        Stmt::Block(b) => block(b, l, s),
        Stmt::Let(n, v) => {
            s.push_str("stel");
            s.push_str(&l.gap);
            s.push_str(n);
            s.push_str(&l.gap);
            s.push('=');
            s.push_str(&l.gap);
            expr(v, 0, l, s);
        }
        Stmt::Return(e) => {
            s.push_str("antwoord");
            s.push_str(&l.gap);
            expr(e, 0, l, s);
        }
        Stmt::Break => s.push_str("stop"),
        Stmt::Continue => s.push_str("volgende"),
    }
}

pub fn expr_text(e: &Expr) -> String {
    let mut s = String::new();
    expr(e, 0, &Layout::default(), &mut s);
    s
}

/// `min`: the weakest binding strength that may appear here without parentheses.
/// 0 = anything (statement / initialiser / argument / parenthesised position).
pub fn expr(e: &Expr, min: u8, l: &Layout, s: &mut String) {
    match e {
        Expr::Int { value } => {
            if *value < 0 {
                // a negative literal node has no spelling; generators never produce one
                s.push_str(&format!("(0 - {})", (*value as i128).unsigned_abs()));
            } else {
                s.push_str(&value.to_string())
            }
        }
        Expr::Float { value } => s.push_str(&float_text(*value)),
        Expr::Bool { value } => s.push_str(if *value { "ja" } else { "nee" }),
        Expr::String { value } => s.push_str(&escape_string(value)),
        Expr::Identifier(n) => s.push_str(n),
        Expr::Prefix { operator, right } => {
            let paren = min > 0;
            if paren {
                s.push('(');
            }
            s.push_str(op_text(operator));
            if is_atomic(right) {
                expr(right, 8, l, s);
            } else {
                s.push('(');
                expr(right, 0, l, s);
                s.push(')');
            }
            if paren {
                s.push(')');
            }
        }
        Expr::Infix {
            left,
            operator,
            right,
        } => {
            let p = prec(operator);
            let paren = p < min;
            if paren {
                s.push('(');
            }
            expr(left, p, l, s);
            s.push_str(&l.gap);
            s.push_str(op_text(operator));
            s.push_str(&l.gap);
            expr(right, p + 1, l, s);
            if paren {
                s.push(')');
            }
        }
        Expr::Assign { left, right } => {
            let paren = min > 0;
            if paren {
                s.push('(');
            }
            let mut sugared = false;
            if l.op_assign_sugar {
                if let (Expr::Identifier(n), Expr::Infix { left: il, operator, right: ir }) = (&**left, &**right) {
                    if matches!(&**il, Expr::Identifier(m) if m == n) {
                        s.push_str(n);
                        s.push_str(&l.gap);
                        s.push_str(op_text(operator));
                        s.push('=');
                        s.push_str(&l.gap);
                        expr(ir, 0, l, s);
                        sugared = true;
                    }
                }
            }
            if !sugared {
                expr(left, 8, l, s);
                s.push_str(&l.gap);
                s.push('=');
                s.push_str(&l.gap);
                // the right-hand side is parsed above the level of `=`: another assignment needs parentheses
                expr(right, 2, l, s);
            }
            if paren {
                s.push(')');
            }
        }
        Expr::If {
            condition,
            consequence,
            alternative,
        } => {
            let paren = min > 0;
            if paren {
                s.push('(');
            }
            s.push_str("als");
            s.push_str(&l.gap);
            expr(condition, 0, l, s);
            s.push_str(&l.gap);
            block(consequence, l, s);
            if let Some(a) = alternative {
                s.push_str(&l.gap);
                s.push_str("anders");
                s.push_str(&l.gap);
                let chain = l.else_if_sugar && a.len() == 1 && matches!(&a[0], Stmt::Expr(Expr::If { .. }));
                if chain {
                    if let Stmt::Expr(inner) = &a[0] {
                        expr(inner, 0, l, s);
                    }
                } else {
                    block(a, l, s);
                }
            }
            if paren {
                s.push(')');
            }
        }
        Expr::While { condition, body } => {
            let paren = min > 0;
            if paren {
                s.push('(');
            }
            s.push_str("zolang");
            s.push_str(&l.gap);
            expr(condition, 0, l, s);
            s.push_str(&l.gap);
            block(body, l, s);
            if paren {
                s.push(')');
            }
        }
        Expr::Function {
            name,
            parameters,
            body,
        } => {
            let paren = min > 0;
            if paren {
                s.push('(');
            }
            s.push_str("functie");
            if !name.is_empty() {
                s.push(' ');
                s.push_str(name);
            }
            s.push('(');
            for (i, p) in parameters.iter().enumerate() {
                if i > 0 {
                    s.push_str(&l.item_sep);
                }
                s.push_str(p);
            }
            s.push(')');
            s.push_str(&l.gap);
            block(body, l, s);
            if paren {
                s.push(')');
            }
        }
        Expr::Call { left, arguments } => {
            match &**left {
                Expr::Identifier(n) => s.push_str(n),
                other => {
                    s.push('(');
                    expr(other, 0, l, s);
                    s.push(')');
                }
            }
            s.push('(');
            for (i, a) in arguments.iter().enumerate() {
                if i > 0 {
                    s.push_str(&l.item_sep);
                }
                expr(a, 0, l, s);
            }
            s.push(')');
        }
        Expr::Array { values } => {
            s.push('[');
            for (i, a) in values.iter().enumerate() {
                if i > 0 {
                    s.push_str(&l.item_sep);
                }
                expr(a, 0, l, s);
            }
            s.push(']');
        }
        Expr::Index { left, index } => {
            expr(left, 8, l, s);
            s.push('[');
            expr(index, 0, l, s);
            s.push(']');
        }
    }
}
