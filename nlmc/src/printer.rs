//! Printing syntax trees back to source text: first to a token list, with minimal parentheses
//! computed from the *documented* precedence table (README / property C07), not from the parser;
//! then to text by choosing what goes into the gaps between tokens.

use nederlang::verif::{Expr, Operator, Stmt};

/// Documented binding strength of an infix operator (higher binds tighter).
pub fn prec(op: &Operator) -> u8 {
    use Operator::*;
    match op {
        Multiply | Divide | Modulo => 6,
        Add | Subtract => 5,
        Lt | Lte | Gt | Gte => 4,
        Eq | Neq => 3,
        And | Or => 2,
        Assign => 1,
        Not | Negate => 7,
    }
}

pub fn op_text(op: &Operator) -> &'static str {
    use Operator::*;
    match op {
        Add => "+",
        Subtract => "-",
        Multiply => "*",
        Divide => "/",
        Modulo => "%",
        Gt => ">",
        Gte => ">=",
        Lt => "<",
        Lte => "<=",
        Eq => "==",
        Neq => "!=",
        And => "&&",
        Or => "||",
        Not => "!",
        Negate => "-",
        Assign => "=",
    }
}

pub fn escape_string(s: &str) -> String {
    let mut o = String::with_capacity(s.len() + 2);
    o.push('"');
    for c in s.chars() {
        match c {
            '"' => o.push_str("\\\""),
            '\\' => o.push_str("\\\\"),
            '\n' => o.push_str("\\n"),
            '\t' => o.push_str("\\t"),
            c => o.push(c),
        }
    }
    o.push('"');
    o
}

pub fn float_text(f: f64) -> String {
    // the lexer knows digits '.' digits only; Display for f64 never uses an exponent
    let s = format!("{}", f);
    if s.contains('.') || s.contains("inf") || s.contains("NaN") {
        s
    } else {
        format!("{s}.0")
    }
}

#[derive(Clone, Copy, PartialEq, Debug)]
pub enum TokKind {
    Normal,
    /// a `;` after a statement that the grammar lets one leave out here
    OptSemi,
    /// a `,` between list items that the grammar lets one leave out here
    OptComma,
    /// a `;` / `,` that is needed to keep the next item apart (the next item starts with ( [ or -)
    Needed,
}

#[derive(Clone, Debug)]
pub struct Tok {
    pub text: String,
    pub kind: TokKind,
}

#[derive(Clone, Default)]
pub struct Style {
    /// print `anders als` chains without braces where the tree allows it
    pub else_if_sugar: bool,
    /// print `a = a op e` as `a op= e` where the tree allows it
    pub op_assign_sugar: bool,
    /// wrap the n-th expression node (pre-order) in redundant parentheses
    pub wrap_nth: Option<usize>,
}

struct Emit<'s> {
    toks: Vec<Tok>,
    style: &'s Style,
    expr_counter: usize,
}

fn is_atomic(e: &Expr) -> bool {
    matches!(
        e,
        Expr::Int { .. }
            | Expr::Float { .. }
            | Expr::Bool { .. }
            | Expr::String { .. }
            | Expr::Identifier(_)
            | Expr::Call { .. }
            | Expr::Index { .. }
            | Expr::Array { .. }
    )
}

/// First token of the printed form of an expression (to decide whether a separator may be dropped).
fn starts_open(e: &Expr, min: u8) -> bool {
    match e {
        Expr::Array { .. } => true,
        Expr::Prefix { operator, .. } => min > 0 || matches!(operator, Operator::Subtract | Operator::Negate),
        Expr::Int { value } => *value < 0,
        Expr::Infix { left, operator, .. } => prec(operator) < min || starts_open(left, prec(operator)),
        Expr::Assign { left, .. } => min > 0 || starts_open(left, 8),
        Expr::Index { left, .. } => starts_open(left, 8),
        Expr::Call { left, .. } => !matches!(&**left, Expr::Identifier(_)),
        Expr::If { .. } | Expr::While { .. } | Expr::Function { .. } => min > 0,
        _ => false,
    }
}

fn stmt_starts_open(s: &Stmt) -> bool {
    match s {
        Stmt::Expr(e) => starts_open(e, 0),
        _ => false,
    }
}

impl<'s> Emit<'s> {
    fn t(&mut self, s: &str) {
        self.toks.push(Tok { text: s.to_string(), kind: TokKind::Normal });
    }
    fn k(&mut self, s: &str, kind: TokKind) {
        self.toks.push(Tok { text: s.to_string(), kind });
    }

    fn stmt_list(&mut self, stmts: &[Stmt]) {
        for (i, st) in stmts.iter().enumerate() {
            self.stmt(st);
            if i + 1 < stmts.len() {
                let needed = stmt_starts_open(&stmts[i + 1]);
                match st {
                    Stmt::Block(_) if !needed => {}
                    _ => self.k(";", if needed { TokKind::Needed } else { TokKind::OptSemi }),
                }
            }
        }
    }

    fn block(&mut self, stmts: &[Stmt]) {
        self.t("{");
        self.stmt_list(stmts);
        self.t("}");
    }

    fn stmt(&mut self, st: &Stmt) {
        match st {
            Stmt::Expr(e) => self.expr(e, 0),
            Stmt::Block(b) => self.block(b),
            Stmt::Let(n, v) => {
                self.t("stel");
                self.t(n);
                self.t("=");
                self.expr(v, 0);
            }
            Stmt::Return(e) => {
                self.t("antwoord");
                self.expr(e, 0);
            }
            Stmt::Break => self.t("stop"),
            Stmt::Continue => self.t("volgende"),
        }
    }

    fn list(&mut self, items: &[Expr]) {
        for (i, a) in items.iter().enumerate() {
            if i > 0 {
                let needed = starts_open(a, 0);
                self.k(",", if needed { TokKind::Needed } else { TokKind::OptComma });
            }
            self.expr(a, 0);
        }
    }

    /// `min`: the weakest binding strength that may appear here without parentheses.
    /// 0 = anything (statement / initialiser / argument / parenthesised position).
    fn expr(&mut self, e: &Expr, min: u8) {
        let n = self.expr_counter;
        self.expr_counter += 1;
        if self.style.wrap_nth == Some(n) {
            self.t("(");
            self.expr_inner(e, 0);
            self.t(")");
        } else {
            self.expr_inner(e, min);
        }
    }

    fn expr_inner(&mut self, e: &Expr, min: u8) {
        match e {
            Expr::Int { value } => {
                if *value < 0 {
                    // a negative literal node has no spelling; generators never produce one
                    self.t("(");
                    self.t("0");
                    self.t("-");
                    self.t(&(*value as i128).unsigned_abs().to_string());
                    self.t(")");
                } else {
                    self.t(&value.to_string())
                }
            }
            Expr::Float { value } => self.t(&float_text(*value)),
            Expr::Bool { value } => self.t(if *value { "ja" } else { "nee" }),
            Expr::String { value } => self.t(&escape_string(value)),
            Expr::Identifier(n) => self.t(n),
            Expr::Prefix { operator, right } => {
                let paren = min > 0;
                if paren {
                    self.t("(");
                }
                self.t(op_text(operator));
                if is_atomic(right) {
                    self.expr(right, 8);
                } else {
                    self.t("(");
                    self.expr(right, 0);
                    self.t(")");
                }
                if paren {
                    self.t(")");
                }
            }
            Expr::Infix { left, operator, right } => {
                let p = prec(operator);
                let paren = p < min;
                if paren {
                    self.t("(");
                }
                self.expr(left, p);
                self.t(op_text(operator));
                self.expr(right, p + 1);
                if paren {
                    self.t(")");
                }
            }
            Expr::Assign { left, right } => {
                let paren = min > 0;
                if paren {
                    self.t("(");
                }
                let mut sugared = false;
                if self.style.op_assign_sugar {
                    if let (Expr::Identifier(n), Expr::Infix { left: il, operator, right: ir }) = (&**left, &**right) {
                        if matches!(&**il, Expr::Identifier(m) if m == n) {
                            self.t(n);
                            // the two characters of `+=` are two tokens of the language (`+` `=`)
                            self.t(op_text(operator));
                            self.t("=");
                            self.expr_counter += 2;
                            self.expr(ir, 0);
                            sugared = true;
                        }
                    }
                }
                if !sugared {
                    self.expr(left, 8);
                    self.t("=");
                    // the right-hand side is parsed above the level of `=`: another assignment needs parentheses
                    self.expr(right, 2);
                }
                if paren {
                    self.t(")");
                }
            }
            Expr::If { condition, consequence, alternative } => {
                let paren = min > 0;
                if paren {
                    self.t("(");
                }
                self.t("als");
                self.expr(condition, 0);
                self.block(consequence);
                if let Some(a) = alternative {
                    self.t("anders");
                    let chain = self.style.else_if_sugar && a.len() == 1 && matches!(&a[0], Stmt::Expr(Expr::If { .. }));
                    if chain {
                        if let Stmt::Expr(inner) = &a[0] {
                            self.expr(inner, 0);
                        }
                    } else {
                        self.block(a);
                    }
                }
                if paren {
                    self.t(")");
                }
            }
            Expr::While { condition, body } => {
                let paren = min > 0;
                if paren {
                    self.t("(");
                }
                self.t("zolang");
                self.expr(condition, 0);
                self.block(body);
                if paren {
                    self.t(")");
                }
            }
            Expr::Function { name, parameters, body } => {
                let paren = min > 0;
                if paren {
                    self.t("(");
                }
                self.t("functie");
                if !name.is_empty() {
                    self.t(name);
                }
                self.t("(");
                for (i, p) in parameters.iter().enumerate() {
                    if i > 0 {
                        self.k(",", TokKind::OptComma);
                    }
                    self.t(p);
                }
                self.t(")");
                self.block(body);
                if paren {
                    self.t(")");
                }
            }
            Expr::Call { left, arguments } => {
                match &**left {
                    Expr::Identifier(_) => self.expr(left, 8),
                    other => {
                        self.t("(");
                        self.expr(other, 0);
                        self.t(")");
                    }
                }
                self.t("(");
                self.list(arguments);
                self.t(")");
            }
            Expr::Array { values } => {
                self.t("[");
                self.list(values);
                self.t("]");
            }
            Expr::Index { left, index } => {
                self.expr(left, 8);
                self.t("[");
                self.expr(index, 0);
                self.t("]");
            }
        }
    }
}

pub fn tokens_with(stmts: &[Stmt], style: &Style) -> Vec<Tok> {
    let mut e = Emit { toks: Vec::new(), style, expr_counter: 0 };
    e.stmt_list(stmts);
    e.toks
}

pub fn tokens(stmts: &[Stmt]) -> Vec<Tok> {
    tokens_with(stmts, &Style::default())
}

/// Number of expression nodes (for enumerating redundant-parenthesis positions).
pub fn count_exprs(stmts: &[Stmt]) -> usize {
    let style = Style::default();
    let mut e = Emit { toks: Vec::new(), style: &style, expr_counter: 0 };
    e.stmt_list(stmts);
    e.expr_counter
}

/// Joins tokens for reading: one space in every gap except the customary tight ones.
pub fn join_pretty(toks: &[Tok]) -> String {
    let mut s = String::new();
    for (i, t) in toks.iter().enumerate() {
        if i > 0 {
            let prev = toks[i - 1].text.as_str();
            let cur = t.text.as_str();
            let tight = matches!(cur, "," | ";" | ")" | "]")
                || matches!(prev, "(" | "[")
                || (cur == "(" && is_word(prev) && !is_keyword(prev))
                || (cur == "[" && is_word(prev) && !is_keyword(prev))
                || (matches!(prev, "-" | "!") && i >= 2 && is_prefix_position(&toks[i - 2].text))
                || (matches!(prev, "-" | "!") && i == 1);
            if !tight {
                s.push(' ');
            }
        }
        s.push_str(&t.text);
    }
    s
}

fn is_word(s: &str) -> bool {
    s.chars().next().map(|c| c.is_alphabetic() || c == '_').unwrap_or(false)
}

fn is_keyword(s: &str) -> bool {
    matches!(s, "als" | "anders" | "antwoord" | "functie" | "zolang" | "stel" | "ja" | "nee" | "stop" | "volgende")
}

fn is_prefix_position(before: &str) -> bool {
    matches!(
        before,
        "(" | "[" | "," | ";" | "=" | "{" | "+" | "-" | "*" | "/" | "%" | "<" | ">" | "<=" | ">=" | "==" | "!=" | "&&" | "||" | "!"
            | "antwoord" | "als" | "zolang"
    )
}

/// Joins tokens with exactly one space in every gap.
pub fn join_spaced(toks: &[Tok]) -> String {
    toks.iter().map(|t| t.text.as_str()).collect::<Vec<_>>().join(" ")
}

pub fn program(stmts: &[Stmt]) -> String {
    join_pretty(&tokens(stmts))
}

pub fn program_styled(stmts: &[Stmt], style: &Style) -> String {
    join_pretty(&tokens_with(stmts, style))
}

pub fn expr_text(e: &Expr) -> String {
    let style = Style::default();
    let mut em = Emit { toks: Vec::new(), style: &style, expr_counter: 0 };
    em.expr(e, 0);
    join_pretty(&em.toks)
}

/// May these two tokens stand next to each other with nothing in between, by the documented token
/// shapes (maximal munch)? Decided from the spellings, not from the lexer.
pub fn may_touch(a: &str, b: &str) -> bool {
    let la = a.chars().last().unwrap_or(' ');
    let fb = b.chars().next().unwrap_or(' ');
    let wordish = |c: char| c.is_alphanumeric() || c == '_';
    if wordish(la) && wordish(fb) {
        return false;
    }
    // a number followed by a dot-led or digit-led token, and a dot after digits
    if la.is_ascii_digit() && fb == '.' {
        return false;
    }
    if la == '.' && fb.is_ascii_digit() {
        return false;
    }
    // two-character operators and the comment marker
    let pair = format!("{la}{fb}");
    if matches!(pair.as_str(), "==" | "!=" | "<=" | ">=" | "&&" | "||" | "//") {
        return false;
    }
    true
}
