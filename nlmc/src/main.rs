//! nlmc — bounded-exhaustive model checking of the Nederlang interpreter (see /verif/DESIGN.md).

mod astx;
mod bcmc;
mod cliprof;
mod common;
mod compose;
mod gcprog;
mod gen;
mod heapmc;
mod ladders;
mod outcome;
mod pool;
mod printer;
mod props;
mod refint;
mod sched;
mod shard;
mod slices;

use serde_json::{json, Value};
use shard::{Cfg, Shard, Tier};
use std::time::Instant;

fn usage() -> ! {
    eprintln!(
        "usage:\n  nlmc check <ID> [--tier quick|thorough] [--seed N]\n  nlmc replay <ID> <file>\n  nlmc worker <ID> <tier> <seed> <shard> <nshards> [--from I] [--skip a,b] [--step]\n  nlmc selftest"
    );
    std::process::exit(2)
}

fn parse_tier(s: &str) -> Tier {
    match s {
        "quick" => Tier::Quick,
        "thorough" => Tier::Thorough,
        _ => usage(),
    }
}

/// Everything that touches the interpreter runs on a thread with a large stack, so that the
/// model's recursion and the interpreter's own recursion are bounded by budgets, not by luck.
fn on_big_stack<F: FnOnce() + Send + 'static>(stack: usize, f: F) {
    let h = std::thread::Builder::new()
        .stack_size(stack)
        .spawn(f)
        .expect("spawn big-stack thread");
    if h.join().is_err() {
        std::process::exit(3);
    }
}

/// The harness built with debug assertions and overflow checks (./check runs private copies of both
/// builds, so a rebuild during a run cannot swap the executable under the pool).
fn devchk_exe() -> std::path::PathBuf {
    std::env::var_os("NLMC_DEVCHK").map(std::path::PathBuf::from).unwrap_or_else(|| std::path::PathBuf::from("/verif/.target/devchk/nlmc"))
}

fn main() {
    // one brk-based malloc arena that never trims: per-case allocation churn otherwise turns into
    // one mprotect/munmap per case, which is very slow with 16 processes inside a VM
    unsafe {
        // a closed stdout (`| head`) ends the process quietly
        libc::signal(libc::SIGPIPE, libc::SIG_DFL);
        libc::mallopt(libc::M_ARENA_MAX, 1);
        libc::mallopt(libc::M_TRIM_THRESHOLD, i32::MAX);
        libc::mallopt(libc::M_TOP_PAD, 64 << 20);
        libc::mallopt(libc::M_MMAP_THRESHOLD, 32 << 20);
    }
    let args: Vec<String> = std::env::args().collect();
    if args.len() < 2 {
        usage();
    }
    match args[1].as_str() {
        "worker" => worker(&args[2..]),
        "check" => check(&args[2..]),
        "replay" => replay(&args[2..]),
        "selftest" => selftest(),
        "table16" => props::c16::table_dump_main(parse_tier(args.get(2).map(|s| s.as_str()).unwrap_or("quick")), args.get(3).and_then(|s| s.parse().ok()).unwrap_or(0), args.get(4).map(|s| s.as_str()).unwrap_or("/verif/.target/tmp/table16.txt")),
        "exp17" => {
            outcome::install_quiet_panic_hook();
            props::c17::exp_bfs(args.get(2).map(|s| s.as_str()).unwrap_or(""), args.get(3).and_then(|s| s.parse().ok()).unwrap_or(6))
        }
        "solo16" => props::c16::solo_main(args.get(2).and_then(|s| s.parse().ok()).unwrap_or(0)),
        _ => usage(),
    }
}

fn worker(a: &[String]) {
    if a.len() < 5 {
        usage();
    }
    let id = a[0].clone();
    let cfg = Cfg { tier: parse_tier(&a[1]), seed: a[2].parse().unwrap_or(0) };
    let shard: u64 = a[3].parse().unwrap_or(0);
    let n: u64 = a[4].parse().unwrap_or(1);
    let mut sh = Shard::new(&id, cfg, shard, n);
    let mut i = 5;
    while i < a.len() {
        match a[i].as_str() {
            "--from" => {
                sh.from = a[i + 1].parse().unwrap_or(0);
                i += 1;
            }
            "--skip" => {
                sh.skip = a[i + 1].split(',').filter_map(|x| x.parse().ok()).collect();
                i += 1;
            }
            "--step" => sh.step_mode = true,
            _ => {}
        }
        i += 1;
    }
    let p = match props::find(&id) {
        Some(p) => p,
        None => usage(),
    };
    outcome::install_quiet_panic_hook();
    on_big_stack(p.stack_bytes(), move || {
        (p.run)(&mut sh);
        sh.finish();
    });
}

fn replay(a: &[String]) {
    if a.len() < 2 {
        usage();
    }
    let id = a[0].clone();
    let p = match props::find(&id) {
        Some(p) => p,
        None => usage(),
    };
    let text = std::fs::read_to_string(&a[1]).unwrap_or_else(|e| {
        eprintln!("cannot read {}: {e}", a[1]);
        std::process::exit(2)
    });
    let v: Value = serde_json::from_str(&text).unwrap_or_else(|e| {
        eprintln!("cannot parse {}: {e}", a[1]);
        std::process::exit(2)
    });
    let tier = v["tier"].as_str().map(parse_tier).unwrap_or(Tier::Quick);
    let seed = v["seed"].as_u64().unwrap_or(0);
    outcome::install_quiet_panic_hook();
    on_big_stack(p.stack_bytes(), move || {
        let mut sh = Shard::new(&id, Cfg { tier, seed }, 0, 1);
        sh.verbose = true;
        sh.known.clear();
        println!("replaying {} case (recorded detail: {})", id, v["detail"]);
        if v["case"]["ladder"].is_object() {
            // a size-ladder rung: the file keeps the recipe (family, m), not the text
            sh.mine();
            if !ladders::replay(&mut sh, "replay", &v["case"]) {
                eprintln!("no ladder rung matches the recorded family and size");
                std::process::exit(2);
            }
        } else {
            (p.replay)(&mut sh, &v["case"]);
        }
        if sh.violations.is_empty() {
            println!("replay: the property HOLDS on this case now");
            std::process::exit(0);
        } else {
            println!("replay: the violation REPRODUCES");
            std::process::exit(1);
        }
    });
}

fn check(a: &[String]) {
    if a.is_empty() {
        usage();
    }
    let id = a[0].clone();
    let mut tier = std::env::var("VERIF_TIER").ok().map(|t| parse_tier(&t)).unwrap_or(Tier::Quick);
    let mut seed: u64 = std::env::var("VERIF_SEED").ok().and_then(|s| s.parse().ok()).unwrap_or(0);
    let mut i = 1;
    while i < a.len() {
        match a[i].as_str() {
            "--tier" => {
                tier = parse_tier(&a[i + 1]);
                i += 1;
            }
            "--seed" => {
                seed = a[i + 1].parse().unwrap_or(0);
                i += 1;
            }
            _ => usage(),
        }
        i += 1;
    }
    let p = match props::find(&id) {
        Some(p) => p,
        None => {
            eprintln!("unknown property {id}");
            std::process::exit(2)
        }
    };
    let cfg = Cfg { tier, seed };
    let pc = pool::PoolCfg::for_tier(tier);
    let t0 = Instant::now();
    let mut res = pool::run_pool(&id, &cfg, &pc);
    if p.both_profiles() {
        // the same enumeration on the harness built with debug assertions and overflow checks
        let dev = devchk_exe();
        if !dev.exists() {
            eprintln!("MACHINERY: {} is missing (./check builds it for this property)", dev.display());
            std::process::exit(2);
        }
        let mut pc2 = pool::PoolCfg::for_tier(tier);
        pc2.exe = Some(dev);
        let res2 = pool::run_pool(&id, &cfg, &pc2);
        res.summaries.extend(res2.summaries);
        res.violations.extend(res2.violations);
        res.machinery.extend(res2.machinery);
        res.deaths.extend(res2.deaths);
        res.complete = res.complete && res2.complete;
    }
    let merged = pool::merge(&res.summaries);
    let wall = t0.elapsed().as_secs_f64();

    // violations: reported by workers, plus cases that killed or hung a worker
    let mut violations: Vec<Value> = res.violations.clone();
    let mut profile_table = (0usize, 0usize, 0usize);
    if p.both_profiles() {
        // the (case, outcome) tables written by the two builds must be the same set
        let read = |dev: bool| -> std::collections::HashSet<u64> {
            let mut set = std::collections::HashSet::new();
            for s in &res.summaries {
                if s["debug_assertions"].as_bool() == Some(dev) {
                    if let Some(path) = s["pair_file"].as_str() {
                        if let Ok(bytes) = std::fs::read(path) {
                            for c in bytes.chunks_exact(8) {
                                set.insert(u64::from_le_bytes(c.try_into().unwrap()));
                            }
                        }
                    }
                }
            }
            set
        };
        let (rel, dev) = (read(false), read(true));
        let diff = rel.symmetric_difference(&dev).count();
        profile_table = (rel.len(), dev.len(), diff);
        if diff > 0 {
            // name the programs: dump the table under both builds and compare line by line
            let mut differing: Vec<Value> = Vec::new();
            if id == "C16" {
                let dir = "/verif/.target/tmp";
                let (fr, fd) = (format!("{dir}/table16-rel.txt"), format!("{dir}/table16-dev.txt"));
                let _ = std::process::Command::new(std::env::current_exe().expect("current exe")).args(["table16", tier.name(), &seed.to_string(), &fr]).status();
                let _ = std::process::Command::new(devchk_exe()).args(["table16", tier.name(), &seed.to_string(), &fd]).status();
                if let (Ok(a), Ok(b)) = (std::fs::read_to_string(&fr), std::fs::read_to_string(&fd)) {
                    for (la, lb) in a.lines().zip(b.lines()) {
                        if la != lb && differing.len() < 8 {
                            let (ta, oa) = la.split_once('\t').unwrap_or((la, ""));
                            let (_, ob) = lb.split_once('\t').unwrap_or((lb, ""));
                            differing.push(json!({"program": ta, "release": oa, "debug": ob}));
                        }
                    }
                }
            }
            violations.push(json!({
                "index": 0, "class": "profiles",
                "case": {"table": "profile-tables", "differing_programs": differing},
                "detail": format!("{diff} (program, outcome) entries differ between the release-like build ({} entries) and the debug-assertion build ({} entries): evaluation depends on the build profile", rel.len(), dev.len()),
            }));
        }
    }
    for s in &res.summaries {
        if let Some(path) = s["pair_file"].as_str() {
            let _ = std::fs::remove_file(path);
        }
    }
    violations.extend(res.deaths.iter().cloned());
    violations.sort_by_key(|v| v["index"].as_u64().unwrap_or(u64::MAX));

    let exhaustive = res.complete && res.machinery.is_empty() && merged.caps_hit.is_empty() && res.deaths.is_empty();
    let (known, fixed) = shard::load_known_findings("/verif/known_findings.jsonl");

    // evidence
    let mut coverage = json!({
        "evaluations": merged.cases,
        "distinct_nontrivial": merged.distinct_cases.min(merged.nontrivial),
        "nontrivial_cases": merged.nontrivial,
        "distinct_is_exact": merged.distinct_exact,
        "rule": p.rule,
        "samples": merged.samples,
        "exhaustive": exhaustive,
        "enumerated_indices": merged.enumerated,
        "distinct_outcomes": merged.distinct_outcomes,
        "counters": merged.counters,
        "caps_hit": merged.caps_hit,
        "known_finding_hits": merged.known_hits,
        "worker_processes": pc.nshards,
        "worker_deaths": res.deaths.len(),
    });
    if p.both_profiles() {
        coverage["profile_table_entries_release"] = json!(profile_table.0);
        coverage["profile_table_entries_debug"] = json!(profile_table.1);
        coverage["profile_table_differences"] = json!(profile_table.2);
    }
    if p.level == "model_checking" {
        coverage["states"] = json!(merged.counters.get("states").copied().unwrap_or(0));
        coverage["transitions"] = json!(merged.counters.get("transitions").copied().unwrap_or(0));
        coverage["traces_validated_against_impl"] = json!(merged.counters.get("traces_validated_against_impl").copied().unwrap_or(0));
    }
    let evidence = json!({
        "property_id": id,
        "tier": tier.name(),
        "seed": seed,
        "level": p.level,
        "coverage": coverage,
        "assumptions": p.assumptions,
        "wall_s": wall,
        "violations": violations.len(),
        "fixed_findings_recorded": fixed.iter().filter(|f| f.contains(&format!("property={id}"))).count(),
    });
    let _ = std::fs::create_dir_all("/verif/evidence");
    let epath = format!("/verif/evidence/{id}.json");
    if let Err(e) = std::fs::write(&epath, serde_json::to_string_pretty(&evidence).unwrap() + "\n") {
        eprintln!("cannot write {epath}: {e}");
        std::process::exit(2);
    }

    println!(
        "{id} {}: {} cases ({} non-trivial, {} distinct, {} distinct outcomes) in {:.1} s over {} workers; exhaustive={}",
        tier.name(),
        merged.cases,
        merged.nontrivial,
        merged.distinct_cases,
        merged.distinct_outcomes,
        wall,
        pc.nshards,
        exhaustive
    );
    for (k, v) in &merged.counters {
        println!("  {k} = {v}");
    }

    for (fid, n) in &merged.known_hits {
        let what = known.iter().find(|f| &f.id == fid).map(|f| f.what.clone()).unwrap_or_default();
        println!("KNOWN-FINDING: property={id} {fid} {what} ({n} cases)");
    }

    if !violations.is_empty() {
        let _ = std::fs::create_dir_all("/verif/replays");
        let mut seen = std::collections::HashSet::new();
        let mut printed = 0;
        for v in violations.iter() {
            let key = serde_json::to_string(&v["case"]).unwrap_or_default();
            if !seen.insert(key) {
                continue;
            }
            printed += 1;
            if printed > 10 {
                continue;
            }
            let path = format!("/verif/replays/{id}-{}-{}.json", tier.name(), printed);
            let mut r = v.clone();
            r["property"] = json!(id);
            r["tier"] = json!(tier.name());
            r["seed"] = json!(seed);
            let _ = std::fs::write(&path, serde_json::to_string_pretty(&r).unwrap() + "\n");
            println!("  why: {}", v["detail"].as_str().unwrap_or(""));
            println!("  case: {}", serde_json::to_string(&v["case"]).unwrap_or_default().chars().take(400).collect::<String>());
            println!("VIOLATION property={id} replay={path}");
        }
        let all = format!("/verif/replays/{id}-{}-all.json", tier.name());
        let _ = std::fs::write(&all, serde_json::to_string_pretty(&violations).unwrap());
        println!("{} violating cases in total ({} distinct); complete list in {all}", violations.len(), seen.len());
        std::process::exit(1);
    }
    if !res.machinery.is_empty() || !res.complete {
        for m in &res.machinery {
            eprintln!("MACHINERY: {m}");
        }
        eprintln!("MACHINERY: the run did not complete; no verdict");
        std::process::exit(2);
    }
    if let Some(why) = (p.vacuity)(&merged) {
        eprintln!("MACHINERY: vacuous run: {why}");
        std::process::exit(2);
    }
    std::process::exit(0);
}

fn selftest() {
    outcome::install_quiet_panic_hook();
    on_big_stack(1 << 30, || {
        let bad = props::c01::selftest_model();
        if bad > 0 {
            eprintln!("selftest: {bad} reference-model expectations failed");
            std::process::exit(2);
        }
        println!("selftest ok");
    });
}
