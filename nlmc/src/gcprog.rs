//! Programs that allocate, under the shadow heap: collector post-conditions at every collection,
//! liveness at every dereference, the ledger after the run, and (C04) every abort point.

use crate::common::{describe, differential};
use crate::outcome::{run_ast, ImplEnd, RunOpts};
use crate::printer;
use crate::refint::End;
use crate::shard::Shard;
use nederlang::verif::{self, Stmt};
use serde_json::json;

pub const BUDGET: u64 = 20_000;

/// C03-class events: a reachable value was released / observed after release / released twice.
pub fn c03_events(heap: &[String]) -> Vec<&String> {
    heap.iter()
        .filter(|h| h.starts_with("use-after-free") || h.starts_with("reachable-freed") || h.starts_with("double-free") || h.starts_with("dead-result"))
        .collect()
}

/// C04-class events: garbage survived a collection / something was released twice.
pub fn c04_events(heap: &[String]) -> Vec<&String> {
    heap.iter().filter(|h| h.starts_with("unreachable-survivor") || h.starts_with("double-free") || h.starts_with("dead-result")).collect()
}

pub struct ProgStats {
    pub steps: u64,
    pub collections: u64,
    pub collections_with_live: u64,
    pub freed_something: u64,
}

/// Full run of one program: returns None if skipped (does not parse back).
pub fn check_full(sh: &mut Shard, which: &str, family: &str, prog: &[Stmt]) -> Option<ProgStats> {
    let budget = if family == "corpus" || family == "replay" || family == "count-ladder" { 50_000_000 } else { BUDGET };
    let r = differential(sh, "semantics-under-gc", prog, RunOpts { budget: Some(budget), ledger: true, trace: false, render: true })?;
    let steps = verif::steps();
    let gs = verif::gc_stats_take();
    sh.add("collections", gs.runs);
    sh.add("collections-with-live-object", gs.runs_with_live);
    sh.add("collections-that-freed", gs.runs_that_freed);
    sh.max("managed-objects", gs.max_managed as u64);
    let text = printer::program(prog);
    let bad: Vec<&String> = if which == "C03" { c03_events(&r.imp.heap) } else { c04_events(&r.imp.heap) };
    if !bad.is_empty() && !crate::common::known_input(sh, &text) {
        sh.violation(
            "heap",
            json!({"family": family, "program": text, "events": r.imp.heap}),
            format!("{}: {:?}", if which == "C03" { "a reachable value was released or observed after release" } else { "the collector kept garbage or released something twice" }, bad),
        );
    }
    if which == "C04" && r.imp.leaked > 0 && !matches!(r.imp.end, ImplEnd::Panic(_)) && !crate::common::known_input(sh, &text) {
        sh.violation(
            "leak",
            json!({"family": family, "program": text, "outcome": describe(&text, &r.model, &r.imp)}),
            format!("{} box(es) allocated by the run were never released (after the caller released the result)", r.imp.leaked),
        );
    }
    if matches!(r.model.end, End::Unspec(_)) {
        sh.count("unspecified-but-heap-checked");
    }
    Some(ProgStats { steps, collections: gs.runs, collections_with_live: gs.runs_with_live, freed_something: gs.runs_that_freed })
}

/// Every abort point of one program: the run is cut after k instructions for every k < n.
pub fn check_abort_points(sh: &mut Shard, family: &str, prog: &[Stmt], n: u64) {
    let text = printer::program(prog);
    let ast: Vec<Stmt> = prog.to_vec();
    for k in 0..n {
        let r = run_ast(&ast, RunOpts { budget: Some(k), ledger: true, trace: false, render: false });
        sh.count("abort-points");
        match r.end {
            ImplEnd::Budget => {}
            // the program failed by itself before k: later k repeat the same run
            _ => break,
        }
        let bad = c04_events(&r.heap);
        let uaf = c03_events(&r.heap);
        if (r.leaked > 0 || !bad.is_empty() || !uaf.is_empty()) && !crate::common::known_input(sh, &text) {
            sh.violation(
                "abort-point",
                json!({"family": family, "program": text, "abort_after_instructions": k, "events": r.heap, "leaked": r.leaked}),
                format!("cut after {k} instructions: {} box(es) left behind, events {:?}", r.leaked, r.heap),
            );
            break;
        }
    }
}

/// Allocation-count ladders: N heap objects created without a function return in between (so without a
/// collection), for N around every power of two: floats, strings and arrays as garbage, as a growing live
/// structure, and as a wide live array; followed by nothing, by a call (one collection facing N dead or N live
/// objects), by a run-time error, or with the error in the last iteration.
/// See `count_ladder_programs`: a function that allocates n objects in a loop, called while its callers hold
/// fresh heap values on the operand stack only.
fn callers_hold_program(n: usize) -> Vec<Stmt> {
    use crate::gen::*;
    use nederlang::verif::Operator;
    let ni = n as i64;
    vec![
        es(func(
            "vul",
            &["n"],
            vec![let_("i", int(0)), es(whil(infix(id("i"), Operator::Lt, id("n")), vec![let_("t", array(vec![calln("float", vec![id("i")])])), es(op_assign("i", Operator::Add, int(1)))])), es(id("i"))],
        )),
        es(func("eerste", &["a", "b"], vec![es(id("a"))])),
        es(func("buiten", &["n"], vec![let_("x", infix(flt(1.5), Operator::Multiply, flt(2.0))), let_("s", calln("string", vec![id("n")])), es(calln("vul", vec![id("n")])), es(array(vec![id("x"), id("s")]))])),
        es(func("dieper", &["n"], vec![let_("y", array(vec![infix(flt(2.5), Operator::Multiply, flt(2.0))])), es(array(vec![calln("buiten", vec![id("n")]), id("y")]))])),
        let_("r1", array(vec![infix(flt(1.5), Operator::Multiply, flt(2.0)), calln("vul", vec![int(ni)]), calln("string", vec![int(7)])])),
        let_("r2", calln("eerste", vec![infix(flt(2.5), Operator::Multiply, flt(2.0)), calln("vul", vec![int(ni)])])),
        let_("r3", calln("dieper", vec![int(ni)])),
        es(array(vec![id("r1"), id("r2"), id("r3")])),
    ]
}

pub fn count_ladder_programs(tier: crate::shard::Tier) -> Vec<(usize, Vec<Stmt>)> {
    use crate::gen::*;
    use nederlang::verif::Operator;
    let kmax = if tier == crate::shard::Tier::Quick { 14 } else { 17 };
    let mut sizes: Vec<usize> = vec![0, 1, 2, 3, 5, 6, 10, 12, 100, 1000, 3000, 5000, 6000, 10_000];
    for k in 2..=kmax {
        let n = 1usize << k;
        sizes.extend([n - 1, n, n + 1]);
    }
    sizes.sort();
    sizes.dedup();
    let mut out = Vec::new();
    // the big end: hundreds of thousands to a million objects between two collections, for the few shapes
    // that can get there in a second: garbage floats, and a linked list with the link FIRST and with the link
    // LAST in each cell (how much is pending during marking depends on that order); afterwards an array literal
    // made of temporaries, a call, and a walk over the whole list
    {
        let mut big: Vec<usize> = vec![(1 << 17) - 1, 1 << 17, (1 << 17) + 1, (1 << 19) - 1, 1 << 19, (1 << 19) + 1, 600_000, 1_000_000, (1 << 21) + 1];
        if tier != crate::shard::Tier::Quick {
            big.extend([100_000, 200_000, (1 << 18) + 1, 300_000, (1 << 20) + 1, 3_000_000, (1 << 22) + 1]);
        }
        for n in big {
            let ni = n as i64;
            // garbage floats, then an array literal whose elements are temporaries, a call, a read-back
            out.push((
                n,
                vec![
                    let_("x", flt(1.5)),
                    let_("i", int(0)),
                    es(whil(infix(id("i"), Operator::Lt, int(ni)), vec![es(assign(id("x"), infix(id("x"), Operator::Multiply, flt(1.0)))), es(op_assign("i", Operator::Add, int(1)))])),
                    let_("lijst", array(vec![infix(id("x"), Operator::Add, flt(1.5)), calln("string", vec![id("i")]), array(vec![infix(id("x"), Operator::Add, flt(2.5))]), string("lit")])),
                    es(func("f", &["p"], vec![es(array(vec![id("p"), flt(2.5)]))])),
                    es(calln("f", vec![int(1)])),
                    let_("ander", array(vec![infix(id("x"), Operator::Multiply, flt(5.0)), calln("string", vec![int(7)])])),
                    es(array(vec![id("lijst"), id("ander")])),
                ],
            ));
            // the callee lets n objects pile up while its CALLERS hold fresh values only on the stack: as a pending
            // operand of a list literal, as an argument of an enclosing call, as a local of the calling function
            if n <= 1_100_000 {
                out.push((n, callers_hold_program(n)));
            }
            // a linked list, link last / link first, walked after a collection
            for link_last in [true, false] {
                if n > 1_100_000 {
                    continue;
                }
                let cell = if link_last { array(vec![infix(calln("float", vec![id("i")]), Operator::Add, flt(0.5)), id("l")]) } else { array(vec![id("l"), infix(calln("float", vec![id("i")]), Operator::Add, flt(0.5))]) };
                let (vi, li) = if link_last { (0, 1) } else { (1, 0) };
                out.push((
                    n,
                    vec![
                        let_("l", array(vec![])),
                        let_("i", int(0)),
                        es(whil(infix(id("i"), Operator::Lt, int(ni)), vec![es(op_assign("i", Operator::Add, int(1))), es(assign(id("l"), cell))])),
                        es(func("f", &["p"], vec![es(array(vec![id("p"), flt(2.5)]))])),
                        es(calln("f", vec![int(1)])),
                        let_("junk", array(vec![flt(9.5), string("j")])),
                        let_("som", flt(0.0)),
                        let_("k", int(0)),
                        let_("c", id("l")),
                        es(whil(
                            infix(calln("lengte", vec![id("c")]), Operator::Gt, int(0)),
                            vec![es(assign(id("som"), infix(id("som"), Operator::Add, index(id("c"), int(vi))))), es(assign(id("c"), index(id("c"), int(li)))), es(op_assign("k", Operator::Add, int(1)))],
                        )),
                        es(array(vec![id("som"), id("k")])),
                    ],
                ));
            }
        }
    }
    // the program's result is a root to the very end: a fresh heap value made by an expression statement, N live
    // objects, and then nothing but declarations whose initialisers call functions that return WITHOUT a value /
    // with one / not at all (every kind of return is a collection point; the result is what the caller gets)
    for n in [0usize, 1, 100, 255, 256, 257, 511, 512, 513, 600, 1023, 1024, 1025, 2049, 4097] {
        for result_kind in 0..3 {
            for tail_kind in 0..5 {
                let result = match result_kind {
                    0 => infix(flt(1.5), Operator::Add, flt(1.0)),
                    1 => array(vec![infix(calln("float", vec![id("i")]), Operator::Add, flt(0.5)), string("s")]),
                    _ => calln("string", vec![id("i")]),
                };
                let mut prog = vec![
                    es(func("klaar", &[], vec![let_("n", int(0))])),
                    es(func("leeg", &[], vec![])),
                    es(func("waarde", &[], vec![es(array(vec![flt(1.5)]))])),
                    es(func("binnen", &[], vec![let_("m", calln("klaar", vec![]))])),
                    let_("bewaar", array(vec![])),
                    let_("i", int(0)),
                    es(whil(infix(id("i"), Operator::Lt, int(n as i64)), vec![es(assign(id("bewaar"), array(vec![id("bewaar"), infix(calln("float", vec![id("i")]), Operator::Add, flt(0.5))]))), es(op_assign("i", Operator::Add, int(1)))])),
                    es(result),
                ];
                match tail_kind {
                    0 => {}
                    1 => prog.push(let_("y", calln("klaar", vec![]))),
                    2 => prog.push(let_("y", calln("leeg", vec![]))),
                    3 => prog.push(let_("y", calln("waarde", vec![]))),
                    _ => {
                        prog.push(let_("y", calln("binnen", vec![])));
                        prog.push(let_("z", array(vec![id("y"), calln("klaar", vec![])])));
                    }
                }
                out.push((n, prog));
            }
        }
    }
    for n in sizes.clone() {
        out.push((n, callers_hold_program(n)));
    }
    for n in sizes {
        let ni = n as i64;
        // two phases: N objects survive a first collection; then, nine times, fresh values are stored into
        // the OLD structures (an old array's element, the old chain's tail) and another collection runs
        // (whatever a collector assumes about old objects must survive writes into them)
        if n > 0 {
            let prog = vec![
                let_("a", array(vec![flt(0.5), string("oud")])),
                let_("keep", array(vec![int(0), int(0)])),
                let_("i", int(0)),
                es(whil(
                    infix(id("i"), Operator::Lt, int(ni)),
                    vec![es(op_assign("i", Operator::Add, int(1))), es(assign(id("keep"), array(vec![id("keep"), calln("string", vec![id("i")])])))],
                )),
                es(func("f", &["p"], vec![es(array(vec![id("p"), flt(2.5)]))])),
                es(calln("f", vec![int(1)])),
                let_("k", int(0)),
                es(whil(
                    infix(id("k"), Operator::Lt, int(9)),
                    vec![
                        es(op_assign("k", Operator::Add, int(1))),
                        es(assign(index(id("a"), int(0)), infix(index(id("a"), int(0)), Operator::Add, flt(1.0)))),
                        es(assign(index(id("a"), int(1)), calln("string", vec![id("k")]))),
                        es(assign(index(id("keep"), int(1)), array(vec![calln("string", vec![id("k")]), infix(index(id("a"), int(0)), Operator::Multiply, flt(3.0))]))),
                        es(id("k")),
                        es(calln("f", vec![id("k")])),
                        let_("ander", infix(index(id("a"), int(0)), Operator::Multiply, flt(5.0))),
                        es(calln("print", vec![string("{} {} {} {}"), index(id("a"), int(0)), index(id("a"), int(1)), index(id("keep"), int(1)), id("ander")])),
                    ],
                )),
                es(array(vec![index(id("a"), int(0)), index(id("a"), int(1)), index(id("keep"), int(1)), calln("lengte", vec![id("keep")])])),
            ];
            out.push((n, prog));
        }
        let bodies: Vec<(Vec<Stmt>, Vec<Stmt>)> = vec![
            // (declarations, loop body after the counter increment)
            (vec![let_("x", flt(0.0))], vec![es(assign(id("x"), infix(id("x"), Operator::Add, flt(1.0))))]),
            (vec![], vec![es(array(vec![string("abc")]))]),
            (vec![let_("a", array(vec![]))], vec![es(assign(id("a"), array(vec![id("a"), calln("string", vec![id("i")])])))]),
            (vec![let_("a", array(vec![flt(0.5)]))], vec![es(assign(index(id("a"), int(0)), infix(index(id("a"), int(0)), Operator::Add, flt(1.0))))]),
        ];
        for (decls, body) in bodies {
            let tails: Vec<Vec<Stmt>> = vec![
                vec![es(id("i"))],
                vec![es(func("f", &["p"], vec![es(array(vec![id("p"), flt(2.5)]))])), es(calln("f", vec![id("i")]))],
                vec![es(infix(int(1), Operator::Add, boolean(true)))],
            ];
            for (ti, tail) in tails.iter().enumerate() {
                let mut lb = vec![es(op_assign("i", Operator::Add, int(1)))];
                lb.extend(body.iter().cloned());
                let mut prog = decls.clone();
                prog.push(let_("i", int(0)));
                prog.push(es(whil(infix(id("i"), Operator::Lt, int(ni)), lb.clone())));
                prog.extend(tail.iter().cloned());
                out.push((n, prog));
                // the error inside the last iteration
                if ti == 0 && n > 0 {
                    let mut lb2 = lb.clone();
                    lb2.push(es(iff(infix(id("i"), Operator::Eq, int(ni)), vec![es(index(array(vec![int(1)]), int(5)))], None)));
                    let mut prog2 = decls.clone();
                    prog2.push(let_("i", int(0)));
                    prog2.push(es(whil(infix(id("i"), Operator::Lt, int(ni)), lb2)));
                    prog2.push(es(id("i")));
                    out.push((n, prog2));
                }
            }
        }
    }
    // big results with sharing: the value the caller gets has N distinct objects and one object that occurs
    // twice (met again only after the other N) — the caller releases every object exactly once
    {
        let mut ns: Vec<usize> = vec![0, 1, 2, 3, 10, 50, 200, 300, 1000, 2049, 3000, 4097];
        ns.extend(60..=140);
        for c in [256usize, 512, 1024] {
            ns.extend(c - 2..=c + 2);
        }
        if tier != crate::shard::Tier::Quick {
            ns.extend(141..=1100);
            ns.extend([8193usize, 10007, 16385]);
        }
        ns.sort();
        ns.dedup();
        for n in ns {
            for shape in 0..6 {
                let shared = if shape % 2 == 0 { string("gedeeld") } else { array(vec![flt(1.5), string("in")]) };
                let fill = |k: usize| -> Vec<verif::Expr> { (0..k).map(|i| if i % 3 == 2 { array(vec![flt(0.5)]) } else { string("a") }).collect() };
                let mut elems: Vec<verif::Expr> = Vec::new();
                match shape / 2 {
                    0 => {
                        elems.push(id("x"));
                        elems.extend(fill(n));
                        elems.push(id("x"));
                    }
                    1 => {
                        elems.extend(fill(n / 2));
                        elems.push(id("x"));
                        elems.extend(fill(n - n / 2));
                        elems.push(array(vec![id("x")]));
                    }
                    _ => {
                        elems.push(array(vec![id("x"), string("b")]));
                        elems.extend(fill(n));
                        elems.push(array(vec![array(vec![id("x")])]));
                        elems.push(id("x"));
                    }
                }
                out.push((n, vec![let_("x", shared), es(array(elems))]));
            }
        }
    }
    out
}

/// Dense ladder: EVERY count N up to a bound (not only the neighbours of powers of two) for the shapes in
/// which a loop's last value is the only reference to a fresh heap object: the loop as the tail of a function
/// whose result is bound by a declaration, as an initialiser, and as the last statement. A threshold anywhere
/// in the range is hit exactly.
pub fn dense_ladder(sh: &mut Shard, which: &str) {
    use crate::gen::*;
    use nederlang::verif::Operator;
    let bound: i64 = if sh.cfg.tier == crate::shard::Tier::Quick { 12_500 } else { 70_000 };
    for n in 0..=bound {
        for shape in 0..4 {
            if !sh.mine() {
                continue;
            }
            let lp = whil(
                infix(index(id("p"), int(0)), Operator::Lt, int(n)),
                vec![es(assign(id("p"), array(vec![infix(index(id("p"), int(0)), Operator::Add, int(1))])))],
            );
            let prog = match shape {
                0 => vec![es(func("tel", &[], vec![let_("p", array(vec![int(0)])), es(lp)])), let_("laatste", calln("tel", vec![])), es(id("laatste"))],
                1 => vec![let_("p", array(vec![int(0)])), let_("laatste", lp), es(id("laatste"))],
                // the program ends in a declaration: what eval returns is whatever value was popped last
                3 => vec![es(func("tel", &[], vec![let_("p", array(vec![int(0)])), es(lp)])), let_("laatste", calln("tel", vec![]))],
                _ => vec![let_("p", array(vec![int(0)])), es(lp)],
            };
            sh.begin(&|| format!("dense ladder n={n} shape {shape}"));
            sh.count("family:dense-ladder");
            let r = run_ast(&prog, RunOpts { budget: Some(50_000_000), ledger: true, trace: false, render: true });
            sh.nontrivial(&(n, shape));
            let bad = if which == "C03" { c03_events(&r.heap) } else { c04_events(&r.heap) };
            let dead = r.heap.iter().any(|e| e == "dead-result");
            let ok_end = matches!(r.end, ImplEnd::Value(_));
            if !bad.is_empty() || dead || !ok_end || (which == "C04" && r.leaked > 0) {
                sh.violation(
                    "heap",
                    json!({"family": "dense-ladder", "program": printer::program(&prog), "events": r.heap, "leaked": r.leaked}),
                    format!("n = {n}: end {}, heap events {:?}, {} box(es) left", crate::common::impl_end_text(&r.end), r.heap, r.leaked),
                );
                return;
            }
        }
    }
}

/// The ladder under the shadow heap; for C04 also cut short around every power-of-two instruction count.
pub fn count_ladder(sh: &mut Shard, which: &str) {
    let tier = sh.cfg.tier;
    dense_ladder(sh, which);
    if !sh.running() {
        return;
    }
    for (n, prog) in count_ladder_programs(tier) {
        if !sh.mine() {
            continue;
        }
        sh.begin(&|| format!("allocation ladder n={n}: {}", printer::program(&prog)));
        sh.count("family:count-ladder");
        crate::refint::set_model_fuel(40_000_000);
        if let Some(st) = check_full(sh, which, "count-ladder", &prog) {
            sh.nontrivial(&printer::program(&prog));
            if which == "C04" {
                let mut ks: Vec<u64> = Vec::new();
                let mut p = 1u64;
                // (the big-end programs run for tens of millions of instructions: every fourth power of two there)
                let big = st.steps > 3_000_000;
                let mut e = 0;
                while p <= st.steps {
                    // (big programs: only the very end; they run for tens of millions of instructions)
                    if !big {
                        ks.extend([p.saturating_sub(1), p, p + 1]);
                    }
                    p *= 2;
                    e += 1;
                }
                ks.extend([st.steps.saturating_sub(2), st.steps.saturating_sub(1)]);
                ks.retain(|k| *k < st.steps);
                ks.sort();
                ks.dedup();
                let text = printer::program(&prog);
                for k in ks {
                    // one heartbeat per abort point (a big program cut late runs for seconds)
                    sh.begin(&|| format!("allocation ladder n={n}, cut after {k} instructions"));
                    let r = run_ast(&prog, RunOpts { budget: Some(k), ledger: true, trace: false, render: false });
                    sh.count("abort-points");
                    if !matches!(r.end, ImplEnd::Budget) {
                        break;
                    }
                    let bad = c04_events(&r.heap);
                    let uaf = c03_events(&r.heap);
                    if r.leaked > 0 || !bad.is_empty() || !uaf.is_empty() {
                        sh.violation(
                            "abort-point",
                            json!({"family": "count-ladder", "program": text, "abort_after_instructions": k, "events": r.heap, "leaked": r.leaked}),
                            format!("cut after {k} instructions: {} box(es) left behind, events {:?}", r.leaked, r.heap),
                        );
                        break;
                    }
                }
            }
        }
    }
    crate::refint::set_model_fuel(crate::refint::MODEL_FUEL);
}
