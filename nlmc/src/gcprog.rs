//! Programs that allocate, under the shadow heap: collector post-conditions at every collection,
//! liveness at every dereference, the ledger after the run, and (C04) every abort point.

use crate::common::{describe, differential};
use crate::outcome::{run_ast, ImplEnd, RunOpts};
use crate::printer;
use crate::refint::End;
use crate::shard::Shard;
use nederlang::verif::{self, Stmt};
use serde_json::json;

pub const BUDGET: u64 = 20_000;

/// C03-class events: a reachable value was released / observed after release / released twice.
pub fn c03_events(heap: &[String]) -> Vec<&String> {
    heap.iter()
        .filter(|h| h.starts_with("use-after-free") || h.starts_with("reachable-freed") || h.starts_with("double-free") || h.starts_with("dead-result"))
        .collect()
}

/// C04-class events: garbage survived a collection / something was released twice.
pub fn c04_events(heap: &[String]) -> Vec<&String> {
    heap.iter().filter(|h| h.starts_with("unreachable-survivor") || h.starts_with("double-free") || h.starts_with("dead-result")).collect()
}

pub struct ProgStats {
    pub steps: u64,
    pub collections: u64,
    pub collections_with_live: u64,
    pub freed_something: u64,
}

/// Full run of one program: returns None if skipped (does not parse back).
pub fn check_full(sh: &mut Shard, which: &str, family: &str, prog: &[Stmt]) -> Option<ProgStats> {
    let budget = if family == "corpus" || family == "replay" { 50_000_000 } else { BUDGET };
    let r = differential(sh, "semantics-under-gc", prog, RunOpts { budget: Some(budget), ledger: true, trace: false, render: true })?;
    let steps = verif::steps();
    let gs = verif::gc_stats_take();
    sh.add("collections", gs.runs);
    sh.add("collections-with-live-object", gs.runs_with_live);
    sh.add("collections-that-freed", gs.runs_that_freed);
    sh.max("managed-objects", gs.max_managed as u64);
    let text = printer::program(prog);
    let bad: Vec<&String> = if which == "C03" { c03_events(&r.imp.heap) } else { c04_events(&r.imp.heap) };
    if !bad.is_empty() && !crate::common::known_input(sh, &text) {
        sh.violation(
            "heap",
            json!({"family": family, "program": text, "events": r.imp.heap}),
            format!("{}: {:?}", if which == "C03" { "a reachable value was released or observed after release" } else { "the collector kept garbage or released something twice" }, bad),
        );
    }
    if which == "C04" && r.imp.leaked > 0 && !matches!(r.imp.end, ImplEnd::Panic(_)) && !crate::common::known_input(sh, &text) {
        sh.violation(
            "leak",
            json!({"family": family, "program": text, "outcome": describe(&text, &r.model, &r.imp)}),
            format!("{} box(es) allocated by the run were never released (after the caller released the result)", r.imp.leaked),
        );
    }
    if matches!(r.model.end, End::Unspec(_)) {
        sh.count("unspecified-but-heap-checked");
    }
    Some(ProgStats { steps, collections: gs.runs, collections_with_live: gs.runs_with_live, freed_something: gs.runs_that_freed })
}

/// Every abort point of one program: the run is cut after k instructions for every k < n.
pub fn check_abort_points(sh: &mut Shard, family: &str, prog: &[Stmt], n: u64) {
    let text = printer::program(prog);
    let ast: Vec<Stmt> = prog.to_vec();
    for k in 0..n {
        let r = run_ast(&ast, RunOpts { budget: Some(k), ledger: true, trace: false, render: false });
        sh.count("abort-points");
        match r.end {
            ImplEnd::Budget => {}
            // the program failed by itself before k: later k repeat the same run
            _ => break,
        }
        let bad = c04_events(&r.heap);
        let uaf = c03_events(&r.heap);
        if (r.leaked > 0 || !bad.is_empty() || !uaf.is_empty()) && !crate::common::known_input(sh, &text) {
            sh.violation(
                "abort-point",
                json!({"family": family, "program": text, "abort_after_instructions": k, "events": r.heap, "leaked": r.leaked}),
                format!("cut after {k} instructions: {} box(es) left behind, events {:?}", r.leaked, r.heap),
            );
            break;
        }
    }
}
