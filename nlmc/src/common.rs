//! Helpers shared by the property explorers.

use crate::outcome::{disagree, run_ast, run_text, ImplEnd, ImplOutcome, RunOpts};
use crate::printer;
use crate::refint::{End, Interp, ModelOutcome};
use crate::shard::Shard;
use nederlang::verif::{BlockStmt, Stmt};
use serde_json::{json, Value};

pub fn impl_end_text(e: &ImplEnd) -> String {
    match e {
        ImplEnd::Value(v) => format!("value {v}"),
        ImplEnd::Error(k) => k.name().to_string(),
        ImplEnd::Budget => "instruction budget exhausted".into(),
        ImplEnd::Breach(b) => format!("contract breach {b}"),
        ImplEnd::Panic(p) => format!("panic {p}"),
    }
}

pub fn model_end_text(e: &End) -> String {
    match e {
        End::Value(Some(v)) => format!("value {v}"),
        End::Value(None) => "a value (unspecified which)".into(),
        End::Error(k) => format!("{k:?}"),
        End::Unspec(u) => format!("unspecified ({u})"),
        End::Diverge => "model step budget exhausted".into(),
    }
}

pub fn describe(text: &str, m: &ModelOutcome, i: &ImplOutcome) -> Value {
    json!({
        "program": text,
        "model": {"end": model_end_text(&m.end), "output": m.output},
        "implementation": {"end": impl_end_text(&i.end), "output": i.output, "heap": i.heap, "leaked": i.leaked},
    })
}

/// Known-finding matcher `{"input": "<exact text>"}`.
pub fn known_input(sh: &mut Shard, text: &str) -> bool {
    let hit = sh
        .known
        .iter()
        .find(|f| f.matcher.get("input").and_then(|v| v.as_str()) == Some(text))
        .map(|f| f.id.clone());
    match hit {
        Some(id) => {
            sh.known(&id);
            true
        }
        None => false,
    }
}

pub enum Parsed {
    Ok(BlockStmt),
    Err(String),
    Panic(String),
}

pub fn parse_guarded(text: &str) -> Parsed {
    match std::panic::catch_unwind(|| nederlang::parser::parse(text)) {
        Ok(Ok(ast)) => Parsed::Ok(ast),
        Ok(Err(e)) => Parsed::Err(format!("{e:?}")),
        Err(p) => Parsed::Panic(format!("{} [{}]", crate::outcome::panic_message(p), crate::outcome::last_panic_loc())),
    }
}

pub struct DiffResult {
    pub model: ModelOutcome,
    pub imp: ImplOutcome,
    pub verdict: Option<String>,
}

/// Differential step used by C01 and its relatives: the generated tree is printed, parsed by the
/// real parser (must give back the same tree), evaluated by the model and by the real
/// compiler + machine, and the two outcomes are compared.
/// Returns None if the case was skipped (re-parse mismatch is counted, and is C07's business).
pub fn differential(sh: &mut Shard, prop_class: &str, tree: &[Stmt], opts: RunOpts) -> Option<DiffResult> {
    let text = printer::program(tree);
    differential_text(sh, prop_class, &text, Some(tree), opts)
}

pub fn differential_text(
    sh: &mut Shard,
    prop_class: &str,
    text: &str,
    tree: Option<&[Stmt]>,
    opts: RunOpts,
) -> Option<DiffResult> {
    let ast = match parse_guarded(text) {
        Parsed::Ok(a) => a,
        Parsed::Err(_) | Parsed::Panic(_) => {
            sh.count("skipped:does-not-parse");
            if sh.verbose {
                println!("does not parse: {text}");
            }
            return None;
        }
    };
    if let Some(t) = tree {
        if ast.as_slice() != t {
            sh.count("skipped:reparse-mismatch");
            if sh.verbose {
                println!("re-parse mismatch: {text}\n generated {t:?}\n parsed    {ast:?}");
            }
            return None;
        }
    }
    let model = Interp::eval(&ast);
    let imp = run_ast(&ast, opts);
    match &model.end {
        End::Unspec(u) => {
            sh.count(&format!("excluded:{u}"));
        }
        End::Diverge => sh.count("excluded:diverges"),
        End::Error(_) => sh.count("model:error"),
        End::Value(_) => sh.count("model:value"),
    }
    sh.outcome(&(&imp.end, &imp.output));
    let verdict = disagree(&model, &imp);
    if sh.verbose {
        println!(
            "program: {text}\n model: {} output {:?}\n impl:  {} output {:?} heap {:?} leaked {}",
            model_end_text(&model.end),
            model.output,
            impl_end_text(&imp.end),
            imp.output,
            imp.heap,
            imp.leaked
        );
    }
    if let Some(why) = &verdict {
        if !known_input(sh, text) {
            let d = describe(text, &model, &imp);
            sh.violation(prop_class, d, why.clone());
        }
    }
    Some(DiffResult { model, imp, verdict })
}

/// The public one-shot `eval` on a text compared with the model run on the parsed tree.
pub fn differential_eval(sh: &mut Shard, prop_class: &str, text: &str, opts: RunOpts) -> Option<DiffResult> {
    let ast = match parse_guarded(text) {
        Parsed::Ok(a) => a,
        _ => {
            sh.count("skipped:does-not-parse");
            return None;
        }
    };
    let model = Interp::eval(&ast);
    let imp = run_text(text, opts);
    if let End::Unspec(u) = &model.end {
        sh.count(&format!("excluded:{u}"));
    }
    sh.outcome(&(&imp.end, &imp.output));
    let verdict = disagree(&model, &imp);
    if sh.verbose {
        println!(
            "program: {text}\n model: {} output {:?}\n impl:  {} output {:?}",
            model_end_text(&model.end),
            model.output,
            impl_end_text(&imp.end),
            imp.output
        );
    }
    if let Some(why) = &verdict {
        if !known_input(sh, text) {
            let d = describe(text, &model, &imp);
            sh.violation(prop_class, d, why.clone());
        }
    }
    Some(DiffResult { model, imp, verdict })
}
