//! The interpreter's own command-line program, built from /repo's working tree twice — in the `dev` profile
//! (no optimisation, debug assertions and overflow checks on: what `cargo run` and `cargo test` give) and in
//! the `release` profile — and run on generated files, each in its own process with the ordinary 8 MiB main
//! stack (the unoptimised build also on a 2 MiB stack, the size of every spawned thread and of `cargo test` threads). The harness's own builds are optimised (opt-level 1 and 2), so anything that only works because the
//! optimiser turned a recursion into a loop, or because optimised frames are small, is invisible to them.
//!
//! The cases are "long run" ladders: ONE syntactic dimension (a run of white space, of comment lines, of
//! statements, a long token, a long list, a deep nesting, a deep recursion, a deep value) grown around every
//! power of two up to 2^18 (quick) / 2^21 (thorough), everything else tiny. For every case: neither process is
//! killed or aborts (C05), both print the same text and end with the same status (C16), and where the result
//! is known in closed form it is that.
use crate::shard::{Shard, Tier};
use serde_json::json;
use std::io::Write;
use std::process::{Command, Stdio};

pub struct Case {
    pub family: &'static str,
    pub n: usize,
    pub text: String,
    /// expected standard output (trimmed), where it is known in closed form
    pub expect: Option<String>,
}

fn sizes(tier: Tier, lo: u32, hi_quick: u32, hi_thorough: u32) -> Vec<usize> {
    let hi = if tier == Tier::Quick { hi_quick } else { hi_thorough };
    let mut v = Vec::new();
    for k in lo..=hi {
        let n = 1usize << k;
        v.push(n);
        v.push(n + 1);
        if tier != Tier::Quick {
            v.push(n - 1);
            v.push(n + n / 2);
        }
    }
    v
}

/// Every case of the ladder, in a fixed order.
pub fn each(tier: Tier, f: &mut dyn FnMut(Case) -> bool) -> bool {
    let two = Some("2".to_string());
    // (family, generator, expectation)
    type Gen = Box<dyn Fn(usize) -> (String, Option<String>)>;
    let ws_kinds: Vec<(&'static str, &'static str)> = vec![
        ("spaces", " "),
        ("tabs", "\t"),
        ("newlines", "\n"),
        ("crlf", "\r\n"),
        ("line-separators", "\u{2028}"),
        ("next-line", "\u{0085}"),
        ("marks", "\u{200E}"),
        ("mixed", " \t\n"),
    ];
    let mut long_runs: Vec<(&'static str, Gen)> = Vec::new();
    for (name, unit) in ws_kinds {
        let u = unit.to_string();
        let t2 = two.clone();
        long_runs.push((Box::leak(format!("white-space-before:{name}").into_boxed_str()), Box::new(move |n| (format!("{}1 + 1", u.repeat(n)), t2.clone()))));
        let u = unit.to_string();
        let t2 = two.clone();
        long_runs.push((Box::leak(format!("white-space-after:{name}").into_boxed_str()), Box::new(move |n| (format!("1 + 1{}", u.repeat(n)), t2.clone()))));
        let u = unit.to_string();
        let t2 = two.clone();
        long_runs.push((Box::leak(format!("white-space-inside:{name}").into_boxed_str()), Box::new(move |n| (format!("1 +{}1", u.repeat(n)), t2.clone()))));
    }
    let t2 = two.clone();
    long_runs.push(("comment-lines-before", Box::new(move |n| (format!("{}1 + 1", "// c\n".repeat(n)), t2.clone()))));
    let t2 = two.clone();
    long_runs.push(("comment-lines-after", Box::new(move |n| (format!("1 + 1\n{}", "// c\n".repeat(n)), t2.clone()))));
    let t2 = two.clone();
    long_runs.push(("empty-comment-lines", Box::new(move |n| (format!("{}1 + 1", "//\n".repeat(n)), t2.clone()))));
    let t2 = two.clone();
    long_runs.push(("comment-lines-between", Box::new(move |n| (format!("stel a = 1\n{}a + 1", "// c\n   \n".repeat(n)), t2.clone()))));
    let t2 = two.clone();
    long_runs.push(("one-long-comment", Box::new(move |n| (format!("// {}\n1 + 1", "c".repeat(n)), t2.clone()))));
    let t2 = two.clone();
    long_runs.push(("one-long-comment-at-the-end", Box::new(move |n| (format!("1 + 1 // {}", "é".repeat(n)), t2.clone()))));
    long_runs.push(("white-space-in-a-list", Box::new(|n| (format!("[{}1,{}2{}]", " ".repeat(n), "\n".repeat(n), "\t".repeat(n)), Some("[1, 2]".to_string())))));
    long_runs.push(("white-space-in-a-call", Box::new(|n| (format!("functie f(x) {{ x }} f({}2{})", "\n ".repeat(n), " ".repeat(n)), Some("2".to_string())))));
    long_runs.push(("white-space-in-a-block", Box::new(|n| (format!("als ja {{{}2{}}}", "\n".repeat(n), "\n".repeat(n)), Some("2".to_string())))));
    long_runs.push(("long-string", Box::new(|n| (format!("lengte(\"{}\")", "a".repeat(n)), Some(n.to_string())))));
    long_runs.push(("long-wide-string", Box::new(|n| (format!("lengte(\"{}\")", "é".repeat(n)), Some(n.to_string())))));
    long_runs.push(("long-escaped-string", Box::new(|n| (format!("lengte(\"{}\")", "\\\\".repeat(n)), Some(n.to_string())))));
    long_runs.push(("long-name", Box::new(|n| (format!("stel {0} = 2; {0}", "a".repeat(n)), Some("2".to_string())))));
    long_runs.push(("long-integer", Box::new(|n| ("1".repeat(n), None))));
    long_runs.push(("long-fraction", Box::new(|n| (format!("0.{} < 1.0", "1".repeat(n)), None))));
    long_runs.push(("long-unknown-characters", Box::new(|n| ("@".repeat(n), None))));
    long_runs.push(("unterminated-string", Box::new(|n| (format!("\"{}", "a".repeat(n)), None))));
    for (name, gen) in long_runs {
        for n in sizes(tier, 10, 18, 21) {
            let (text, expect) = gen(n);
            if !f(Case { family: name, n, text, expect }) {
                return false;
            }
        }
    }
    // the shape of the FILE: what the text starts with (nothing, a `#!` line, a byte-order mark, a comment, blank
    // lines) x what it ends with (nothing, LF, CRLF, CR, blanks, a comment without a line end) x a few bodies,
    // among them the empty one: the runner ends normally whatever the file looks like
    {
        let mut k = 0usize;
        for head in ["", "#!", "#!/usr/bin/env nederlang", "#!\n", "#!/usr/bin/env nederlang\n", "#", "\u{feff}", "//", "// c", "// c\n", "\n", "\r\n", " ", "\t"] {
            for body in ["", "1 + 1", "stel a = 1; a + 1", "print(\"x\")", "(1 +", "\"open"] {
                for tail in ["", "\n", "\r\n", "\r", " ", "\n\n", " // c", "//", ";", "\u{0}"] {
                    k += 1;
                    let expect = if head.is_empty() && tail != "\u{0}" && tail != "\r" {
                        match body {
                            "1 + 1" | "stel a = 1; a + 1" => Some("2".to_string()),
                            _ => None,
                        }
                    } else {
                        None
                    };
                    if !f(Case { family: "file-shapes", n: k, text: format!("{head}{body}{tail}"), expect }) {
                        return false;
                    }
                }
            }
        }
    }
    // files that are not text: bytes that are not UTF-8 at the start, in the middle, inside a literal, inside a
    // comment, at the very end (the case carries the bytes in hexadecimal)
    for (k, bytes) in [
        &b"\xff\xfe1\n"[..],
        b"1 + 1\n\xff",
        b"\x80",
        b"\"\xc3\"",
        b"// \xe2\x82\n1",
        b"\xed\xa0\x80",
        b"\xc0\xaf",
        b"\xf8\x88\x80\x80\x80",
        b"stel a = \"\xe9\"; a",
        b"1 + 1 // \xff",
        b"\xef\xbb\xbf\xff",
        b"\x00\xff\x00",
    ]
    .iter()
    .enumerate()
    {
        let hex: String = bytes.iter().map(|b| format!("{b:02x}")).collect();
        if !f(Case { family: "file-bytes", n: k, text: hex, expect: Some(String::new()) }) {
            return false;
        }
    }
    // counts of things (the machine's size limits are reached on the way: both builds must refuse alike)
    let counted: Vec<(&'static str, Gen)> = vec![
        ("statements;", Box::new(|n| (format!("{}2", "1;".repeat(n)), None))),
        ("statement-lines", Box::new(|n| (format!("{}2", "1\n".repeat(n)), None))),
        ("declarations", Box::new(|n| ((0..n).map(|i| format!("stel v{i} = {i}\n")).collect::<String>() + "v0", None))),
        ("list-elements", Box::new(|n| (format!("lengte([{}1])", "1,".repeat(n)), None))),
        ("arguments", Box::new(|n| (format!("print({}1)", "1,".repeat(n)), None))),
        ("operator-chain", Box::new(|n| (format!("1{}", " + 1".repeat(n)), None))),
        ("else-if-chain", Box::new(|n| (format!("als nee {{ 1 }}{} anders {{ 2 }}", " anders als nee { 1 }".repeat(n)), None))),
        ("functions", Box::new(|n| ((0..n).map(|i| format!("functie f{i}() {{ {i} }}\n")).collect::<String>() + "f0()", None))),
    ];
    for (name, gen) in counted {
        for n in sizes(tier, 8, 14, 16) {
            let (text, expect) = gen(n);
            if !f(Case { family: name, n, text, expect }) {
                return false;
            }
        }
    }
    // nesting (the parser's own limit is 500 levels: below it both builds must work, above it refuse)
    let nested: Vec<(&'static str, Gen)> = vec![
        ("nested-parentheses", Box::new(|n| (format!("{}1{}", "(".repeat(n), ")".repeat(n)), None))),
        ("nested-lists", Box::new(|n| (format!("{}1{}", "[".repeat(n), "]".repeat(n)), None))),
        ("nested-blocks", Box::new(|n| (format!("{}1{}", "{".repeat(n), "}".repeat(n)), None))),
        ("nested-negations", Box::new(|n| (format!("{}1", "-".repeat(n)), None))),
        ("nested-nots", Box::new(|n| (format!("{}ja", "!".repeat(n)), None))),
        ("nested-branches", Box::new(|n| (format!("{}1{}", "als ja { ".repeat(n), " }".repeat(n)), None))),
        ("nested-loops", Box::new(|n| (format!("{}stop{}", "zolang ja { ".repeat(n), "; stop }".repeat(n)), None))),
        ("nested-functions", Box::new(|n| (format!("{}1{}", "functie() { ".repeat(n), " }()".repeat(n)), None))),
        ("nested-calls", Box::new(|n| (format!("functie f(x) {{ x }} {}1{}", "f(".repeat(n), ")".repeat(n)), None))),
        ("nested-indexing", Box::new(|n| (format!("stel a = [0] a{}[0]{}", "[a".repeat(n), "]".repeat(n)), None))),
        ("right-nested-operators", Box::new(|n| (format!("{}1{}", "1 + (".repeat(n), ")".repeat(n)), None))),
    ];
    for (name, gen) in nested {
        let mut ns: Vec<usize> = vec![8, 16, 32, 64, 90, 99, 100, 101, 128, 200, 256, 300, 400, 450, 480, 495, 498, 499, 500, 501, 512, 1000, 4097, 65_537];
        if tier != Tier::Quick {
            ns.extend([48, 80, 95, 110, 150, 350, 490, 2048, 16_385, 262_145]);
        }
        for n in ns {
            let (text, expect) = gen(n);
            if !f(Case { family: name, n, text, expect }) {
                return false;
            }
        }
    }
    // depth at run time: recursion, values nested by a loop and then shown, compared, converted, released
    let runtime: Vec<(&'static str, Gen)> = vec![
        ("iterations", Box::new(|n| (format!("stel i = 0; zolang i < {n} {{ i += 1 }} i"), Some(n.to_string())))),
        ("returns-that-free", Box::new(|n| (format!("functie f(x) {{ stel t = 1.5 * 2.0; antwoord x + 1 }} stel i = 0; zolang i < {n} {{ i = f(i) }} i"), Some(n.to_string())))),
        ("returns-that-free-nothing", Box::new(|n| (format!("functie f(x) {{ antwoord x + 1 }} stel i = 0; zolang i < {n} {{ i = f(i) }} i"), Some(n.to_string())))),
        ("recursion", Box::new(|n| (format!("functie f(n) {{ als n == 0 {{ antwoord 0 }} 1 + f(n - 1) }} f({n})"), None))),
        ("deep-value-measured", Box::new(|n| (format!("stel a = []; stel i = 0; zolang i < {n} {{ a = [a]; i += 1 }} lengte(a)"), Some("1".to_string())))),
        ("deep-value-shown", Box::new(|n| (format!("stel a = []; stel i = 0; zolang i < {n} {{ a = [a]; i += 1 }} print(a); 0"), None))),
        ("deep-value-as-result", Box::new(|n| (format!("stel a = [7]; stel i = 0; zolang i < {n} {{ a = [a]; i += 1 }} a"), None))),
        ("deep-value-dropped", Box::new(|n| (format!("stel a = [7]; stel i = 0; zolang i < {n} {{ a = [a, 1.5]; i += 1 }} a = 0; stel j = 0; zolang j < 20000 {{ stel t = [j]; j += 1 }} a"), Some("0".to_string())))),
        ("long-value-shown", Box::new(|n| (format!("stel a = \"x\"; stel i = 0; stel l = [a, a, a, a]; zolang i < {n} {{ l = [l[1], l[2], l[3], i]; i += 1 }} print(l); l"), None))),
    ];
    // recursion without an end: whatever the shape of the function, the machine's own limit stops it with an
    // error (nothing is printed), it does not eat the memory until the process is killed
    for (i, text) in [
        "functie f() { f() } f()",
        "functie f(n) { f(n) } f(1)",
        "functie f() { stel a = 1; f() } f()",
        "functie f() { 1 + f() } f()",
        "functie a() { b() } functie b() { a() } a()",
        "functie f() { [f()] } f()",
        "functie f() { als ja { f() } } f()",
        "stel g = functie() { 0 }; g = functie() { g() }; g()",
        "functie f() { f(); f() } f()",
    ]
    .iter()
    .enumerate()
    {
        if !f(Case { family: "endless-recursion", n: i, text: text.to_string(), expect: Some(String::new()) }) {
            return false;
        }
    }
    for (name, gen) in runtime {
        for n in sizes(tier, 8, 16, 17) {
            let (text, expect) = gen(n);
            if !f(Case { family: name, n, text, expect }) {
                return false;
            }
        }
    }
    true
}

#[derive(Debug, Clone, PartialEq)]
pub struct CliOutcome {
    pub status: String,
    pub stdout: String,
    pub stderr_head: String,
}

/// Runs one build of the command-line program on a file (own process, 8 MiB stack, 25 s, 4 GiB).
pub fn run_cli(exe: &str, file: &str, stack_kib: usize) -> CliOutcome {
    let child = Command::new("sh")
        .arg("-c")
        .arg(format!("ulimit -s {stack_kib}; ulimit -v 4000000; exec timeout -s KILL 25 \"$0\" \"$1\""))
        .arg(exe)
        .arg(file)
        .stdin(Stdio::null())
        .stdout(Stdio::piped())
        .stderr(Stdio::piped())
        .output();
    match child {
        Err(e) => CliOutcome { status: format!("MACHINERY cannot start: {e}"), stdout: String::new(), stderr_head: String::new() },
        Ok(o) => {
            use std::os::unix::process::ExitStatusExt;
            let status = match (o.status.code(), o.status.signal()) {
                (Some(c), _) if c == 137 => "TIMEOUT".to_string(),
                (Some(c), _) if c >= 128 => format!("killed by signal {}", c - 128),
                (Some(c), _) => format!("exit {c}"),
                (None, Some(9)) => "TIMEOUT".to_string(),
                (None, Some(s)) => format!("killed by signal {s}"),
                _ => "unknown".to_string(),
            };
            let mut stdout = String::from_utf8_lossy(&o.stdout).trim().to_string();
            if stdout.len() > 4096 {
                // long outputs are compared by length and digest
                use std::hash::{Hash, Hasher};
                let mut h = std::collections::hash_map::DefaultHasher::new();
                stdout.hash(&mut h);
                stdout = format!("<{} bytes, digest {:016x}, starts {:?}>", stdout.len(), h.finish(), stdout.chars().take(60).collect::<String>());
            }
            let stderr_head: String = String::from_utf8_lossy(&o.stderr).chars().take(200).collect();
            CliOutcome { status, stdout, stderr_head }
        }
    }
}

fn exes() -> Option<(String, String)> {
    let dev = std::env::var("NLMC_CLI_DEV").ok()?;
    let rel = std::env::var("NLMC_CLI_REL").ok()?;
    if std::path::Path::new(&dev).exists() && std::path::Path::new(&rel).exists() {
        Some((dev, rel))
    } else {
        None
    }
}

fn scratch_file(sh: &Shard) -> String {
    let dir = std::env::var("NLMC_RUN_DIR").unwrap_or_else(|_| "/verif/.target/tmp".to_string());
    let _ = std::fs::create_dir_all(&dir);
    format!("{dir}/cli-{}-{}.nl", std::process::id(), sh.shard)
}

pub fn check_case(sh: &mut Shard, class: &str, c: &Case, dev: &str, rel: &str) {
    let file = scratch_file(sh);
    let content: Vec<u8> = if c.family == "file-bytes" {
        (0..c.text.len() / 2).map(|i| u8::from_str_radix(&c.text[2 * i..2 * i + 2], 16).unwrap_or(0)).collect()
    } else {
        c.text.as_bytes().to_vec()
    };
    match std::fs::File::create(&file).and_then(|mut fh| fh.write_all(&content)) {
        Ok(()) => {}
        Err(e) => {
            sh.machinery(format!("cannot write {file}: {e}"));
            return;
        }
    }
    let d = run_cli(dev, &file, 8192);
    sh.begin(&|| format!("command-line builds on {} x {} (release run)", c.family, c.n));
    let r = run_cli(rel, &file, 8192);
    // the unoptimised build again on a 2 MiB stack: what every thread a program spawns gets, and what the
    // repository's own tests run on (`cargo test`: dev profile, one 2 MiB thread per test)
    sh.begin(&|| format!("command-line builds on {} x {} (unoptimised, 2 MiB stack)", c.family, c.n));
    let d2 = run_cli(dev, &file, 2048);
    let _ = std::fs::remove_file(&file);
    sh.add("cli-runs", 3);
    for o in [&d, &r, &d2] {
        if o.status.starts_with("MACHINERY") {
            sh.machinery(o.status.clone());
            return;
        }
    }
    // a run that does not finish in 25 s is not compared (counted and reported; hangs are C05's own families)
    if d.status == "TIMEOUT" || r.status == "TIMEOUT" || d2.status == "TIMEOUT" {
        sh.count("cli-too-slow-not-compared");
        return;
    }
    let desc = json!({"cli": {"family": c.family, "n": c.n}, "text_head": c.text.chars().take(80).collect::<String>(), "text_bytes": c.text.len()});
    let mut why: Option<String> = None;
    for (name, o) in [("unoptimised (dev)", &d), ("release", &r), ("unoptimised (dev), on a 2 MiB stack,", &d2)] {
        if o.status != "exit 0" {
            why = Some(format!("the {name} build of the interpreter ended with / was {} on {} x {} ({} bytes of input); stderr: {:?}", o.status, c.family, c.n, c.text.len(), o.stderr_head));
            break;
        }
    }
    if why.is_none() && (d.status != r.status || d.stdout != r.stdout) {
        why = Some(format!("the builds disagree on {} x {}: unoptimised ({}) printed {:?}, release ({}) printed {:?}", c.family, c.n, d.status, d.stdout, r.status, r.stdout));
    }
    if why.is_none() && (d2.status != r.status || d2.stdout != r.stdout) {
        why = Some(format!("the builds disagree on {} x {}: unoptimised on a 2 MiB stack ({}) printed {:?}, release ({}) printed {:?}", c.family, c.n, d2.status, d2.stdout, r.status, r.stdout));
    }
    if why.is_none() {
        if let Some(e) = &c.expect {
            if &r.stdout != e {
                why = Some(format!("{} x {}: printed {:?}, expected {:?}", c.family, c.n, r.stdout, e));
            }
        }
    }
    if c.expect.is_some() {
        sh.nontrivial(&(c.family, c.n));
    } else {
        sh.nontrivial(&(c.family, c.n, &r.stdout));
    }
    if let Some(w) = why {
        sh.violation(class, desc, w);
    }
}

/// The whole family for one check.
pub fn run_family(sh: &mut Shard, class: &str) {
    let Some((dev, rel)) = exes() else {
        sh.machinery("the command-line builds (NLMC_CLI_DEV / NLMC_CLI_REL) are missing: run through /verif/check".to_string());
        return;
    };
    let tier = sh.cfg.tier;
    each(tier, &mut |c| {
        if sh.mine() {
            let (fam, n) = (c.family, c.n);
            sh.begin(&|| format!("command-line builds on {fam} x {n}"));
            sh.count("family:cli-profiles");
            check_case(sh, class, &c, &dev, &rel);
        }
        sh.running()
    });
}

/// Replay of {"cli": {"family", "n"}}.
pub fn replay(sh: &mut Shard, class: &str, case: &serde_json::Value) -> bool {
    let (Some(fam), Some(n)) = (case["cli"]["family"].as_str(), case["cli"]["n"].as_u64()) else { return false };
    let Some((dev, rel)) = exes() else {
        sh.machinery("the command-line builds are missing: replay through /verif/check".to_string());
        return true;
    };
    let mut found = false;
    each(Tier::Thorough, &mut |c| {
        if c.family == fam && c.n as u64 == n {
            found = true;
            sh.mine();
            check_case(sh, class, &c, &dev, &rel);
            return false;
        }
        true
    });
    found
}
