//! Running the real pipeline under the hooks and rendering what it did.

use crate::refint::{render_float, End, ErrKind, MErr, ModelOutcome};
use nederlang::compiler::Compiler;
use nederlang::object::{Error, Object, Type};
use nederlang::verif::{self, BlockStmt};
use nederlang::vm::VM;
use std::panic::{catch_unwind, AssertUnwindSafe};

pub const QUICK_BUDGET: u64 = 200_000;

#[derive(Clone, Debug, PartialEq, Eq, Hash)]
pub enum ImplEnd {
    /// canonical rendering of the returned object
    Value(String),
    Error(ErrKind),
    /// the instruction budget ran out (hook H3)
    Budget,
    /// a contract probe fired (hook H5): site
    Breach(String),
    /// the interpreter panicked: location / message
    Panic(String),
}

#[derive(Clone, Debug, PartialEq, Eq, Hash)]
pub struct ImplOutcome {
    pub output: String,
    pub end: ImplEnd,
    /// shadow-heap events seen during the run (use-after-free, double-free, collector post-conditions)
    pub heap: Vec<String>,
    /// boxes still allocated after the run and after the harness released the result graph
    pub leaked: usize,
}

pub fn err_kind(e: &Error) -> ErrKind {
    match e {
        Error::TypeError(_) => ErrKind::Type,
        Error::SyntaxError(_) => ErrKind::Syntax,
        Error::ReferenceError(_) => ErrKind::Reference,
        Error::IndexError(_) => ErrKind::Index,
        Error::ArgumentError(_) => ErrKind::Argument,
    }
}

pub fn classify_err(e: &Error) -> ImplEnd {
    if let Error::TypeError(m) = e {
        if m == verif::BUDGET_MSG {
            return ImplEnd::Budget;
        }
        if m == verif::BREACH_MSG {
            let b = verif::breaches_take();
            return ImplEnd::Breach(
                b.first()
                    .map(|b| format!("{}@{} {}", b.site, b.ip, b.detail))
                    .unwrap_or_else(|| "?".to_string()),
            );
        }
    }
    ImplEnd::Error(err_kind(e))
}

/// Canonical structural rendering (same format as refint::render). Never follows a dead pointer.
pub fn render_object(o: Object) -> String {
    fn go(o: Object, s: &mut String, path: &mut Vec<usize>) {
        if o.is_heap_allocated() && !verif::is_alive(o) {
            s.push_str(&format!("DEAD<{}>", o.tag()));
            return;
        }
        match o.tag() {
            Type::Null => s.push_str("null"),
            Type::Bool => s.push_str(if o.as_bool() { "ja" } else { "nee" }),
            Type::Int => s.push_str(&o.as_int().to_string()),
            Type::Function => s.push_str("fn"),
            Type::Float => s.push_str(&render_float(o.as_f64())),
            Type::String => s.push_str(&format!("{:?}", o.as_str())),
            Type::Array => {
                let addr = heap_addr(o);
                if let Some(pos) = path.iter().position(|p| *p == addr) {
                    s.push_str(&format!("^{}", path.len() - pos));
                    return;
                }
                path.push(addr);
                s.push('[');
                for (i, v) in o.as_vec().iter().enumerate() {
                    if i > 0 {
                        s.push(',');
                    }
                    go(*v, s, path);
                }
                s.push(']');
                path.pop();
            }
        }
    }
    let mut s = String::new();
    go(o, &mut s, &mut Vec::new());
    s
}

/// Address of a heap object's box (the tagged word with the tag bits cleared).
pub fn heap_addr(o: Object) -> usize {
    // Object is a transparent wrapper around one pointer-sized word
    let word: usize = unsafe { std::mem::transmute_copy(&o) };
    word & !0b111
}

/// Every distinct heap box reachable from `o` (alive ones only are followed). Iterative.
pub fn reachable_boxes(o: Object, out: &mut Vec<Object>) {
    let mut seen: std::collections::HashSet<usize> = out.iter().map(|x| heap_addr(*x)).collect();
    let mut work = vec![o];
    while let Some(o) = work.pop() {
        if !o.is_heap_allocated() {
            continue;
        }
        if !seen.insert(heap_addr(o)) {
            continue;
        }
        out.push(o);
        if o.tag() == Type::Array && verif::is_alive(o) {
            for v in o.as_vec().iter() {
                work.push(*v);
            }
        }
    }
}

pub fn panic_message(p: Box<dyn std::any::Any + Send>) -> String {
    if let Some(s) = p.downcast_ref::<&str>() {
        s.to_string()
    } else if let Some(s) = p.downcast_ref::<String>() {
        s.clone()
    } else {
        "panic".to_string()
    }
}

thread_local! {
    static LAST_PANIC_LOC: std::cell::RefCell<String> = std::cell::RefCell::new(String::new());
}

/// Installs a panic hook that records the location instead of printing.
pub fn install_quiet_panic_hook() {
    std::panic::set_hook(Box::new(|info| {
        let loc = info
            .location()
            .map(|l| format!("{}:{}", l.file(), l.line()))
            .unwrap_or_default();
        LAST_PANIC_LOC.with(|c| *c.borrow_mut() = loc);
    }));
}

pub fn last_panic_loc() -> String {
    LAST_PANIC_LOC.with(|c| c.borrow().clone())
}

#[derive(Clone, Copy)]
pub struct RunOpts {
    pub budget: Option<u64>,
    pub ledger: bool,
    pub trace: bool,
    /// render the returned value (recursive in the nesting depth of the value)
    pub render: bool,
}

impl Default for RunOpts {
    fn default() -> Self {
        RunOpts {
            budget: Some(QUICK_BUDGET),
            ledger: true,
            trace: false,
            render: true,
        }
    }
}

/// Compile and run one tree on a fresh compiler and machine, exactly as `eval` does, under the hooks.
pub fn run_ast(ast: &BlockStmt, opts: RunOpts) -> ImplOutcome {
    verif::reset();
    verif::capture_start();
    verif::set_budget(opts.budget);
    if opts.ledger {
        verif::ledger_start();
    }
    if opts.trace {
        verif::trace_start();
    }
    // exactly what `eval` does after parsing: fresh compiler and machine, result handed over to the caller
    let r = catch_unwind(AssertUnwindSafe(|| {
        let code = Compiler::new().compile_ast(ast)?;
        let mut vm = VM::new();
        let result = vm.run(code)?;
        vm.untrace(result);
        Ok(result)
    }));
    finish(r, opts)
}

/// The public one-shot entry point `nederlang::eval` on a text, under the hooks.
pub fn run_text(text: &str, opts: RunOpts) -> ImplOutcome {
    verif::reset();
    verif::capture_start();
    verif::set_budget(opts.budget);
    if opts.ledger {
        verif::ledger_start();
    }
    if opts.trace {
        verif::trace_start();
    }
    let r = catch_unwind(AssertUnwindSafe(|| nederlang::eval(text)));
    finish(r, opts)
}

thread_local! {
    static RELEASE_WITH_API: std::cell::Cell<bool> = std::cell::Cell::new(false);
}

/// C04: the harness, playing the caller, releases a returned result with the interpreter's own public
/// `Object::free_recursive` (what the repository's tests do) instead of its own traversal.
pub fn set_release_with_api(on: bool) {
    RELEASE_WITH_API.with(|c| c.set(on));
}

fn finish(r: std::thread::Result<Result<Object, Error>>, opts: RunOpts) -> ImplOutcome {
    let output = verif::capture_take();
    let mut dead_result = false;
    let end = match r {
        Err(p) => ImplEnd::Panic(format!("{} [{}]", panic_message(p), last_panic_loc())),
        Ok(Err(e)) => classify_err(&e),
        Ok(Ok(obj)) => {
            let s = if opts.render { render_object(obj) } else { "<value>".to_string() };
            if opts.ledger {
                // the caller releases the result graph: each distinct box once
                let mut boxes = Vec::new();
                reachable_boxes(obj, &mut boxes);
                let via_api = RELEASE_WITH_API.with(|c| c.get());
                for b in &boxes {
                    if !verif::is_alive(*b) {
                        // the interpreter handed back something it had already released
                        dead_result = true;
                    }
                }
                if via_api && !dead_result {
                    if let Err(p) = std::panic::catch_unwind(|| obj.free_recursive()) {
                        return ImplOutcome { output, end: ImplEnd::Panic(format!("free_recursive: {}", panic_message(p))), heap: vec![], leaked: 0 };
                    }
                } else {
                    for b in boxes {
                        if verif::is_alive(b) {
                            b.free();
                        }
                    }
                }
            }
            ImplEnd::Value(s)
        }
    };
    let mut heap: Vec<String> = verif::heap_events_take()
        .iter()
        .map(|e| format!("{}#{}", e.kind, e.serial))
        .collect();
    heap.dedup();
    if dead_result {
        heap.push("dead-result".to_string());
    }
    let leaked = if opts.ledger {
        // after a panic the unwinding skipped nothing (Drop runs), so the ledger is still meaningful
        verif::ledger_alive().len()
    } else {
        0
    };
    ImplOutcome {
        output,
        end,
        heap,
        leaked,
    }
}

/// Does the implementation's outcome satisfy what the model demands? None = yes, Some(why) = no.
pub fn disagree(m: &ModelOutcome, i: &ImplOutcome) -> Option<String> {
    match (&m.end, &i.end) {
        (End::Unspec(_), _) | (End::Diverge, _) => None,
        (_, ImplEnd::Budget) => Some("implementation exhausted the instruction budget; the model terminated".into()),
        (_, ImplEnd::Breach(b)) => Some(format!("contract probe fired: {b}")),
        (_, ImplEnd::Panic(p)) => Some(format!("panic: {p}")),
        (End::Value(mv), ImplEnd::Value(iv)) => {
            if m.output != i.output {
                return Some(format!("output differs: model {:?}, implementation {:?}", m.output, i.output));
            }
            match mv {
                Some(mv) if mv != iv => Some(format!("result differs: model {mv}, implementation {iv}")),
                _ => None,
            }
        }
        (End::Value(mv), ImplEnd::Error(k)) => Some(format!(
            "implementation failed with {} where the model yields {}",
            k.name(),
            mv.clone().unwrap_or_else(|| "a value".into())
        )),
        (End::Error(me), ImplEnd::Value(iv)) => Some(format!("model demands {me:?}, implementation returned {iv}")),
        (End::Error(me), ImplEnd::Error(k)) => {
            let ok = match me {
                MErr::Any => true,
                MErr::Kind(x) => x == k,
                MErr::Either(a, b) => a == k || b == k,
            };
            if !ok {
                return Some(format!("error kind differs: model {me:?}, implementation {}", k.name()));
            }
            if m.output != i.output {
                return Some(format!(
                    "error raised at a different point: output before it differs: model {:?}, implementation {:?}",
                    m.output, i.output
                ));
            }
            None
        }
    }
}
