//! Breadth-first search over histories of collector operations, executed on the REAL `GC` and `Object`
//! code and checked against a reachability model (DESIGN 5, C03 a / C04 i).

use crate::outcome::heap_addr;
use crate::shard::{hash64, Shard};
use nederlang::object::{FromString, FromVec, Object, Type};
use nederlang::verif::{self, GC};
use serde_json::json;
use std::collections::{HashSet, VecDeque};

#[derive(Clone, Debug, PartialEq, Eq, Hash)]
pub enum Op {
    NewFloat,
    NewStr,
    /// new array holding these handles
    NewArr(Vec<usize>),
    /// push handle .1 into array .0
    Link(usize, usize),
    /// pop the last element of array .0
    Unlink(usize),
    /// run a collection with these root handles (split over two root slices)
    Collect(Vec<usize>),
    /// hand the object (and what it holds) over to the caller
    Untrace(usize),
    /// let the collector manage an object it does not manage (as the VM does with constants)
    Retrace(usize),
    /// drop the collector (everything it still manages is released) and start a new one
    DropGC,
}

impl Op {
    pub fn text(&self) -> String {
        match self {
            Op::NewFloat => "NewFloat".into(),
            Op::NewStr => "NewStr".into(),
            Op::NewArr(e) => format!("NewArr{e:?}"),
            Op::Link(a, b) => format!("Link({a},{b})"),
            Op::Unlink(a) => format!("Unlink({a})"),
            Op::Collect(r) => format!("Collect{r:?}"),
            Op::Untrace(x) => format!("Untrace({x})"),
            Op::Retrace(x) => format!("Retrace({x})"),
            Op::DropGC => "DropGC".into(),
        }
    }

    pub fn parse(s: &str) -> Option<Op> {
        let nums = |t: &str| -> Vec<usize> {
            t.split(|c: char| !c.is_ascii_digit()).filter(|x| !x.is_empty()).filter_map(|x| x.parse().ok()).collect()
        };
        let n = nums(s);
        Some(if s.starts_with("NewFloat") {
            Op::NewFloat
        } else if s.starts_with("NewStr") {
            Op::NewStr
        } else if s.starts_with("NewArr") {
            Op::NewArr(n)
        } else if s.starts_with("Link") {
            Op::Link(*n.first()?, *n.get(1)?)
        } else if s.starts_with("Unlink") {
            Op::Unlink(*n.first()?)
        } else if s.starts_with("Collect") {
            Op::Collect(n)
        } else if s.starts_with("Untrace") {
            Op::Untrace(*n.first()?)
        } else if s.starts_with("Retrace") {
            Op::Retrace(*n.first()?)
        } else if s.starts_with("DropGC") {
            Op::DropGC
        } else {
            return None;
        })
    }
}

#[derive(Clone, Debug, PartialEq, Eq, Hash)]
enum Kind {
    Float,
    Str,
    Arr,
}

#[derive(Clone, Debug, PartialEq, Eq, Hash)]
struct MObj {
    kind: Kind,
    elems: Vec<usize>,
    managed: bool,
    alive: bool,
}

/// The reference model: an abstract heap with reachability by graph search.
#[derive(Clone, Debug, PartialEq, Eq, Hash, Default)]
pub struct Model {
    objs: Vec<MObj>,
}

impl Model {
    fn alive(&self) -> Vec<usize> {
        (0..self.objs.len()).filter(|i| self.objs[*i].alive).collect()
    }

    fn reach(&self, roots: &[usize]) -> HashSet<usize> {
        let mut seen = HashSet::new();
        let mut work: Vec<usize> = roots.to_vec();
        while let Some(x) = work.pop() {
            if !seen.insert(x) {
                continue;
            }
            for e in &self.objs[x].elems {
                work.push(*e);
            }
        }
        seen
    }

    /// Applies `op`. None = the operation would misuse the collector (leave a live object pointing
    /// at a released one), which the model never does.
    fn apply(&self, op: &Op) -> Option<Model> {
        let mut m = self.clone();
        match op {
            Op::NewFloat => m.objs.push(MObj { kind: Kind::Float, elems: vec![], managed: true, alive: true }),
            Op::NewStr => m.objs.push(MObj { kind: Kind::Str, elems: vec![], managed: true, alive: true }),
            Op::NewArr(e) => m.objs.push(MObj { kind: Kind::Arr, elems: e.clone(), managed: true, alive: true }),
            Op::Link(a, b) => m.objs[*a].elems.push(*b),
            Op::Unlink(a) => {
                m.objs[*a].elems.pop();
            }
            Op::Collect(roots) => {
                // the real run() returns early when it manages nothing
                let r = m.reach(roots);
                for i in 0..m.objs.len() {
                    if m.objs[i].alive && m.objs[i].managed && !r.contains(&i) {
                        m.objs[i].alive = false;
                        m.objs[i].managed = false;
                    }
                }
            }
            Op::Untrace(x) => {
                // the object and, through managed arrays, everything it holds
                let mut work = vec![*x];
                while let Some(y) = work.pop() {
                    if m.objs[y].alive && m.objs[y].managed {
                        m.objs[y].managed = false;
                        for e in m.objs[y].elems.clone() {
                            work.push(e);
                        }
                    }
                }
            }
            Op::Retrace(x) => m.objs[*x].managed = true,
            Op::DropGC => {
                for o in m.objs.iter_mut() {
                    if o.alive && o.managed {
                        o.alive = false;
                        o.managed = false;
                    }
                }
            }
        }
        // never leave a live object holding a released one
        for o in &m.objs {
            if o.alive && o.elems.iter().any(|e| !m.objs[*e].alive) {
                return None;
            }
            // ownership discipline of the interpreter: what the caller owns is closed (an object handed
            // over to the caller never holds one the collector still manages); the collector is not
            // asked to look inside objects it does not manage
            if o.alive && !o.managed && o.elems.iter().any(|e| m.objs[*e].managed) {
                return None;
            }
        }
        Some(m)
    }

    /// Operations enabled in this state, simplest first.
    fn menu(&self, universe: usize) -> Vec<Op> {
        let mut v = Vec::new();
        let alive = self.alive();
        if self.objs.len() < universe {
            v.push(Op::NewFloat);
            v.push(Op::NewStr);
            v.push(Op::NewArr(vec![]));
            for a in &alive {
                v.push(Op::NewArr(vec![*a]));
            }
            for a in &alive {
                for b in &alive {
                    v.push(Op::NewArr(vec![*a, *b]));
                }
            }
        }
        for a in &alive {
            if self.objs[*a].kind == Kind::Arr {
                if self.objs[*a].elems.len() < 2 {
                    for b in &alive {
                        v.push(Op::Link(*a, *b));
                    }
                }
                if !self.objs[*a].elems.is_empty() {
                    v.push(Op::Unlink(*a));
                }
            }
        }
        // every subset of the live handles as root set
        let k = alive.len();
        for mask in 0..(1u32 << k) {
            let roots: Vec<usize> = (0..k).filter(|i| mask & (1 << i) != 0).map(|i| alive[i]).collect();
            v.push(Op::Collect(roots));
        }
        for a in &alive {
            if self.objs[*a].managed {
                v.push(Op::Untrace(*a));
            } else {
                v.push(Op::Retrace(*a));
            }
        }
        v.push(Op::DropGC);
        v
    }
}

pub struct Exec {
    pub model: Model,
    /// first disagreement between the real heap and the model, if any
    pub problem: Option<(String, String)>,
    /// the problem was found by the audit at the END of the history (the state reached by the history itself
    /// agreed with the model, so its key is valid and the search may go on from it)
    pub at_end: bool,
    /// state key: model + real internal order (as handles) + mark bits
    pub key: u64,
    pub max_managed: usize,
}

/// An integer whose machine word, tag aside, is the address of `o`.
fn decoy(o: Object) -> Object {
    Object::int((heap_addr(o) >> 3) as isize)
}

fn payload_float(h: usize) -> f64 {
    1.5 + h as f64
}

/// Executes a whole history from scratch on the real collector, checking the real heap against the
/// model after every operation.
pub fn execute(history: &[Op]) -> Exec {
    verif::reset();
    verif::ledger_start();
    let mut gc = Some(GC::new());
    let mut objs: Vec<Object> = Vec::new();
    let mut model = Model::default();
    let mut problem: Option<(String, String)> = None;
    let mut max_managed = 0;
    let mut key = 0u64;
    for (step, op) in history.iter().enumerate() {
        let next = match model.apply(op) {
            Some(m) => m,
            None => {
                problem = Some(("machinery".into(), format!("history step {step} {} is not enabled in the model", op.text())));
                break;
            }
        };
        let g = gc.as_mut().unwrap();
        match op {
            Op::NewFloat => objs.push(Object::float(payload_float(objs.len()), g)),
            Op::NewStr => objs.push(Object::string(format!("s{}", objs.len()), g)),
            Op::NewArr(e) => {
                let v: Vec<Object> = e.iter().map(|h| objs[*h]).collect();
                objs.push(Object::array(v, g))
            }
            Op::Link(a, b) => {
                let b = objs[*b];
                objs[*a].as_vec_mut().push(b)
            }
            Op::Unlink(a) => {
                objs[*a].as_vec_mut().pop();
            }
            // (decoys: next to every real operand the collector is shown INTEGERS whose bits are the address of
            // some other object — a number is never an object, whatever it looks like: as a root it keeps nothing
            // alive, handed over it takes nothing along, offered for tracing it is not taken)
            Op::Collect(roots) => {
                let half = roots.len() / 2;
                let mut r1: Vec<Object> = roots[..half].iter().map(|h| objs[*h]).collect();
                let mut r2: Vec<Object> = roots[half..].iter().map(|h| objs[*h]).collect();
                for (h, o) in objs.iter().enumerate() {
                    if !roots.contains(&h) {
                        let d = decoy(*o);
                        if h % 2 == 0 { r1.push(d) } else { r2.insert(0, d) }
                    }
                }
                g.run(&[r1.as_slice(), r2.as_slice()]);
            }
            Op::Untrace(x) => {
                for (h, o) in objs.iter().enumerate() {
                    if h != *x && next.objs[h].alive && next.objs[h].managed {
                        g.untrace(decoy(*o));
                    }
                }
                g.untrace(objs[*x])
            }
            Op::Retrace(x) => {
                for (h, o) in objs.iter().enumerate() {
                    if h != *x && next.objs[h].alive && !next.objs[h].managed {
                        g.maybe_trace(decoy(*o));
                    }
                }
                g.maybe_trace(objs[*x])
            }
            Op::DropGC => {
                gc = None;
                gc = Some(GC::new());
            }
        }
        model = next;
        // ---- compare the real heap with the model
        let alive_real: HashSet<usize> = verif::ledger_alive().iter().map(|(a, _)| *a).collect();
        let events = verif::heap_events_take();
        if let Some(e) = events.iter().find(|e| e.kind == "double-free" || e.kind == "use-after-free") {
            problem = Some(("C03".into(), format!("after {}: {} of the box with serial {}", op.text(), e.kind, e.serial)));
            break;
        }
        for (h, mo) in model.objs.iter().enumerate() {
            let addr = heap_addr(objs[h]);
            let real_alive = alive_real.contains(&addr);
            if mo.alive && !real_alive {
                problem = Some(("C03".into(), format!("after {}: object {h} is still reachable or owned by the caller according to the model, but was released", op.text())));
                break;
            }
            if !mo.alive && real_alive {
                problem = Some(("C04".into(), format!("after {}: object {h} is garbage according to the model, but was not released", op.text())));
                break;
            }
            if mo.alive {
                // payload unchanged
                let ok = match mo.kind {
                    Kind::Float => objs[h].tag() == Type::Float && objs[h].as_f64() == payload_float(h),
                    Kind::Str => objs[h].tag() == Type::String && objs[h].as_str() == format!("s{h}"),
                    Kind::Arr => {
                        objs[h].tag() == Type::Array && {
                            let v = objs[h].as_vec();
                            v.len() == mo.elems.len() && v.iter().zip(&mo.elems).all(|(o, e)| heap_addr(*o) == heap_addr(objs[*e]))
                        }
                    }
                };
                if !ok {
                    problem = Some(("C03".into(), format!("after {}: the contents of live object {h} changed", op.text())));
                    break;
                }
            }
        }
        if problem.is_some() {
            break;
        }
        // managed set
        let (order, marks) = gc.as_ref().unwrap().verif_state();
        let handle_of = |addr: usize| objs.iter().position(|o| heap_addr(*o) == addr);
        let order_h: Vec<Option<usize>> = order.iter().map(|a| handle_of(*a)).collect();
        let managed_real: HashSet<usize> = order_h.iter().flatten().cloned().collect();
        let managed_model: HashSet<usize> = (0..model.objs.len()).filter(|i| model.objs[*i].alive && model.objs[*i].managed).collect();
        if managed_real != managed_model || order_h.iter().any(|x| x.is_none()) || order_h.len() != managed_real.len() {
            problem = Some((
                "C04".into(),
                format!("after {}: the collector manages {order_h:?}, the model says {:?}", op.text(), {
                    let mut v: Vec<_> = managed_model.iter().cloned().collect();
                    v.sort();
                    v
                }),
            ));
            break;
        }
        max_managed = max_managed.max(order.len());
        if step + 1 == history.len() {
            key = hash64(&(&model, &order_h, &marks));
        }
    }
    // ---- end of history: the caller releases what it owns, the collector the rest; nothing may remain
    let mut at_end = false;
    if problem.is_none() {
        drop(gc.take());
        for (h, mo) in model.objs.iter().enumerate() {
            if mo.alive && !mo.managed {
                objs[h].free();
            }
        }
        let left = verif::ledger_alive();
        let events = verif::heap_events_take();
        if let Some(e) = events.iter().find(|e| e.kind == "double-free") {
            problem = Some(("C04".into(), format!("at the end of the history: the box with serial {} was released twice", e.serial)));
        } else if !left.is_empty() {
            problem = Some(("C04".into(), format!("at the end of the history: {} box(es) were never released", left.len())));
        }
        at_end = problem.is_some();
    } else {
        drop(gc.take());
    }
    verif::ledger_forget();
    Exec { model, problem, at_end, key, max_managed }
}

pub struct Bounds {
    pub universe: usize,
    pub depth: usize,
}

/// BFS from the empty history. Work is shared between workers by the first two operations.
pub fn explore(sh: &mut Shard, b: &Bounds, which: &str) {
    let mut seen: HashSet<u64> = HashSet::new();
    let mut frontier: VecDeque<Vec<Op>> = VecDeque::new();
    frontier.push_back(vec![]);
    let mut prefix_counter = 0u64;
    while let Some(h) = frontier.pop_front() {
        if h.len() >= b.depth {
            continue;
        }
        // the model state after h (h was validated when it was pushed)
        let mut m = Model::default();
        for op in &h {
            m = m.apply(op).expect("validated history");
        }
        for op in m.menu(b.universe) {
            if m.apply(&op).is_none() {
                continue;
            }
            let mut h2 = h.clone();
            h2.push(op);
            // sharding: histories of length 2 are dealt round-robin; shorter ones run everywhere (cheap)
            if h2.len() == 2 {
                prefix_counter += 1;
                if prefix_counter % sh.nshards != sh.shard {
                    continue;
                }
            }
            sh.mine();
            let text = || h2.iter().map(|o| o.text()).collect::<Vec<_>>().join(" ");
            sh.begin(&text);
            sh.count("transitions");
            sh.count("traces_validated_against_impl");
            let ex = execute(&h2);
            sh.max("managed-objects", ex.max_managed as u64);
            if let Op::Collect(r) = h2.last().unwrap() {
                if !r.is_empty() {
                    sh.count("collections-with-roots");
                }
            }
            if let Some((prop, why)) = &ex.problem {
                if prop == "machinery" {
                    sh.machinery(why.clone());
                    return;
                }
                if prop == which || which == "both" {
                    sh.violation("collector-history", json!({"history": h2.iter().map(|o| o.text()).collect::<Vec<_>>()}), why.clone());
                    continue;
                }
                // a problem of the OTHER property: if it was only found by the end-of-history audit, the state
                // itself is sound for this property and the search goes on from it; otherwise the state is
                // not what the model describes and is not expanded
                if !ex.at_end {
                    sh.count("states-not-expanded-because-of-the-other-property");
                    continue;
                }
            }
            if seen.insert(ex.key) {
                sh.count("states");
                sh.nontrivial(&ex.key);
                if seen.len() % 20_011 == 1 {
                    sh.sample(json!({"history": h2.iter().map(|o| o.text()).collect::<Vec<_>>()}));
                }
                frontier.push_back(h2);
            }
            if !sh.running() {
                return;
            }
        }
    }
    sh.max("depth-completed", b.depth as u64);
}

pub fn replay(sh: &mut Shard, history: &[String], which: &str) {
    let ops: Vec<Op> = history.iter().filter_map(|s| Op::parse(s)).collect();
    println!("history: {}", ops.iter().map(|o| o.text()).collect::<Vec<_>>().join(" "));
    let ex = execute(&ops);
    match ex.problem {
        Some((prop, why)) => {
            println!("real collector vs model: {why} [{prop}]");
            if prop == which || which == "both" {
                sh.violation("collector-history", json!({"history": history}), why);
            }
        }
        None => println!("real collector agrees with the model after every operation"),
    }
}
