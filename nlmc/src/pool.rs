//! Parent side of the process pool: spawns isolated workers, watches them, pins crashes and hangs
//! on the case that caused them, and merges what the shards report.

use crate::shard::{Cfg, Tier};
use serde_json::{json, Value};
use std::collections::{BTreeMap, HashSet};
use std::io::{BufRead, BufReader};
use std::os::unix::process::{CommandExt, ExitStatusExt};
use std::process::{Command, Stdio};
use std::sync::atomic::{AtomicBool, AtomicU64, Ordering};
use std::sync::{Arc, Mutex};
use std::time::{Duration, Instant};

pub struct PoolCfg {
    pub nshards: u64,
    /// a worker that prints nothing for this long is killed
    pub batch_timeout: Duration,
    /// in step mode: wall-clock limit for one case
    pub case_timeout: Duration,
    /// stop the whole run after this many worker deaths
    pub max_deaths: usize,
    /// address-space limit of a worker in bytes
    pub rlimit_as: u64,
    pub extra_args: Vec<String>,
    /// worker executable (None: this executable)
    pub exe: Option<std::path::PathBuf>,
}

impl PoolCfg {
    pub fn for_tier(t: Tier) -> Self {
        PoolCfg {
            nshards: std::thread::available_parallelism().map(|n| n.get() as u64).unwrap_or(8).min(16),
            // a worker announces a case at least once per second; a single case that takes longer than
            // this is a hang (the slowest legitimate cases take about a second on an idle machine)
            batch_timeout: Duration::from_secs(if t == Tier::Quick { 30 } else { 120 }),
            case_timeout: Duration::from_secs(if t == Tier::Quick { 30 } else { 120 }),
            max_deaths: 3,
            rlimit_as: 8 << 30,
            extra_args: Vec::new(),
            exe: None,
        }
    }
}

#[derive(Default)]
pub struct PoolResult {
    pub summaries: Vec<Value>,
    pub violations: Vec<Value>,
    pub machinery: Vec<String>,
    pub deaths: Vec<Value>,
    pub complete: bool,
    pub wall_s: f64,
}

enum WorkerEnd {
    Summary(Value),
    Died { reason: String, last_hb: Option<u64>, last_begin: Option<(u64, String)> },
}

struct Shared {
    violations: Mutex<Vec<Value>>,
    machinery: Mutex<Vec<String>>,
    deaths: Mutex<Vec<Value>>,
    abort: AtomicBool,
}

fn run_worker(
    prop: &str,
    cfg: &Cfg,
    pc: &PoolCfg,
    shard: u64,
    from: u64,
    skip: &[u64],
    step: bool,
    shared: &Shared,
) -> WorkerEnd {
    let exe = pc.exe.clone().unwrap_or_else(|| std::env::current_exe().expect("current exe"));
    let mut cmd = Command::new(exe);
    cmd.arg("worker")
        .arg(prop)
        .arg(cfg.tier.name())
        .arg(cfg.seed.to_string())
        .arg(shard.to_string())
        .arg(pc.nshards.to_string())
        .arg("--from")
        .arg(from.to_string());
    if !skip.is_empty() {
        cmd.arg("--skip").arg(skip.iter().map(|x| x.to_string()).collect::<Vec<_>>().join(","));
    }
    if step {
        cmd.arg("--step");
    }
    for a in &pc.extra_args {
        cmd.arg(a);
    }
    cmd.stdin(Stdio::null()).stdout(Stdio::piped()).stderr(Stdio::inherit());
    let lim = pc.rlimit_as;
    unsafe {
        cmd.pre_exec(move || {
            let r = libc::rlimit { rlim_cur: lim, rlim_max: lim };
            libc::setrlimit(libc::RLIMIT_AS, &r);
            // no core files
            let z = libc::rlimit { rlim_cur: 0, rlim_max: 0 };
            libc::setrlimit(libc::RLIMIT_CORE, &z);
            Ok(())
        });
    }
    let mut child = match cmd.spawn() {
        Ok(c) => c,
        Err(e) => {
            shared.machinery.lock().unwrap().push(format!("cannot spawn worker: {e}"));
            return WorkerEnd::Died { reason: "spawn failed".into(), last_hb: None, last_begin: None };
        }
    };
    let pid = child.id() as i32;
    let stdout = child.stdout.take().unwrap();
    let last_activity = Arc::new(AtomicU64::new(0));
    let done = Arc::new(AtomicBool::new(false));
    let killed = Arc::new(AtomicBool::new(false));
    let start = Instant::now();
    let limit = if step { pc.case_timeout } else { pc.batch_timeout };
    // watchdog
    let wd = {
        let (la, done, killed) = (last_activity.clone(), done.clone(), killed.clone());
        std::thread::spawn(move || loop {
            std::thread::sleep(Duration::from_millis(100));
            if done.load(Ordering::SeqCst) {
                return;
            }
            let now = start.elapsed().as_millis() as u64;
            if now.saturating_sub(la.load(Ordering::SeqCst)) > limit.as_millis() as u64 {
                killed.store(true, Ordering::SeqCst);
                unsafe {
                    libc::kill(pid, libc::SIGKILL);
                }
                return;
            }
        })
    };
    let mut last_hb = None;
    let mut last_begin = None;
    let mut summary = None;
    let reader = BufReader::new(stdout);
    for line in reader.lines() {
        let line = match line {
            Ok(l) => l,
            Err(_) => break,
        };
        last_activity.store(start.elapsed().as_millis() as u64, Ordering::SeqCst);
        if shared.abort.load(Ordering::SeqCst) {
            unsafe {
                libc::kill(pid, libc::SIGKILL);
            }
        }
        let (tag, rest) = match line.split_once(' ') {
            Some(x) => x,
            None => continue,
        };
        match tag {
            "H" => last_hb = rest.parse::<u64>().ok(),
            "B" => {
                if let Some((i, d)) = rest.split_once(' ') {
                    let desc: String = serde_json::from_str(d).unwrap_or_else(|_| d.to_string());
                    last_begin = i.parse::<u64>().ok().map(|i| (i, desc));
                }
            }
            "V" => {
                if let Ok(v) = serde_json::from_str::<Value>(rest) {
                    shared.violations.lock().unwrap().push(v);
                }
            }
            "M" => {
                shared.machinery.lock().unwrap().push(rest.to_string());
            }
            "S" => summary = serde_json::from_str::<Value>(rest).ok(),
            _ => {}
        }
    }
    done.store(true, Ordering::SeqCst);
    let status = child.wait();
    let _ = wd.join();
    if let Some(s) = summary {
        return WorkerEnd::Summary(s);
    }
    let reason = if killed.load(Ordering::SeqCst) {
        format!("no progress for more than {} s (hang); killed", limit.as_secs())
    } else {
        match status {
            Ok(st) => match st.signal() {
                Some(sig) => format!("killed by signal {sig}"),
                None => format!("exited with status {:?} without a summary", st.code()),
            },
            Err(e) => format!("wait failed: {e}"),
        }
    };
    WorkerEnd::Died { reason, last_hb, last_begin }
}

/// Runs the whole enumeration of `prop` over `pc.nshards` isolated worker processes.
pub fn run_pool(prop: &str, cfg: &Cfg, pc: &PoolCfg) -> PoolResult {
    let t0 = Instant::now();
    let shared = Arc::new(Shared {
        violations: Mutex::new(Vec::new()),
        machinery: Mutex::new(Vec::new()),
        deaths: Mutex::new(Vec::new()),
        abort: AtomicBool::new(false),
    });
    let summaries = Arc::new(Mutex::new(Vec::new()));
    let complete = Arc::new(AtomicBool::new(true));
    std::thread::scope(|sc| {
        for shard in 0..pc.nshards {
            let shared = shared.clone();
            let summaries = summaries.clone();
            let complete = complete.clone();
            sc.spawn(move || {
                let mut skip: Vec<u64> = Vec::new();
                loop {
                    if shared.abort.load(Ordering::SeqCst) {
                        complete.store(false, Ordering::SeqCst);
                        return;
                    }
                    match run_worker(prop, cfg, pc, shard, 0, &skip, false, &shared) {
                        WorkerEnd::Summary(s) => {
                            summaries.lock().unwrap().push(s);
                            return;
                        }
                        WorkerEnd::Died { reason, last_hb, .. } => {
                            if shared.abort.load(Ordering::SeqCst) {
                                complete.store(false, Ordering::SeqCst);
                                return;
                            }
                            // pin the culprit: re-run from the last heartbeat, announcing every case
                            let from = last_hb.unwrap_or(0);
                            let culprit = match run_worker(prop, cfg, pc, shard, from, &skip, true, &shared) {
                                WorkerEnd::Died { reason: r2, last_begin: Some((i, d)), .. } => Some((i, d, r2)),
                                WorkerEnd::Died { reason: r2, last_begin: None, .. } => {
                                    shared.machinery.lock().unwrap().push(format!(
                                        "worker of shard {shard} died ({reason}) and again while pinning, before any case ({r2})"
                                    ));
                                    None
                                }
                                WorkerEnd::Summary(s) => {
                                    let fatal_signal = ["signal 11", "signal 6", "signal 7", "signal 4", "signal 8"].iter().any(|x| reason.contains(x));
                                    if fatal_signal {
                                        // memory corruption does not replay deterministically: the crash is real even
                                        // though no single case reproduces it in isolation
                                        let mut deaths = shared.deaths.lock().unwrap();
                                        deaths.push(json!({
                                            "index": from, "class": "process-death-unpinned",
                                            "case": format!("one of the cases of shard {shard} from index {from} on (the crash did not recur when they were re-run one by one)"),
                                            "detail": format!("a worker was {reason}; re-running its cases one by one did not crash: the interpreter corrupts memory nondeterministically"),
                                        }));
                                        if deaths.len() >= pc.max_deaths {
                                            shared.abort.store(true, Ordering::SeqCst);
                                        }
                                        drop(deaths);
                                        // the step-mode re-run covered the rest of the shard
                                        summaries.lock().unwrap().push(s);
                                        return;
                                    }
                                    shared.machinery.lock().unwrap().push(format!(
                                        "worker of shard {shard} died ({reason}) but the step-by-step re-run from case {from} completed: nondeterminism not captured"
                                    ));
                                    None
                                }
                            };
                            if shared.abort.load(Ordering::SeqCst) {
                                complete.store(false, Ordering::SeqCst);
                                return;
                            }
                            match culprit {
                                Some((i, d, r)) => {
                                    let mut deaths = shared.deaths.lock().unwrap();
                                    deaths.push(json!({"index": i, "class": "process-death", "case": d, "detail": r}));
                                    if deaths.len() >= pc.max_deaths {
                                        shared.abort.store(true, Ordering::SeqCst);
                                    }
                                    skip.push(i);
                                }
                                None => {
                                    complete.store(false, Ordering::SeqCst);
                                    return;
                                }
                            }
                        }
                    }
                }
            });
        }
    });
    let shared = Arc::try_unwrap(shared).ok().expect("shared");
    PoolResult {
        summaries: Arc::try_unwrap(summaries).ok().unwrap().into_inner().unwrap(),
        violations: shared.violations.into_inner().unwrap(),
        machinery: shared.machinery.into_inner().unwrap(),
        deaths: shared.deaths.into_inner().unwrap(),
        complete: complete.load(Ordering::SeqCst),
        wall_s: t0.elapsed().as_secs_f64(),
    }
}

pub struct Merged {
    pub enumerated: u64,
    pub cases: u64,
    pub nontrivial: u64,
    pub distinct_cases: u64,
    pub distinct_exact: bool,
    pub distinct_outcomes: u64,
    pub counters: BTreeMap<String, u64>,
    pub samples: Vec<Value>,
    pub known_hits: BTreeMap<String, u64>,
    pub caps_hit: Vec<String>,
}

fn read_hashes(path: &str, into: &mut HashSet<u64>) {
    if let Ok(bytes) = std::fs::read(path) {
        for c in bytes.chunks_exact(8) {
            into.insert(u64::from_le_bytes(c.try_into().unwrap()));
        }
    }
    let _ = std::fs::remove_file(path);
}

pub fn merge(summaries: &[Value]) -> Merged {
    let mut m = Merged {
        enumerated: 0,
        cases: 0,
        nontrivial: 0,
        distinct_cases: 0,
        distinct_exact: true,
        distinct_outcomes: 0,
        counters: BTreeMap::new(),
        samples: Vec::new(),
        known_hits: BTreeMap::new(),
        caps_hit: Vec::new(),
    };
    let mut hashes: HashSet<u64> = HashSet::new();
    let mut outcomes: HashSet<u64> = HashSet::new();
    let mut sum_distinct = 0u64;
    for s in summaries {
        m.enumerated = m.enumerated.max(s["enumerated"].as_u64().unwrap_or(0));
        m.cases += s["cases"].as_u64().unwrap_or(0);
        m.nontrivial += s["nontrivial"].as_u64().unwrap_or(0);
        sum_distinct += s["distinct_cases"].as_u64().unwrap_or(0);
        if !s["distinct_exact"].as_bool().unwrap_or(false) {
            m.distinct_exact = false;
        }
        if let Some(p) = s["hash_file"].as_str() {
            read_hashes(p, &mut hashes);
        }
        if let Some(p) = s["outcome_file"].as_str() {
            read_hashes(p, &mut outcomes);
        }
        if let Some(c) = s["counters"].as_object() {
            for (k, v) in c {
                let e = m.counters.entry(k.clone()).or_insert(0);
                if k.starts_with("max:") {
                    *e = (*e).max(v.as_u64().unwrap_or(0));
                } else {
                    *e += v.as_u64().unwrap_or(0);
                }
            }
        }
        if let Some(c) = s["known_hits"].as_object() {
            for (k, v) in c {
                *m.known_hits.entry(k.clone()).or_insert(0) += v.as_u64().unwrap_or(0);
            }
        }
        if let Some(a) = s["samples"].as_array() {
            for x in a {
                if m.samples.len() < 8 {
                    m.samples.push(x.clone());
                }
            }
        }
        if let Some(a) = s["caps_hit"].as_array() {
            for x in a {
                if let Some(x) = x.as_str() {
                    if !m.caps_hit.contains(&x.to_string()) {
                        m.caps_hit.push(x.to_string());
                    }
                }
            }
        }
    }
    m.distinct_cases = if m.distinct_exact { hashes.len() as u64 } else { sum_distinct };
    m.distinct_outcomes = outcomes.len() as u64;
    m
}
