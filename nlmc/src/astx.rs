//! Syntax-tree surgery used by the metamorphic checks (C09, C10).

use crate::refint::{Resolver, BUILTINS};
use nederlang::verif::{Expr, Stmt};

/// Applies `f` to every expression node, parents before children, in source order.
pub fn visit_exprs_mut(stmts: &mut [Stmt], f: &mut dyn FnMut(&mut Expr)) {
    for s in stmts {
        match s {
            Stmt::Expr(e) | Stmt::Return(e) | Stmt::Let(_, e) => visit_expr_mut(e, f),
            Stmt::Block(b) => visit_exprs_mut(b, f),
            Stmt::Break | Stmt::Continue => {}
        }
    }
}

pub fn visit_expr_mut(e: &mut Expr, f: &mut dyn FnMut(&mut Expr)) {
    f(e);
    match e {
        Expr::Infix { left, right, .. } => {
            visit_expr_mut(left, f);
            visit_expr_mut(right, f);
        }
        Expr::Prefix { right, .. } => visit_expr_mut(right, f),
        Expr::If { condition, consequence, alternative } => {
            visit_expr_mut(condition, f);
            visit_exprs_mut(consequence, f);
            if let Some(a) = alternative {
                visit_exprs_mut(a, f);
            }
        }
        Expr::Function { body, .. } => visit_exprs_mut(body, f),
        Expr::Call { left, arguments } => {
            for a in arguments {
                visit_expr_mut(a, f);
            }
            visit_expr_mut(left, f);
        }
        Expr::Assign { left, right } => {
            visit_expr_mut(left, f);
            visit_expr_mut(right, f);
        }
        Expr::Array { values } => {
            for v in values {
                visit_expr_mut(v, f);
            }
        }
        Expr::Index { left, index } => {
            visit_expr_mut(left, f);
            visit_expr_mut(index, f);
        }
        Expr::While { condition, body } => {
            visit_expr_mut(condition, f);
            visit_exprs_mut(body, f);
        }
        Expr::Int { .. } | Expr::Float { .. } | Expr::Bool { .. } | Expr::String { .. } | Expr::Identifier(_) => {}
    }
}

/// Applies `f` to every statement list (program, blocks, branches, loop and function bodies), outer first.
pub fn visit_lists_mut(stmts: &mut Vec<Stmt>, f: &mut dyn FnMut(&mut Vec<Stmt>)) {
    f(stmts);
    for s in stmts.iter_mut() {
        match s {
            Stmt::Expr(e) | Stmt::Return(e) | Stmt::Let(_, e) => lists_in_expr(e, f),
            Stmt::Block(b) => visit_lists_mut(b, f),
            _ => {}
        }
    }
}

fn lists_in_expr(e: &mut Expr, f: &mut dyn FnMut(&mut Vec<Stmt>)) {
    match e {
        Expr::Infix { left, right, .. } => {
            lists_in_expr(left, f);
            lists_in_expr(right, f);
        }
        Expr::Prefix { right, .. } => lists_in_expr(right, f),
        Expr::If { condition, consequence, alternative } => {
            lists_in_expr(condition, f);
            visit_lists_mut(consequence, f);
            if let Some(a) = alternative {
                visit_lists_mut(a, f);
            }
        }
        Expr::Function { body, .. } => visit_lists_mut(body, f),
        Expr::Call { left, arguments } => {
            for a in arguments {
                lists_in_expr(a, f);
            }
            lists_in_expr(left, f);
        }
        Expr::Assign { left, right } => {
            lists_in_expr(left, f);
            lists_in_expr(right, f);
        }
        Expr::Array { values } => {
            for v in values {
                lists_in_expr(v, f);
            }
        }
        Expr::Index { left, index } => {
            lists_in_expr(left, f);
            lists_in_expr(index, f);
        }
        Expr::While { condition, body } => {
            lists_in_expr(condition, f);
            visit_lists_mut(body, f);
        }
        _ => {}
    }
}

/// Gives every `stel` whose initialiser is an integer literal its own number (1, 2, 3, ...).
pub fn renumber_lets(stmts: &mut Vec<Stmt>) {
    let mut k = 0isize;
    visit_lists_mut(stmts, &mut |list| {
        for s in list.iter_mut() {
            if let Stmt::Let(_, Expr::Int { value }) = s {
                k += 1;
                *value = k;
            }
        }
    });
}

/// Does the name occur anywhere in these statements (as use, target, declaration, parameter or function name)?
pub fn mentions(stmts: &[Stmt], name: &str) -> bool {
    let mut found = false;
    let mut copy = stmts.to_vec();
    visit_lists_mut(&mut copy, &mut |list| {
        for s in list.iter() {
            if let Stmt::Let(n, _) = s {
                if n == name {
                    found = true;
                }
            }
        }
    });
    visit_exprs_mut(&mut copy, &mut |e| match e {
        Expr::Identifier(n) if n == name => found = true,
        Expr::Function { name: n, parameters, .. } => {
            if n == name || parameters.iter().any(|p| p == name) {
                found = true;
            }
        }
        _ => {}
    });
    found
}

/// Number of declarations the resolver made for this (already resolved) tree.
pub fn resolve(ast: &[Stmt]) -> Option<Resolver> {
    let mut r = Resolver::new();
    match r.program(ast) {
        Ok(()) => Some(r),
        Err(_) => None,
    }
}

/// Renames declaration `decl` and exactly the uses bound to it. `ast` must be the tree `res` resolved.
pub fn rename_decl(ast: &mut Vec<Stmt>, res: &Resolver, decl: u32, new: &str) {
    // declarations made by `stel`
    visit_lists_mut(ast, &mut |list| {
        for s in list.iter_mut() {
            let addr = s as *const Stmt as usize;
            if let Stmt::Let(n, _) = s {
                if res.lets.get(&addr).map(|r| r.decl) == Some(decl) {
                    *n = new.to_string();
                }
            }
        }
    });
    visit_exprs_mut(ast, &mut |e| {
        let addr = e as *const Expr as usize;
        match e {
            Expr::Identifier(n) => {
                if res.idents.get(&addr).map(|r| r.decl) == Some(decl) {
                    *n = new.to_string();
                }
            }
            Expr::Assign { left, .. } => {
                if res.idents.get(&addr).map(|r| r.decl) == Some(decl) {
                    if let Expr::Identifier(n) = &mut **left {
                        *n = new.to_string();
                    }
                }
            }
            Expr::Function { name, parameters, .. } => {
                if let Some(fi) = res.funcs.get(&addr) {
                    if fi.name.map(|r| r.decl) == Some(decl) {
                        *name = new.to_string();
                    }
                    for (i, p) in fi.params.iter().enumerate() {
                        if *p == decl {
                            parameters[i] = new.to_string();
                        }
                    }
                }
            }
            _ => {}
        }
    });
}

/// Number of identifier occurrences that are resolved as variables (uses, assignment targets, callees).
pub fn count_ident_uses(ast: &[Stmt]) -> usize {
    let mut copy = ast.to_vec();
    let mut n = 0;
    visit_exprs_mut(&mut copy, &mut |e| {
        if let Expr::Identifier(name) = e {
            if !BUILTINS.contains(&name.as_str()) {
                n += 1;
            }
        }
    });
    n
}

/// Replaces the k-th such occurrence by `name`.
pub fn replace_ident_use(ast: &mut Vec<Stmt>, k: usize, name: &str) {
    let mut n = 0;
    visit_exprs_mut(ast, &mut |e| {
        if let Expr::Identifier(cur) = e {
            if !BUILTINS.contains(&cur.as_str()) {
                if n == k {
                    *cur = name.to_string();
                }
                n += 1;
            }
        }
    });
}

/// All integer literals that are operands of an infix operator (for C10's "literal or variable" variants).
pub fn count_int_operands(ast: &[Stmt]) -> usize {
    let mut copy = ast.to_vec();
    let mut n = 0;
    visit_exprs_mut(&mut copy, &mut |e| {
        if let Expr::Infix { left, right, .. } = e {
            for side in [left, right] {
                if matches!(**side, Expr::Int { .. }) {
                    n += 1;
                }
            }
        }
    });
    n
}
