#!/usr/bin/env python3
"""Regenerates /verif/MANIFEST.json from the table below (kept as a script so the file stays valid and consistent)."""
import json, subprocess

HOOK_COMMITS = subprocess.run(["git","-C","/repo","log","--format=%h %s"],capture_output=True,text=True).stdout.splitlines()
hook_commits = [l.split()[0] for l in HOOK_COMMITS if l.split(" ",1)[1].startswith("verif hooks")]

CHECKS = {
 "C01": dict(level="exploration", design="5/C01",
   technique="bounded-exhaustive enumeration of programs by size over slice grammars, each run on the real compiler+VM and compared with a definitional interpreter over the same syntax tree (differential model checking of every enumerated program)",
   text="Every program of ten slice grammars up to a node bound (2.4 million programs in the quick tier) is printed, parsed by the real parser, evaluated by the reference interpreter and by the real compiler and VM; value, output and error kind/point must agree. Exhaustive within the stated alphabets and bounds, nothing beyond them.",
   note="trusted: the reference interpreter nlmc/src/refint.rs (validated against the repository's own test expectations and README by `nlmc selftest`), the printer, the hooks for output capture and instruction budget; excluded and counted: the unspecified behaviours U1-U14 of DESIGN 4.3"),
 "C06": dict(level="exploration", design="5/C06",
   technique="complete cross-product enumeration of operand lattices x operators x syntactic forms on the real pipeline, against checked i64/f64/str reference operators; order axioms checked over all triples",
   text="All pairs of a 370-value integer boundary lattice x 11 operators x 3 syntactic forms (4.1 million programs), all float, string, cross-type and boolean tables, and the order axioms over all triples of three 40-value sets, each evaluated by the real interpreter and compared with exact reference arithmetic.",
   note="trusted: refint::infix/prefix (checked i64 arithmetic within the 61-bit range, Rust f64, str ordering); operands outside the lattices are not covered"),
}

CHECKS["C05"] = dict(level="exploration", design="5/C05",
   technique="bounded-exhaustive enumeration of input texts (all token strings up to length L, all character strings up to length n, all single-token edits and truncations of a corpus, directed size ladders) run through the public eval in isolated worker processes with a watchdog",
   text="3.6 million inputs in the quick tier: all token strings of length <= 4 over a 43-token vocabulary, all texts of <= 3 characters over 36 character classes, every truncation and single-token edit of the corpus, and a directed boundary family including size ladders across the 8/16-bit limits and nesting/recursion depth ladders. Each must end in a value or one of the five error kinds: no panic, abort, probe breach, memory-limit hit or hang (instruction-budget exhaustion is accepted only for inputs spelling out a loop or function). Workers run on an ordinary 8 MiB stack so native-stack exhaustion is seen.",
   note="trusted: worker isolation (rlimit, watchdog) and the instruction-budget hook; long random noise is not reachable by enumeration")

CHECKS["C07"] = dict(level="exploration", design="5/C07",
   technique="bounded-exhaustive enumeration of syntax trees (all expression trees to depth D over all operator pairs, all statement trees of the slices), printed with minimal parentheses from the documented table and under every single (quick) / double (thorough) layout deviation, parsed by the real parser and compared for tree equality",
   text="4.8 million renderings in the quick tier: all 40 826 expression trees of depth <= 3 over 14 operators and two leaves, postfix/prefix forms in every operand position, all `a op= e` for e of depth <= 2, all else-if chains to length 3, every statement tree of five slices, and for a base set every rendering with one gap changed to each of 13 alternative separators (11 white-space code points, a comment, nothing), each optional `;`/`,` dropped, each sub-expression parenthesised. The parser must return exactly the generated tree.",
   note="trusted: the printer's precedence table and the maximal-munch rule `may_touch` (written from the README/property, not from the parser); U13 (extent of prefix operators) is avoided by always parenthesising non-atomic prefix operands")

CHECKS["C08"] = dict(level="exploration", design="5/C08",
   technique="bounded-exhaustive enumeration of token sequences x separator choices, of words over a class-complete alphabet against a reference maximal-munch lexer, and of string contents / raw literal bodies against a reference escape decoder, all on the real lexer and parser",
   text="2.0 million texts in the quick tier: every token string of length <= 3 over a 52-entry vocabulary (keywords, operators, identifiers embedding keywords, numbers, strings) under every per-gap separator choice {nothing where maximal munch allows, space, newline, comment}; every word of <= 3 characters over {a,é,_,1,0,.}; every string content of <= 4 characters over 8 characters through the documented escapes; every raw literal body of <= 4 characters over {a,quote,backslash,n} followed by more input; illegal characters, unterminated strings and lone & | in every statement context must be rejected; token spans must account for every byte.",
   note="trusted: the token-dump hook (verif::tokens: Debug rendering and end offset of every token), printer::may_touch, and the reference lexer/decoder in props/c08.rs; no token kind name is hard-coded (kinds are learnt from single-token inputs)")

CHECKS["C02"] = dict(level="model_checking", design="5/C02",
   technique="explicit-state exploration of all reachable states of the abstract stack machine of each program's real bytecode (every path, both branch directions), over a bounded-exhaustive set of accepted inputs; conformance replay of every program's concrete VM trace inside the abstract state graph; contract probes at the VM's unchecked accesses",
   text="For 2.4 million accepted inputs (all slice programs, all token strings of length <= 4, all single-token edits/truncations of the corpus, a directed nested-function family) the bytecode produced by the real compiler is explored completely as an abstract stack machine (49 million states in the quick tier): no pop below the locals, every fetch and jump on an instruction boundary inside the code, operands in range, every path ends in Halt/Return, code of different function contexts disjoint. Every program is also executed on the real VM with probes on and every concrete step must be a state of the abstract graph (2.4 million traces, 47 million steps).",
   note="trusted: the 45-row stack-effect table of nlmc/src/bcmc.rs (kept bound to vm.rs by the conformance replay), the opcode-table hook, the probe sites; heights are explored exactly up to 96 slots above the frame base")

CHECKS["C03"] = dict(level="model_checking", design="5/C03",
   technique="breadth-first explicit-state search over collector operation histories executed on the real GC/Object code (state = reachability model + real internal object order + real mark bits), plus bounded-exhaustive enumeration of allocating programs run under a shadow heap with a post-condition at every collection and a liveness check at every dereference",
   text="(a) All histories up to depth 6 over a universe of 3 objects (depth 8 / 4 objects thorough) of allocate / link (cycles included) / unlink / collect with every root subset / hand over / re-trace / drop-collector, each re-executed from scratch on the real collector: every object the reachability model considers live is still allocated with unchanged contents, nothing released twice (61 000 states, 225 000 transitions quick). (b) 630 000 programs of five slices run with the shadow heap: 67 000 of them run a collection while a heap object is live; reachable => allocated at every collection, no dereference of a released box, result graph alive, value/output/error equal to the reference interpreter.",
   note="trusted: shadow-heap hooks in object.rs/gc.rs, the reachability model of heapmc.rs; the model follows the interpreter's ownership discipline (caller-owned objects never hold collector-managed ones); roots the VM forgets to pass are caught through their consequences")
CHECKS["C04"] = dict(level="fault_enumeration", design="5/C04",
   technique="the collector-history state graph with the dual invariant (allocated set == model live set, managed list == model managed set, empty ledger at the end), plus exhaustive crash-point enumeration: every program cut after k instructions for every k below its run length, with a full allocation ledger audit after each run",
   text="5.4 million (program, abort point) runs in the quick tier: every second program of five allocating slices and the whole corpus is aborted after every instruction count below its length through the VM's ordinary error exit; after each run, and after the harness releases the result graph (each distinct box once), the ledger of boxes must be empty, nothing released twice, the result not already released. Plus the 61 000-state collector-history graph checked for exact agreement of the real allocated/managed sets with the model after every operation.",
   note="trusted: the allocation ledger (allocate/destroy hooks), the instruction-budget hook as the injected fault; boxes not obtained through object.rs::allocate are invisible to the ledger")

CHECKS["C09"] = dict(level="exploration", design="5/C09",
   technique="bounded-exhaustive enumeration of scoping programs compared with a static-resolution reference interpreter, and for every program all renamings of one declaration, all insertions of an unused (shadowing) declaration and all single-occurrence replacements by an undeclared name (metamorphic variants enumerated completely)",
   text="3.2 million base programs of the scope slice (nested blocks, shadowing at every depth, re-declaration, named functions in blocks and in functions, calls) up to 6 nodes plus a nested-function directed family, and 15.5 million variant runs in the quick tier: consistent renaming and unused-declaration padding must not change value/output/error; an undeclared name anywhere must give a reference error before any output; the base outcome must equal the reference interpreter's.",
   note="trusted: refint::Resolver (static resolution rules of DESIGN 4.2), the AST surgery of astx.rs; programs the model marks unspecified (U1/U2/U6/U7) are not used as bases")

CHECKS["C10"] = dict(level="exploration", design="5/C10",
   technique="bounded-exhaustive enumeration of closed programs, each compared with all of its semantics-preserving variants (wrap into a function, literal to variable, mirrored operands, prepended constant-pool-shifting statements, bystander literals) on the real pipeline; metamorphic oracle, no reference model in the comparison",
   text="664 000 base programs and 10 million variant runs in the quick tier; every variant must agree with its base program on value, output and error kind. 1.7 million variants compile to a different set of opcode kinds than their base (the fused, local and global opcode families are all exercised against each other).",
   note="trusted: the transformations of props/c10.rs preserve meaning under DESIGN 4.2; programs the model marks unspecified are not used as bases; the base itself is checked against the model by C01")
CHECKS["C11"] = dict(level="exploration", design="5/C11",
   technique="bounded-exhaustive enumeration of control-flow templates compared with the reference interpreter, iteration-count ladders (0, 1, 2, 100, 70 000) with probe suffixes, and explicit-state cycle analysis of each program's real bytecode (no reachable cycle of the abstract stack machine may grow the stack)",
   text="1.28 million programs in the quick tier: all statement trees over blocks, if/else, counter loops (0, 1, 3 iterations), immediately applied function bodies with numbered trace points, stop, volgende, antwoord, declarations and empty blocks in every position (top level and inside a function), every early exit in every expression context, and every loop-body template iterated 0..70 000 times before a probe; trace, value and error must equal the reference interpreter's, and the abstract stack machine of each program (44 million states) must have no stack-growing cycle.",
   note="trusted: refint control-flow rules; bcmc stack-effect table; the formerly recorded finding KF-C11-01 (early exit with pending operands) is repaired (fix 1e5ef19): any growing cycle is a violation")

CHECKS["C12"] = dict(level="exploration", design="5/C12",
   technique="bounded-exhaustive enumeration of call expressions in every expression context over a prelude of functions (marker function makes evaluation order observable), generated parameter/local/pending-operand shapes, nested-function families and directed recursion ladders, compared with the reference interpreter / closed forms",
   text="2.2 million programs in the quick tier: every expression of <= 6 nodes over calls of 8 functions (0-2 parameters, 0-2 locals, accumulating recursion, function-taking and function-returning functions) in operand, argument, element, condition and initialiser positions; 400 generated shapes of 0-4 parameters x 0-4 locals x pending operands, called from the top level and from inside another activation; functions nested in functions with and without colliding globals; self and mutual recursion with 0-2 pending operands to depth 20 000 and across the 65 535-slot limit (beyond it an error is required, never a wrong value).",
   note="trusted: refint call semantics; closed-form expectations of the recursion ladder (cross-checked against the model up to depth 5 000); U6 arity mismatch excluded")
CHECKS["C13"] = dict(level="exploration", design="5/C13",
   technique="exhaustive enumeration of all operation sequences up to depth d over an 80-operation menu on three names (declare, alias, nest, boundary reads, writes, lengte, pass-to-writer) and a complete index sweep (every length 0..6 x every index -(len+2)..(len+2) x get/set/ill-typed set, every character-width mix, every value type as index and stored value), each rendered as a program and compared with the reference interpreter",
   text="522 000 programs in the quick tier (all 80^3 operation sequences + the sweep); after every step the contents and length of every name are dumped through every alias, so a change made through one name must be seen through all aliases, indices count code points, and a failed access leaves the sequence unchanged.",
   note="trusted: refint sequence semantics; U8 (aliased or non-character string replacement) excluded and counted")
CHECKS["C14"] = dict(level="exploration", design="5/C14",
   technique="complete tables of builtin x argument value over a 70-value alphabet covering every type and numeric/text boundary, all 12^2 / 12^3 argument tuples for 2 and 3 arguments, integer-lattice and float round trips, and all print format strings of <= 4 pieces x argument tuples, compared with reference builtins",
   text="80 000 calls in the quick tier: every builtin on every alphabet value directly and through a variable (result type and value printed), idempotence of conversions, arity 0/2/3 tables, int(string(i)) / string(i) / int(float(i)) for all 370 lattice integers, float round trips, print with all 781 format strings of <= 4 pieces over {{}, {, }, a, space} x 76 argument tuples and with a first argument of every type.",
   note="trusted: reference builtins in refint.rs; U11 (non-canonical number spellings, int of NaN/inf) not compared")

CHECKS["C15"] = dict(level="exploration", design="5/C15",
   technique="complete enumeration of boundary value sets through the public constructors/accessors (integer lattice, function descriptor boundary pairs, float bit patterns, strings, nested arrays) and the full 200 x 200 equality cross product, executed under both build profiles",
   text="40 646 checks per build profile (release-like and debug-assertions/overflow-checks): round trip, type tag, immediacy and box alignment of every value, and == / != on all 40 000 ordered pairs of a fixed 200-value set (equal iff same type and content, NaN excepted, equal content at different addresses included, never a panic).",
   note="trusted: the facade re-export of GC and the address accessor; array == array is outside the property")
CHECKS["C16"] = dict(level="model_checking", design="5/C16",
   technique="exhaustive preemption-bounded schedule exploration of two real evaluations on OS threads under a controlled baton scheduler (yield point before every VM instruction and between the phases of eval; every schedule with <= p preemptions run to completion, failing schedules replayed), exhaustive enumeration of evaluation histories against fresh-process outcomes, and item-by-item comparison of outcome tables between two builds of the interpreter",
   text="Quick tier, per build profile: all 812 ordered histories of <= 2 programs of a 28-program colliding batch, every evaluation compared with the outcome of the same text alone in a fresh release-build process; all 9 167 schedules with <= 2 preemptions of all 55 unordered pairs of a 10-program subset (18 114 schedules actually interleave the two instruction streams; up to 36 scheduling points each); a 202 573-entry (program, outcome) table across the integer overflow boundaries and the arith slice that must be identical under the release-like and the debug-assertion/overflow-check build.",
   note="trusted: yield-point and print-capture hooks (per-thread control block); scheduler granularity is one VM instruction: unsynchronised shared memory touched inside a single instruction is not interleaved (the crate has no statics/locks/atomics); solo outcomes come from the release build")
CHECKS["C17"] = dict(level="model_checking", design="5/C17",
   technique="explicit-state search over sessions on a real retained (Compiler, VM) pair: all sessions of <= 3 lines over a 52-line alphabet, breadth-first search with states merged on the fingerprint of compiler + VM + model environment, and crash-point enumeration (every line cut after every instruction count) with an effect-prefix oracle; every line compared with a session model built on the reference interpreter and, for all-success sessions, with eval of the concatenated text",
   text="Quick tier: 143 364 sessions (all of <= 3 lines over 52 lines covering declarations, assignments, loops, self-contained functions, heap values, parse failures, compile failures at every statement position, run-time failures after k assignments and inside nested calls), 9 079 injected failures at every instruction of every line of every session of <= 2 lines followed by ten probe lines, and a 33 705-state BFS to depth 5 over a 14-line core alphabet. The shadow heap stays on across lines (a global referring to a released box is a violation).",
   note="recorded finding KF-C17-01 (a declaration of a line that failed before the declaration completed stays declared: known_findings.jsonl, DESIGN 0.3; the check prints a KNOWN-FINDING line and exits 0); trusted: refint session model (Interp::line, effect_limit), fingerprint hooks; calls to functions defined by earlier lines are outside the property; results are not released by the harness in session mode")

# families added after the first version of the table (the measured numbers are in evidence/<id>.json)
EXTRA = {
 "C01": " Later additions: composition templates (every ordered triple of 37 one-hole constructs around 10 leaves, top level and function-local), functions defined in nested top-level scopes, and the size ladders of ladders.rs (jump distances, entry offsets, local/global/constant counts and block nesting around every power of two and across the compiler's size limit), each rung compared with the reference interpreter; scope events x kinds of use (every sequence of 2 / 3 events from a menu of 73 after a declaration, at top level, in a block and in a function body). Rounds 15-20: scope events x kinds of use; descriptor literals; an exit behind N pending operands (N to 1 025 / 4 097).",
 "C02": " Later additions: composition templates and all size-ladder programs (static exploration + conformance replay on code of up to 64 KiB). Heights are explored exactly; an instruction reached with more than 64 different heights is reported as lying on a stack-growing cycle.",
 "C05": " Later additions: calls with as many arguments as parameters across the 255-argument limit; 30 refused constructs quoting a long text with a wide character at every position. Also runs the repository's own command-line program, built from /repo in the plain dev profile (no optimisation) and in the release profile, one process per case with an 8 MiB stack, on long-run ladders (runs of white space / comment lines / long tokens at 2^10..2^18 (2^21), counted constructs, nesting around and beyond the parser's limit, run-time depth): no process is killed, both builds print the same, closed-form results where known. Rounds 17-20: endless recursion of nine function shapes, file shapes (beginnings x bodies x endings, files that are not UTF-8), the prompt's liveness on every session of C17, on non-UTF-8 lines and on an unreadable input.",
 "C07": " Later additions: block-ended expressions (als, zolang, functie) without parentheses as left/right operand of every operator and as callee in 16 statement and expression contexts.",
 "C09": " Later additions: functions defined in top-level blocks / branches / loop bodies nested to depth 3 with every subset of levels declaring the same name; slot-number ladders (many globals, nested block locals, each read back); scope events x kinds of use (nine kinds of use directly / inside a block, branch or one-shot loop that does or does not declare the name again / inside a function with that parameter / after a second declaration; every pair of events, three contexts). Rounds 18-20: names declared by named function literals in operand position, parameterless functions using an outer name, a same-named global next to a local; 27 pairs of confusable names x 8 programs.",
 "C10": " Later additions: literal-pristine family (literals through 12 value-preserving contexts, modified in place, re-evaluated); constant-pool ladders (ints, floats, strings; indices across 255 and 65 535; the same literals again after the pool has grown; at top level and inside a function).",
 "C11": " Later additions: condition-driven loops around every body of <= 2 statements, literal-`ja` loops, depth-bounded templates, and jump-distance ladders up to the 64 KiB code limit (differential + static).",
 "C12": " Later additions: arity ladder (0..12 and around every power of two up to 255 arguments, x 0/1/3 locals, every parameter read back), empty bodies, locals in sibling blocks, frame-size and entry-offset ladders. Rounds 16-18: descriptor literals; frames of 7/10/16/40 slots at the recursion limit; one name denoting two functions of different arity (16 arity pairs x 6 mechanisms).",
 "C03": " Later additions: allocation-count ladders (N objects created without a collection in between, N around every power of two, garbage and live, followed by a call / an error) under the shadow heap. Rounds 16-19: a 2^21+1 rung; integer decoys (numbers whose bits are the address of a live object) next to every collector operation; the program's result survives trailing declarations with 0..4 097 live objects; callers hold fresh values on the stack while a callee allocates n objects.",
 "C04": " Later additions: allocation-count ladders as in C03 with the ledger audit, cut short around every power-of-two instruction count. Rounds 16-19: as C03 (decoys, result-survives and callers-hold programs), each with its abort points.",
 "C06": " Later additions: strings of 3..33 characters differing at every pair of positions in opposite directions, at one position, by a wide character, or by being a prefix. Rounds 17-19: the same object on both sides of every operator (NaN); every operator in its fused forms on the variable in slot S (S to 300 and around powers of two to 4 096).",
 "C13": " Later additions: length ladders (strings and arrays around every power of two up to 257, one wide character at every position, every index read from both ends, writes around it); literal-pristine family; self-consistency where the model is silent (U8): after replacing a character by zero or several characters the printed text, lengte and per-character reads from both ends must describe the same string. Rounds 16-20: strings looked at before an in-place edit (every length to 70 and around 100/128/256/1000); an element taken out of a text is a text of its own.",
 "C17": " Later additions: deviation-bounded long sessions: four ordinary ten-line sessions, every crash point of every line with the rest of the session as continuation, and every insertion of one or two of 40 deviation lines at every position. Also drives the REAL interactive prompt: the repository's command-line program (dev and release build) fed sessions on standard input, its output compared with the session model prompt by prompt (2 200 sessions quick), it must survive every failing line and end at end of input.",
 "C16": " Later additions: the batch has 40 programs (values equal under == but not identical, e.g. 0.0 / -0.0, 1 / 1.0); one 6 000-program history; a symbol-table scan for writable statics; violations carry the worker's evaluation log so that replay reproduces; recursion to within two levels of the deepest frame for 9 frame sizes in the profile table. Also runs the repository's own command-line program, built from /repo in the plain dev profile (no optimisation) and in the release profile, one process per case with an 8 MiB stack, on long-run ladders (runs of white space / comment lines / long tokens at 2^10..2^18 (2^21), counted constructs, nesting around and beyond the parser's limit, run-time depth): no process is killed, both builds print the same, closed-form results where known. Rounds 18-20: file shapes; n function returns that each free an object (n to 2^16+1 / 2^17+1).",
}
for k, v in EXTRA.items():
    CHECKS[k]["text"] += v
# rounds 21-22
EXTRA2 = {
 "C04": " Rounds 21-22: results of N distinct objects with one object occurring twice (six shapes, N one by one from 60 to 140 and around 256 / 512 / 1024, to 4 097; thorough to 1 100 one by one), released the way the repository's tests do.",
 "C05": " Rounds 21-22: values that contain themselves or each other (six shapes) under every operator in nine operand arrangements, every builtin, indexing, element assignment, rendering and as the result.",
 "C06": " Rounds 21-22: what consumes the result of a fused form (13 consumers: branch and loop conditions, negation, && / ||, element, argument, store, return) for every type and 24 lattice integers x 4 literals x 13 operators.",
 "C07": " Rounds 21-22: every slice program of at most 9 tokens written 130 (thorough also 1 100) times one after the other, plain and with op= / else-if sugar.",
 "C08": " Rounds 21-22: every one of ~5 000 code points directly behind a backslash in a string literal (5 positions); literal forms of other languages (every ASCII letter and 24 prefixes glued to 6 string literals in 4 contexts, 14 digit runs continued by letters).",
 "C09": " Rounds 21-22: a name declared twice with a function in between that uses the first, for all 3 x 3 ways of declaring it (variable, named function statement, variable holding a function literal).",
 "C10": " Rounds 21-22: 36 pairs of different texts a shortcut could take for one (equal under x31 / x33 / sum / xor hashes, anagrams, equal ends, case, look-alikes, canonically equivalent) as two literals of one program, 8 programs each.",
 "C14": " Rounds 21-22: long texts that are not numbers with a 2-, 3- or 4-byte character across every byte offset 1..140 and around 255 ... 4096 through every builtin; where U11 leaves the ANSWER open a crash is still a violation.",
 "C15": " Rounds 21-22: every float pattern also against 25 neighbours (1-3 units in the last place, single mantissa bits, relative / absolute offsets 2^-52 .. 2^-40).",
 "C17": " Rounds 21-22: 19 more deviation lines, one per kind of run-time failure at its own site in the machine (inside builtins with arguments pending, operators on heap values, index reads and writes, calls of non-functions and with the wrong arity, zero divisors, range overflow).",
}
for k, v in EXTRA2.items():
    CHECKS[k]["text"] += v
# round 23
EXTRA3 = {
 "C01": " Rounds 21-23: the scope-event menu has 85 events (blocks ending in an exit, function reads inside shadowing scopes).",
 "C05": " Round 23: self-nesting of every short token template (<= 4 tokens over ten, 5 over six, a hole at every position, nested 45 times in itself).",
 "C07": " Round 23: prefix operators in front of literals of every magnitude in seven operand positions.",
 "C09": " Round 23: scope events with blocks that declare the name and end in an exit, and function reads inside shadowing scopes.",
 "C14": " Round 23: print with a first argument whose rendering contains placeholders (lists of texts) and 0-3 further arguments.",
 "C16": " Round 23: the profile table also has the values around the square roots of 2^60, 2^63 and 2^64.",
}
for k, v in EXTRA3.items():
    CHECKS[k]["text"] += v
CHECKS["C02"]["note"] = CHECKS["C02"]["note"].replace("heights are explored exactly up to 96 slots above the frame base", "heights are explored exactly, at most 64 different heights per instruction")

NOT_YET = {}
props = [json.loads(l) for l in open("/verif/properties.jsonl")]
checks = []
na = []
for p in props:
    pid = p["id"]
    if pid in CHECKS:
        c = CHECKS[pid]
        checks.append({
            "property_id": pid,
            "quick_cmd": f"./check {pid} --tier quick",
            "thorough_cmd": f"./check {pid} --tier thorough",
            "evidence_file": f"/verif/evidence/{pid}.json",
            "replay_cmd_template": f"./check {pid} --replay {{path}}",
            "engine": "nlmc",
            "level_claimed": {"category": c["level"], "text": c["text"], "design_ref": c["design"]},
            "level_note": c["note"],
            "technique": c["technique"],
        })
    else:
        na.append({"property_id": pid, "reason": NOT_YET.get(pid, "check not built yet in this round (design in DESIGN.md section 5); not claimed until it runs clean")})

m = {
 "version": 1,
 "setup_cmd": "./setup.sh",
 "hooks": {
   "guard": "cargo feature `verif` of the nederlang crate (all hook code is under #[cfg(feature = \"verif\")])",
   "enable": "the harness crate /verif/nlmc depends on nederlang by path with features = [\"verif\"]",
   "baseline_off_cmd": "cd /repo && cargo test --workspace --no-fail-fast --offline",
   "source_commits": hook_commits,
   "add_only": True,
 },
 "engines": [
   {"name": "nlmc", "path": "/verif/nlmc", "serves_properties": sorted(CHECKS.keys()),
    "kind_free_text": "hand-rolled bounded-exhaustive explorers in Rust over the real interpreter (process-isolated workers, streaming size-ordered enumeration, reference interpreter over the real syntax tree, abstract stack machine over real bytecode, BFS over operation histories, preemption-bounded scheduler)"},
 ],
 "checks": checks,
 "not_applicable": na,
 "notes": "All checks: exit 0 = held on everything explored (KNOWN-FINDING lines possible), exit 1 + VIOLATION line = violation, exit 2 = machinery failure (never a verdict). known_findings.jsonl lists recorded findings and `fixed:` entries.",
}
json.dump(m, open("/verif/MANIFEST.json","w"), indent=1)
print("checks:", [c["property_id"] for c in checks], "not_applicable:", len(na))
