#!/bin/sh
# runs the thorough tier of the given checks one after the other, logs under /tmp/thorough
mkdir -p /tmp/thorough
for id in "$@"; do
  start=$(date +%s)
  /verif/check $id --tier thorough > /tmp/thorough/$id.log 2>&1
  rc=$?
  echo "$id exit=$rc $(( $(date +%s) - start )) s: $(grep -E "^$id thorough" /tmp/thorough/$id.log | cut -c1-160)" >> /tmp/thorough/summary.txt
done
