#!/usr/bin/env python3
"""Generates first-order syntactic mutants of /repo/src (outside test modules and verif-guarded code), keeps
those that compile and that the repository's own test suite does not kill ("survivors"), as patch files.

  tools/mutate.py gen <outdir> [--stride N --offset K] [--jobs J]

This is tooling for evaluating the checks (which survivors do they kill?), not a check: nothing registered in
MANIFEST.json depends on it. Worktrees live under /tmp and are removed at the end."""
import os, re, subprocess, sys, json, shutil, concurrent.futures as cf

FILES = ["lexer.rs", "parser.rs", "compiler.rs", "vm.rs", "object.rs", "gc.rs", "builtins.rs", "symbols.rs", "lib.rs"]

OPS = [
    (r" < ", " <= "), (r" <= ", " < "), (r" > ", " >= "), (r" >= ", " > "),
    (r" == ", " != "), (r" != ", " == "),
    (r" \+ 1\b", " + 0"), (r" - 1\b", " - 0"), (r" \+ 1\b", " + 2"), (r" - 1\b", " - 2"),
    (r" \+ ", " - "), (r" - ", " + "), (r" \* ", " / "),
    (r" && ", " || "), (r" \|\| ", " && "),
    (r"\btrue\b", "false"), (r"\bfalse\b", "true"),
    (r"if !", "if "), (r"if ([a-z_\.]+\()", r"if !\1"),
    (r"\.saturating_sub\(", ".wrapping_sub("), (r"\.checked_add\(", ".checked_sub("), (r"\.checked_sub\(", ".checked_add("),
    (r"\.checked_mul\(", ".checked_add("),
    (r" as u16", " as u8"), (r" as usize", " as u8 as usize"),
    (r"\bu16::MAX\b", "u8::MAX as u16"),
    (r"\.len\(\)", ".len().saturating_sub(1)"),
    (r"\bSome\(", "None.or(Some("),  # placeholder never applied (kept out below)
]
OPS = [o for o in OPS if "None.or" not in o[1]]

# a second operator set (tools/mutate.py gen <dir> --set B)
OPS_B = [
    (r" < ", " > "), (r" > ", " < "), (r" <= ", " >= "), (r" >= ", " <= "),
    (r" \+= ", " -= "), (r" -= ", " += "),
    (r"\.min\(", ".max("), (r"\.max\(", ".min("), (r"\.first\(\)", ".last()"), (r"\.last\(\)", ".first()"),
    (r"\.is_some\(\)", ".is_none()"), (r"\.is_none\(\)", ".is_some()"), (r"\.is_ok\(\)", ".is_err()"), (r"\.is_err\(\)", ".is_ok()"),
    (r"\bbreak;", "continue;"), (r"\bcontinue;", "break;"),
    (r" as isize", " as i32 as isize"), (r" as u32", " as u16 as u32"), (r" as i64", " as i32 as i64"), (r" as u16", " as u16 as u8 as u16"),
    (r"\.\.=", ".."), (r"\b0\.\.", "1.."),
    (r" / ", " * "), (r" % ", " / "), (r" & ", " | "), (r" \| ", " & "), (r" << ", " >> "), (r" >> ", " << "),
    (r"\b([1-9][0-9]*)\b(?!\.)", "INCR"), (r"\b0\b(?![.x])", "1"),
    (r"\.saturating_sub\(", ".saturating_add("), (r"\.wrapping_sub\(", ".wrapping_add("), (r"\.wrapping_add\(", ".wrapping_sub("),
    (r"\.chars\(\)", ".chars().rev()"), (r"\.iter\(\)\.rev\(\)", ".iter()"),
    (r"\.pop\(\)", ".last().cloned()"),
    (r"\} else if ", "} else if !"),
]


def candidate_lines(path):
    """(line number, text) of ordinary code lines: outside #[cfg(test)] modules and verif-guarded items."""
    lines = open(path).read().split("\n")
    out = []
    in_tests = False
    skip_depth = None
    depth = 0
    guard_next = False
    for i, l in enumerate(lines):
        s = l.strip()
        if s.startswith("#[cfg(test)]"):
            in_tests = True
        if in_tests:
            continue
        if 'cfg(feature = "verif")' in s or "cfg(feature=\"verif\")" in s:
            guard_next = True
            continue
        opens, closes = l.count("{"), l.count("}")
        if guard_next:
            # skip the guarded item: a single statement/line, or a braced block
            if opens > closes and skip_depth is None:
                skip_depth = depth
                depth += opens - closes
                guard_next = False
                continue
            guard_next = False
            depth += opens - closes
            continue
        if skip_depth is not None:
            depth += opens - closes
            if depth <= skip_depth:
                skip_depth = None
            continue
        depth += opens - closes
        if s.startswith("//") or s.startswith("#[") or "verif::" in s or "debug_assert" in s or s.startswith("use "):
            continue
        out.append((i, l))
    return lines, out


ACTIVE_OPS = OPS


def all_mutants():
    ms = []
    for f in FILES:
        path = f"/repo/src/{f}"
        lines, cands = candidate_lines(path)
        for (i, l) in cands:
            code = l.split("//")[0]
            for (pat, rep) in ACTIVE_OPS:
                for m in re.finditer(pat, code):
                    # not inside a string literal (rough: even number of quotes before the match)
                    if code[: m.start()].count('"') % 2 == 1:
                        continue
                    if rep == "INCR":
                        new = code[: m.start()] + str(int(m.group(1)) + 1) + code[m.end():] + l[len(code):]
                    else:
                        new = code[: m.start()] + re.sub(pat, rep, code[m.start(): m.end()], count=1) + code[m.end():] + l[len(code):]
                    if new != l:
                        ms.append({"file": f, "line": i + 1, "old": l, "new": new, "op": f"{pat} -> {rep}"})
            # statement deletion: a call statement on its own line
            s = l.strip()
            if ACTIVE_OPS is OPS and re.match(r"^(self\.[a-z_\.]+\(.*\);|[a-z_]+\.(push|pop|truncate|clear|insert|remove)\(.*\);)$", s):
                ms.append({"file": f, "line": i + 1, "old": l, "new": l.replace(s, "/* deleted */"), "op": "delete statement"})
    return ms


def run(cmd, cwd, timeout):
    """Runs in its own process group under an address-space limit; the whole group is killed on timeout
    (a mutant may loop forever or allocate without bound)."""
    import signal
    p = subprocess.Popen("ulimit -v 6000000; " + cmd, cwd=cwd, shell=True, stdout=subprocess.PIPE, stderr=subprocess.STDOUT, text=True, start_new_session=True)
    try:
        out, _ = p.communicate(timeout=timeout)
        return p.returncode, out
    except subprocess.TimeoutExpired:
        os.killpg(p.pid, signal.SIGKILL)
        p.communicate()
        return 124, "timeout"


done = set()


def worker(job):
    wid, muts, outdir = job
    wt = f"/tmp/mut-wt-{wid}"
    subprocess.run(f"git -C /repo worktree remove --force {wt}", shell=True, capture_output=True)
    subprocess.run(f"git -C /repo worktree add -q {wt} HEAD", shell=True, check=True)
    env = f"CARGO_TARGET_DIR={wt}/target CARGO_NET_OFFLINE=true"
    run(f"{env} cargo test --offline --no-run", wt, 900)
    res = []
    for m in muts:
        path = f"{wt}/src/{m['file']}"
        lines = open(path).read().split("\n")
        assert lines[m["line"] - 1] == m["old"], (m, lines[m["line"] - 1])
        lines[m["line"] - 1] = m["new"]
        open(path, "w").write("\n".join(lines))
        if m["id"] in done:
            continue
        rc, out = run(f"{env} cargo build --offline --features verif 2>&1 | tail -3", wt, 300)
        status = None
        if "error" in out:
            status = "does-not-compile"
        else:
            rc, out = run(f"{env} timeout -k 5 120 cargo test --offline 2>&1 | grep -E '^test result|error|timed out' ", wt, 200)
            if rc == 124 or "FAILED" in out or "error" in out or out.count("test result: ok") < 2:
                status = "killed-by-suite"
            else:
                status = "survivor"
                d = subprocess.run("git diff -- src", cwd=wt, shell=True, capture_output=True, text=True).stdout
                name = f"{m['file'].replace('.rs','')}-L{m['line']}-{m['id']}"
                open(f"{outdir}/{name}.diff", "w").write(d)
                m["patch"] = f"{outdir}/{name}.diff"
        m["status"] = status
        res.append(m)
        with open(f"{outdir}/results.jsonl", "a") as fh:
            fh.write(json.dumps(m) + "\n")
        subprocess.run("git checkout -q -- src", cwd=wt, shell=True)
        print(f"[w{wid}] {m['file']}:{m['line']} {m['op']} -> {status}", flush=True)
    subprocess.run(f"git -C /repo worktree remove --force {wt}", shell=True, capture_output=True)
    return res


def main():
    if len(sys.argv) < 3 or sys.argv[1] != "gen":
        print(__doc__)
        sys.exit(2)
    outdir = sys.argv[2]
    os.makedirs(outdir, exist_ok=True)
    args = sys.argv[3:]
    def opt(name, default):
        return int(args[args.index(name) + 1]) if name in args else default
    stride, offset, jobs = opt("--stride", 1), opt("--offset", 0), opt("--jobs", 4)
    global ACTIVE_OPS
    if "--set" in args and args[args.index("--set") + 1] == "B":
        ACTIVE_OPS = OPS_B
    ms = all_mutants()
    for k, m in enumerate(ms):
        m["id"] = k
    chosen = ms[offset::stride]
    if os.path.exists(f"{outdir}/results.jsonl"):
        for l in open(f"{outdir}/results.jsonl"):
            done.add(json.loads(l)["id"])
    print(f"{len(ms)} mutants in total, {len(chosen)} chosen (stride {stride}, offset {offset})", flush=True)
    parts = [(w, chosen[w::jobs], outdir) for w in range(jobs)]
    results = []
    with cf.ThreadPoolExecutor(jobs) as ex:
        for r in ex.map(worker, parts):
            results.extend(r)
    from collections import Counter
    allr = [json.loads(l) for l in open(f"{outdir}/results.jsonl")]
    print(Counter(r["status"] for r in allr))


if __name__ == "__main__":
    main()
