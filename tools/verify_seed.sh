#!/bin/sh
# usage: tools/verify_seed.sh <worktree> <name>
# Confirms in the scratch worktree: the suite is green with the change, the demo fails with it and passes
# without it; then files the seed under /verif/seeded/<name>/ and removes the worktree.
WT="$1"; NAME="$2"
export CARGO_TARGET_DIR="$WT/target"
cd "$WT" || exit 2
[ -f seeded/patch.diff ] && [ -f seeded/demo.rs ] && [ -f seeded/meta.json ] || { echo "missing deliverables"; exit 2; }
git diff --quiet -- src && { echo "no source change in worktree"; exit 2; }
echo "--- suite with change"; cargo test --offline 2>&1 | grep -E "^test result" | tr '\n' ' '; echo
SUITE_FAIL=$(cargo test --offline 2>&1 | grep -cE "^test result: FAILED|error(\[|:)")
cp seeded/demo.rs tests/seeded_demo.rs
cargo test --offline --test seeded_demo > /tmp/vs_with.log 2>&1; WITH=$?
git diff -- src > "$WT/.seed_change.diff"
git apply -R "$WT/.seed_change.diff"
cargo test --offline --test seeded_demo > /tmp/vs_without.log 2>&1; WITHOUT=$?
git apply "$WT/.seed_change.diff"; rm -f "$WT/.seed_change.diff"
rm -f tests/seeded_demo.rs
echo "suite_failures=$SUITE_FAIL demo_with_change_exit=$WITH demo_without_change_exit=$WITHOUT"
if [ "$SUITE_FAIL" = 0 ] && [ "$WITH" != 0 ] && [ "$WITHOUT" = 0 ]; then
  mkdir -p /verif/seeded/$NAME
  git diff -- src > /verif/seeded/$NAME/patch.diff
  cp seeded/demo.rs /verif/seeded/$NAME/demo.rs
  cp seeded/meta.json /verif/seeded/$NAME/meta.json
  echo "CONFIRMED -> /verif/seeded/$NAME"
else
  echo "NOT CONFIRMED"; tail -5 /tmp/vs_with.log; tail -5 /tmp/vs_without.log
fi
