import sys
pid=sys.argv[1]
prop=open(f"/tmp/prop-{pid}.txt").read()  # produced from /verif/properties.jsonl (id, title, statement, quantifier, why_tests_cant, anchors)
EVASIVE = ""
if len(sys.argv) > 2 and sys.argv[2] == "evasive":
    EVASIVE = """Make it EVASIVE. Assume an automated checker already (a) runs every small program (all programs up to about eight syntax nodes over the whole grammar, every pair and triple of nested constructs), (b) climbs size ladders one by one and around every power of two up to 2^16+1 for every obvious size (loop iterations, string and list lengths, code offsets and jump distances, numbers of locals / globals / constants / functions / arguments, nesting and recursion depth, pending operands), (c) sweeps thousands of Unicode code points through literals, comments, names and between tokens, (d) runs all sessions of three lines and long sessions with up to two unusual lines. Choose a defect that none of that would hit by accident: it should depend on a CONJUNCTION of two or three independent conditions (for instance a particular feature used inside another particular feature at a non-trivial value), on a threshold that is not a power of two and not tiny (say 1000, 3000, 10007), on a data-dependent relation between two values, or on an order of events that is unusual but legal. It must still be a slip a maintainer could plausibly make.

"""
if len(sys.argv) > 3:
    EVASIVE += f"To keep different testers apart, make your main change in {sys.argv[3]} (touch another file only if the defect needs a cooperating site there).\n\n"
print(f"""You are helping to test a verification harness by seeding a realistic defect into a small Rust project.

The project: `nederlang`, a toy Dutch-keyword dynamically typed language (lexer, Pratt parser, bytecode compiler, stack VM, tagged-pointer objects, mark-sweep GC). You have your OWN scratch git worktree of it at /tmp/wt-{pid} . Work ONLY inside /tmp/wt-{pid} (never touch /repo or /verif, and do not read anything under /verif). The sandbox has no network; use `cargo ... --offline`. Set CARGO_TARGET_DIR=/tmp/wt-{pid}/target for every cargo command.

Here is a semantic property the project is supposed to satisfy:

{prop}

NOTE: the defects that the text above mentions as present ("in the pinned tree ...", "today ...") have since been repaired in your worktree (see `git log`); your change must introduce a NEW violation of the property, not rely on those.

YOUR TASK: make a small, realistic source change to the project (the kind of slip a maintainer could make in a refactor, optimisation or feature tweak: an off-by-one, a swapped operand, a wrong constant, a dropped root/reset/check on one path, a cached value not invalidated, two sites that each look fine alone) that BREAKS this property, while the project still compiles and its existing test suite still passes unchanged (`cd /tmp/wt-{pid} && CARGO_TARGET_DIR=/tmp/wt-{pid}/target cargo test --offline` must be green; do not edit, delete or ignore any existing test).

Requirements for the change:
- It must need something SPECIFIC to manifest: a particular multi-step sequence, an unusual input or operand value, a particular nesting or composition of language features, a particular history/crash point, or two cooperating sites. NOT something ordinary use or a trivial one-liner like `1 + 1` would expose at once.
- Do not modify src/verif.rs, and do not modify or remove any line that is under `#[cfg(feature = "verif")]` (those are inert instrumentation hooks); change the ordinary code only. Do not add new dependencies.
- Keep the diff small (ideally under 25 changed lines) and plausible.
- It must be a genuine violation of the property as stated above (not merely a change of an unspecified detail or of an error message text).

Deliverables (write these files):
1. /tmp/wt-{pid}/seeded/patch.diff  — output of `git -C /tmp/wt-{pid} diff` for your source change (only files under src/).
2. /tmp/wt-{pid}/seeded/demo.rs — a small standalone Rust integration test (it will be placed in tests/ of the project; use `nederlang::eval` or the public `nederlang::compiler::Compiler`, `nederlang::vm::VM`, `nederlang::parser::parse`, `nederlang::object::{{Object, Error}}` APIs) that FAILS with your change and PASSES without it. Verify both yourself: copy it to tests/seeded_demo.rs, run it with the change (must fail), then take the src change out with `git diff -- src > /tmp/wt-{pid}/my.diff && git apply -R /tmp/wt-{pid}/my.diff`, run it again (must pass), put the change back with `git apply /tmp/wt-{pid}/my.diff`, then remove tests/seeded_demo.rs again. NEVER use `git stash` (the stash is shared between worktrees and other people are using it).
3. /tmp/wt-{pid}/seeded/meta.json — JSON with keys: "property" ("{pid}"), "summary" (one sentence: what you changed), "needs" (what specific input/sequence/condition is needed for the violation to manifest), "commands_run" (list of commands you ran to confirm: full test suite green with the change, demo fails with it, demo passes without it).

{EVASIVE}When finished leave the worktree with your source change applied (uncommitted), the three files under seeded/, and no tests/seeded_demo.rs. Reply with a short summary of the change and what is needed to trigger it. Be efficient: do not explore more than necessary.""")
