#!/usr/bin/env python3
"""Sanity gate before committing: every evidence file validates, is quick/seed 0, has no violations or caps, MANIFEST validates."""
import json, sys, glob, subprocess
bad = 0
try:
    import jsonschema
    ev_schema = json.load(open('/root/.vp/EVIDENCE.schema.json'))
    mf_schema = json.load(open('/root/.vp/MANIFEST.schema.json'))
    jsonschema.validate(json.load(open('/verif/MANIFEST.json')), mf_schema)
except ImportError:
    jsonschema = None
for f in sorted(glob.glob('/verif/evidence/C*.json')):
    d = json.load(open(f))
    if jsonschema:
        try:
            jsonschema.validate(d, ev_schema)
        except Exception as e:
            print(f, 'schema:', str(e)[:200]); bad += 1
    c = d['coverage']
    if d['violations'] or c.get('caps_hit') and d['property_id'] != 'C17' or d['tier'] != 'quick' or d['seed'] != 0:
        print(f, 'violations', d['violations'], 'caps', c.get('caps_hit'), d['tier'], d['seed']); bad += 1
if len(glob.glob('/verif/evidence/C*.json')) != 17:
    print('expected 17 evidence files'); bad += 1
if subprocess.run(['git', '-C', '/repo', 'status', '--short'], capture_output=True, text=True).stdout.strip():
    print('/repo is dirty'); bad += 1
print('evidence ok' if not bad else f'{bad} problem(s)')
sys.exit(1 if bad else 0)
