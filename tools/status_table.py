#!/usr/bin/env python3
"""Prints a markdown table of what the evidence files say the last run of every check covered."""
import json, glob
print("| id | tier | cases | non-trivial | distinct outcomes | states / transitions | wall (s) | exhaustive |")
print("|---|---|---|---|---|---|---|---|")
for f in sorted(glob.glob('/verif/evidence/C*.json')):
    d = json.load(open(f)); c = d['coverage']
    st = f"{c.get('states','-')} / {c.get('transitions','-')}" if 'states' in c else "-"
    print(f"| {d['property_id']} | {d['tier']} | {c['evaluations']:,} | {c['nontrivial_cases']:,} | {c['distinct_outcomes']:,} | {st} | {d['wall_s']:.1f} | {c['exhaustive']} |")
