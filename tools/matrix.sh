#!/bin/sh
# usage: tools/matrix.sh <outdir> <patch>...  : for each patch: repo suite result, then every quick check's exit code
OUT="$1"; shift
mkdir -p "$OUT"
EVBAK=$(mktemp -d /tmp/evbak.XXXXXX); cp -a /verif/evidence/. "$EVBAK"/
for P in "$@"; do
  name=$(basename $(dirname "$P"))-$(basename "$P" .diff); case "$P" in */mutants/*) name=$(basename "$P" .diff);; */seeded/*) name=$(basename $(dirname "$P"));; esac
  mkdir -p /verif/.target; exec 9>/verif/.target/build.lock; flock 9; export NLMC_LOCK_HELD=1
cd /repo || exit 2
  git diff --quiet || { echo "/repo dirty" >&2; exit 2; }
  if ! git apply "$P" 2>/dev/null; then echo "$name: PATCH-DOES-NOT-APPLY" >> "$OUT/matrix.txt"; continue; fi
  suite=$(timeout 600 cargo test --offline 2>&1 | grep -cE "^test result: FAILED|^error")
  line="$name: suite_failures=$suite"
  for id in C01 C02 C03 C04 C05 C06 C07 C08 C09 C10 C11 C12 C13 C14 C15 C16 C17; do
    /verif/check $id --tier quick > "$OUT/$name.$id.log" 2>&1
    rc=$?
    [ $rc -ne 0 ] && line="$line $id=$rc"
  done
  echo "$line" >> "$OUT/matrix.txt"
  git -C /repo checkout -- .
done
rm -rf /verif/evidence; mkdir -p /verif/evidence; cp -a "$EVBAK"/. /verif/evidence/; rm -rf "$EVBAK"
