#!/bin/sh
# usage: tools/try_seed.sh <patch.diff> <ID>...   applies the patch to /repo, runs the quick checks, reverts
P="$1"; shift
mkdir -p /verif/.target; exec 9>/verif/.target/build.lock; flock 9; export NLMC_LOCK_HELD=1
cd /repo || exit 2
git diff --quiet || { echo "/repo has uncommitted changes" >&2; exit 2; }
git apply "$P" || { echo "patch does not apply" >&2; exit 2; }
# evidence written while a seeded change is applied must never end up committed
EVBAK=$(mktemp -d /tmp/evbak.XXXXXX); cp -a /verif/evidence/. "$EVBAK"/
for id in "$@"; do
  /verif/check "$id" --tier "${TIER:-quick}" > /tmp/try_seed.$id.log 2>&1
  rc=$?
  echo "== $id exit=$rc $(grep -c '^VIOLATION' /tmp/try_seed.$id.log) VIOLATION lines; $(grep -E "^$id (quick|thorough)" /tmp/try_seed.$id.log | cut -c1-120)"
  grep -E "^  why:" /tmp/try_seed.$id.log | sort | uniq -c | sort -rn | head -3
  grep -E "^  case:" /tmp/try_seed.$id.log | head -2 | cut -c1-300
  grep -E "MACHINERY" /tmp/try_seed.$id.log | head -3
done
git -C /repo checkout -- .
rm -rf /verif/evidence; mkdir -p /verif/evidence; cp -a "$EVBAK"/. /verif/evidence/; rm -rf "$EVBAK"
