#!/bin/sh
# usage: tools/eval_survivors.sh <dir with *.diff> : for every patch, applies it to /repo, runs the quick checks most
# likely to notice first (by file), then all others; stops at the first check that reports a violation.
# Writes <dir>/kill.txt: "<patch> killed-by=<ID>|SURVIVED-ALL|MACHINERY=<ID>".
D="$1"
mkdir -p /verif/.target; export NLMC_LOCK_HELD=1
ALL="C01 C02 C03 C04 C05 C06 C07 C08 C09 C10 C11 C12 C13 C14 C15 C16 C17"
for P in "$D"/*.diff; do
  name=$(basename "$P" .diff)
  grep -q "^$name " "$D/kill.txt" 2>/dev/null && continue
  case "$name" in
    lexer*) first="C08 C07 C05";; parser*) first="C07 C05 C01";; compiler*) first="C01 C02 C11 C09 C10 C12 C17";;
    vm*) first="C01 C06 C13 C12 C11 C02 C17";; object*) first="C15 C06 C14 C01 C13";; gc*) first="C03 C04 C17";;
    builtins*) first="C14 C05";; symbols*) first="C09 C01 C17";; *) first="C16 C04 C17";;
  esac
  order="$first"; for id in $ALL; do case " $first " in *" $id "*) ;; *) order="$order $id";; esac; done
  # the lock is held only while /repo is modified, so that other checks can run in between
  exec 9>/verif/.target/build.lock; flock 9
  cd /repo || exit 2
  git diff --quiet || { echo "/repo dirty" >&2; exit 2; }
  git apply "$P" || { echo "$name PATCH-DOES-NOT-APPLY" >> "$D/kill.txt"; continue; }
  EVBAK=$(mktemp -d /tmp/evbak.XXXXXX); cp -a /verif/evidence/. "$EVBAK"/
  verdict="SURVIVED-ALL"
  for id in $order; do
    timeout 900 /verif/check $id --tier quick > /tmp/eval_surv.log 2>&1; rc=$?
    if [ $rc -eq 1 ]; then verdict="killed-by=$id $(grep -m1 '^  why:' /tmp/eval_surv.log | cut -c1-160)"; break; fi
    if [ $rc -ne 0 ]; then verdict="MACHINERY=$id rc=$rc $(grep -m1 MACHINERY /tmp/eval_surv.log | cut -c1-160)"; break; fi
  done
  echo "$name $verdict" >> "$D/kill.txt"
  git -C /repo checkout -- .
  rm -rf /verif/evidence; mkdir -p /verif/evidence; cp -a "$EVBAK"/. /verif/evidence/; rm -rf "$EVBAK"
  exec 9>&-
done
