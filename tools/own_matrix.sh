#!/bin/sh
# usage: tools/own_matrix.sh <out.txt> : every seeded change and every own mutant against the quick check of its own property
OUT="${1:-/tmp/own_matrix.txt}"; : > "$OUT"
for P in /verif/seeded/*/patch.diff /verif/mutants/*.diff; do
  case "$P" in */seeded/*) name=$(basename $(dirname "$P"));; *) name=$(basename "$P" .diff);; esac
  id=$(echo "$name" | cut -c1-3)
  r=$(/verif/tools/try_seed.sh "$P" "$id" 2>&1 | head -1 | cut -c1-60)
  echo "$name: $r" >> "$OUT"
done
grep -c "exit=1" "$OUT"; grep -v "exit=1" "$OUT"
